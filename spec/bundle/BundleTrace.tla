----------------------------------- MODULE BundleTrace -----------------------------------
(* Validation of (a) step sequences performed on a real bundle_t in one dimension with an integer piecewise-linear objective  *)
(* (cuts read through the NANO_VERIF accessors) and (b) runs of RQB / FPBA1 / FPBA2 / ellipsoid on sharp objectives             *)
(* (harness/bundle_driver.cpp).  For (a) TLC keeps the previous cuts and requires every logged cut to be the new cut of the      *)
(* step or the re-based image of a previous cut (Bundle.tla), and evaluates CutsAreLowerBounds / ErrorsNonNegative /            *)
(* SizeBelowCapacity on the ACTUAL cuts; when aggregation produced a non-integer cut the lower-bound test is the driver's.       *)
EXTENDS Integers, Sequences, FiniteSets, TLC, Json, IOUtils
TraceLog == ndJsonDeserialize(IOEnv.TRACE)
VARIABLES l, as, bs, x, cuts
vars == <<l, as, bs, x, cuts>>
Ev == TraceLog[l]
Is(e) == l <= Len(TraceLog) /\ Ev.e = e
Abs(v) == IF v < 0 THEN -v ELSE v
F(z) == LET G[k \in 0..Len(as)] == IF k = 0 THEN 0 ELSE G[k - 1] + as[k] * Abs(z - bs[k]) IN G[Len(as)]
FE(z) == LET G[k \in 0..Len(Ev.as)] == IF k = 0 THEN 0 ELSE G[k - 1] + Ev.as[k] * Abs(z - Ev.bs[k]) IN G[Len(Ev.as)]
Dom == -8..8
SetOf(s) == {s[i] : i \in DOMAIN s}
LowerBounds(cs, c, fc) == \A i \in DOMAIN cs : \A z \in Dom : F(z) >= fc + cs[i][1] * (z - c) - cs[i][2]

Init == l = 1 /\ as = <<>> /\ bs = <<>> /\ x = 0 /\ cuts = <<>>
BInit == /\ Is("BInit") /\ l' = l + 1 /\ as' = Ev.as /\ bs' = Ev.bs /\ x' = Ev.x /\ cuts' = Ev.cuts
         /\ Ev.fx = FE(Ev.x) /\ Len(Ev.cuts) = 1 /\ Ev.cuts[1][2] = 0 /\ Ev.size < Ev.cap
BStep == /\ Is("BStep") /\ l' = l + 1 /\ UNCHANGED <<as, bs>>
         /\ Ev.fy = F(Ev.y)                                                        \* the driver's objective is the specification's
         /\ Ev.size = Len(Ev.cuts) /\ Ev.size < Ev.cap                             \* SizeBelowCapacity
         /\ x' = Ev.x /\ cuts' = Ev.cuts /\ Ev.fx = F(Ev.x)
         /\ Ev.x = (IF Ev.kind = "serious" THEN Ev.y ELSE x)                      \* only a serious step moves the centre
         /\ IF Ev.exact
              THEN LET new == IF Ev.kind = "serious" THEN <<Ev.gy, 0>> ELSE <<Ev.gy, F(x) - (Ev.fy + Ev.gy * (x - Ev.y))>>
                       rebased == IF Ev.kind = "serious" THEN {<<cuts[i][1], cuts[i][2] + Ev.fy - F(x) - cuts[i][1] * (Ev.y - x)>> : i \in DOMAIN cuts}
                                  ELSE SetOf(cuts)
                   IN /\ Ev.cuts[Len(Ev.cuts)] = new                                \* the newest cut is the one Bundle.tla computes
                      /\ \A i \in 1..(Len(Ev.cuts) - 1) : Ev.cuts[i] \in rebased    \* the others are (re-based) previous cuts
                      /\ \A i \in DOMAIN Ev.cuts : Ev.cuts[i][2] >= 0               \* ErrorsNonNegative
                      /\ LowerBounds(Ev.cuts, Ev.x, Ev.fx)                          \* CutsAreLowerBounds on the actual cuts
              ELSE Ev.lbOK /\ Ev.errOK
\* a run on a sharp objective: `converged` certifies the stated gap; the ellipsoid method converges within 20000 evaluations (n <= 6)
Sharp == /\ Is("Sharp") /\ l' = l + 1 /\ UNCHANGED <<as, bs, x, cuts>>
         /\ Ev.status \in {"converged", "max_iters", "failed"}
         /\ (Ev.status = "converged" => Ev.gapOK)
         /\ (Ev.mustConverge => (Ev.status = "converged" /\ Ev.evals <= 20000))
         \* the invariants of Bundle.tla / BundleSize.tla observed inside the solver run (hook after every update of the model): every cut
         \* is a lower bound of the objective at the minimiser and at the probe points (CutsAreLowerBounds), linearisation errors
         \* are non-negative (ErrorsNonNegative), the bundle stays below its capacity (SizeBelowCapacity)
         /\ Ev.cutsOK /\ Ev.errsOK /\ Ev.sizeOK
Next == BInit \/ BStep \/ Sharp
Spec == Init /\ [][Next]_vars
Accepted == LET d == TLCGet("stats").diameter IN
            IF d - 1 = Len(TraceLog) THEN TRUE ELSE PrintT(<<"REJECTED_AT", d>>) /\ FALSE
==========================================================================================
