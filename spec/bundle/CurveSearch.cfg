CONSTANT MaxTrials = 4
SPECIFICATION Spec
INVARIANTS ConvergedOnlyIf StatusIsOfThisCall MoveOnlyOnDescent
CHECK_DEADLOCK FALSE
