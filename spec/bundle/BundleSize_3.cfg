CONSTANTS
  MaxSize = 3
  Errs = {0, 1, 2}
  Guard = TRUE
SPECIFICATION Spec
INVARIANT NoOverflow
CHECK_DEADLOCK FALSE
