----------------------------------- MODULE CurveSearch -----------------------------------
(* The status machine of csearch_t::search (src/solver/csearch.cpp): trial points along the curve of proximal points with      *)
(* bracket [tL, tR]; the numerical tests of a trial are environment booleans.  The status is reset on entry (so a search that   *)
(* runs out of budget reports max_iters, not the status of the previous search).                                                *)
EXTENDS Integers, TLC
CONSTANTS MaxTrials
VARIABLES status, prev, tLzero, tRfinite, trials, pc, lastTests
vars == <<status, prev, tLzero, tRfinite, trials, pc, lastTests>>
Statuses == {"failed", "max_iters", "converged", "null", "descent", "cutting_plane"}
Tests == [finite : BOOLEAN, econv : BOOLEAN, sconv : BOOLEAN, descent : BOOLEAN, small : BOOLEAN, slope : BOOLEAN, cplane : BOOLEAN]
NoTests == [finite |-> TRUE, econv |-> FALSE, sconv |-> FALSE, descent |-> FALSE, small |-> FALSE, slope |-> FALSE, cplane |-> FALSE]
Init == /\ prev \in Statuses /\ status = prev /\ pc = "enter" /\ tLzero = TRUE /\ tRfinite = FALSE /\ trials = 0 /\ lastTests = NoTests
Enter == pc = "enter" /\ status' = "max_iters" /\ pc' = "loop" /\ UNCHANGED <<prev, tLzero, tRfinite, trials, lastTests>>
Stop(st, t) == status' = st /\ pc' = "done" /\ lastTests' = t /\ UNCHANGED <<prev, tLzero, tRfinite>>
Trial == /\ pc = "loop" /\ trials < MaxTrials /\ trials' = trials + 1
         /\ \E t \in Tests :
              IF ~t.finite THEN Stop("failed", t)
              ELSE IF t.econv /\ t.sconv THEN Stop("converged", t)
              ELSE IF t.descent
                   THEN IF t.slope THEN Stop("descent", t)
                        ELSE IF ~tRfinite /\ (t.sconv \/ t.cplane) THEN Stop("cutting_plane", t)
                        ELSE tLzero' = FALSE /\ lastTests' = t /\ UNCHANGED <<status, prev, tRfinite, pc>>
                   ELSE IF tLzero /\ t.small THEN (tRfinite' = TRUE /\ status' = "null" /\ pc' = "done" /\ lastTests' = t /\ UNCHANGED <<prev, tLzero>>)
                        ELSE tRfinite' = TRUE /\ lastTests' = t /\ UNCHANGED <<status, prev, tLzero, pc>>
Budget == pc = "loop" /\ trials = MaxTrials /\ pc' = "done" /\ UNCHANGED <<status, prev, tLzero, tRfinite, trials, lastTests>>
Next == Enter \/ Trial \/ Budget
Spec == Init /\ [][Next]_vars
ConvergedOnlyIf == (pc = "done" /\ status = "converged") => (lastTests.econv /\ lastTests.sconv)
\* the reported status was decided by this call: a budget exit reports max_iters whatever the previous search reported
StatusIsOfThisCall == (pc = "done" /\ trials = MaxTrials /\ status # "max_iters") => (status \in {"failed", "converged", "null", "descent", "cutting_plane"} /\ lastTests # NoTests)
MoveOnlyOnDescent == (pc = "done" /\ status \in {"descent", "cutting_plane"}) => lastTests.descent
==========================================================================================
