CONSTANTS
  MaxSize = 3
  Errs = {0, 1, 2}
  Guard = FALSE
SPECIFICATION Spec
INVARIANT NoOverflow
CHECK_DEADLOCK FALSE
