---- MODULE BundleSize ----
\* size/capacity bookkeeping of bundle_t::append (src/solver/bundle.cpp:85-154): delete_inactive, delete_largest(2),
\* then the new element. Linearisation errors are small integers chosen by the environment; std::nth_element's
\* unspecified arrangement and the stale slot read when count >= size are nondeterministic choices.
EXTENDS Integers, Sequences, FiniteSets, TLC
CONSTANTS MaxSize, Errs, Guard      \* Guard: apply the repaired rule (room for aggregate + new element)
VARIABLES es, overflow              \* es: sequence of linearisation errors of the bundle elements
Cap == MaxSize + 1
Count == 2

RemoveIdx(s, I) == LET keep == {i \in 1..Len(s) : i \notin I}
                       F[k \in 0..Len(s)] == IF k = 0 THEN <<>> ELSE IF k \in keep THEN Append(F[k-1], s[k]) ELSE F[k-1]
                   IN F[Len(s)]

\* all arrangements nth_element may leave: position pos (1-based) holds an element with exactly pos-1 smaller-or-equal before it
Arrangements(s, pos) == {p \in [1..Len(s) -> 1..Len(s)] :
                            /\ \A i, j \in 1..Len(s) : i # j => p[i] # p[j]
                            /\ \A i \in 1..Len(s) : (i < pos => s[p[i]] <= s[p[pos]]) /\ (i > pos => s[p[i]] >= s[p[pos]])}

DeleteLargest(s) ==
    IF Len(s) + 1 # Cap THEN {s}
    ELSE LET n == Len(s) IN
         UNION { LET thres == IF Count + 1 <= n THEN s[p[Count + 1]] ELSE st   \* m_alphas(count), 0-based index 'count'
                     removedGE == {i \in 1..n : s[i] >= thres}                 \* "E > thres - eps0" when eps0 matters
                     removedGT == {i \in 1..n : s[i] > thres}                  \* ... and when it is absorbed
                     cut(r) == LET t == RemoveIdx(s, r) IN
                               IF Guard /\ Len(t) > Cap - 3 THEN SubSeq(t, 1, Cap - 3) ELSE t
                 IN { Append(cut(removedGE), agg) : agg \in Errs } \cup { Append(cut(removedGT), agg) : agg \in Errs }
               : p \in Arrangements(s, IF n - Count >= 0 THEN n - Count + 1 ELSE 1), st \in Errs }

Init == es \in {<<e>> : e \in Errs} /\ overflow = FALSE
Step == /\ ~overflow
        /\ \E inactive \in SUBSET (1..Len(es)), e \in Errs :
             /\ inactive # 1..Len(es) \/ Len(es) = 0
             /\ \E t \in DeleteLargest(RemoveIdx(es, inactive)) :
                  IF Len(t) >= Cap THEN overflow' = TRUE /\ es' = t     \* write at index m_size == capacity
                  ELSE /\ es' \in {Append(t, e)} /\ overflow' = FALSE
Spec == Init /\ [][Step]_<<es, overflow>>
SizeBelowCapacity == ~overflow /\ Len(es) < Cap + 1 /\ (Len(es) <= Cap - 1 \/ overflow)
NoOverflow == ~overflow /\ Len(es) <= Cap - 1
====
