CONSTANTS
  Half = 3
  Objective = 2
SPECIFICATION Spec
INVARIANTS CutsAreLowerBounds ErrorsNonNegative StopCertifies
CHECK_DEADLOCK FALSE
