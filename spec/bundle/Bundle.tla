------------------------------------- MODULE Bundle -------------------------------------
(* The cutting-plane model kept by bundle_t (src/solver/bundle.cpp) over ONE-dimensional integer piecewise-linear convex       *)
(* objectives f(z) = sum_k a_k |z - b_k| (integer a_k > 0, b_k): every quantity the code computes is an exact integer.          *)
(* State: proximity centre x with f(x), cuts (s_i, e_i): sub-gradient and linearisation error relative to the centre.          *)
(* property C03 (design level): every cut is a lower bound of f (f(z) >= f(x) + s (z - x) - e), errors are non-negative; hence  *)
(* the stopping test  sum alpha_i e_i <= tau  and  |sum alpha_i s_i| <= tau  (alpha in the simplex) certifies                   *)
(* f(x) - f* <= tau (1 + |x - x*|) - the one-dimensional instance of the bound the property states.                             *)
EXTENDS Integers, Sequences, FiniteSets, TLC

CONSTANTS Half,       \* the integer points visited are -Half..Half
          Objective   \* which objective: 1: |z+1| + 2|z-1|,  2: 2|z+2| + |z| + |z-1|
Dom == (-Half)..Half
As == IF Objective = 1 THEN <<1, 2>> ELSE <<2, 1, 1>>
Bs == IF Objective = 1 THEN <<-1, 1>> ELSE <<-2, 0, 1>>
VARIABLES x, cuts
vars == <<x, cuts>>
Abs(v) == IF v < 0 THEN -v ELSE v
F(z) == LET G[k \in 0..Len(As)] == IF k = 0 THEN 0 ELSE G[k - 1] + As[k] * Abs(z - Bs[k]) IN G[Len(As)]
\* the sub-differential of f at z (an interval of integers): any element may be returned as "gradient"
SubLo(z) == LET G[k \in 0..Len(As)] == IF k = 0 THEN 0 ELSE G[k - 1] + (IF z > Bs[k] THEN As[k] ELSE -As[k]) IN G[Len(As)]
SubHi(z) == LET G[k \in 0..Len(As)] == IF k = 0 THEN 0 ELSE G[k - 1] + (IF z >= Bs[k] THEN As[k] ELSE -As[k]) IN G[Len(As)]
Sub(z) == SubLo(z)..SubHi(z)

Init == /\ x \in Dom /\ \E g \in Sub(x) : cuts = <<[s |-> g, e |-> 0]>>
\* null step: append the cut of y, centre unchanged:  e = f(x) - (f(y) + g_y (x - y))
NullStep(y, g) == /\ cuts' = Append(cuts, [s |-> g, e |-> F(x) - (F(y) + g * (x - y))]) /\ UNCHANGED x
\* serious step: move the centre to y; every error is re-based:  e_i += f(y) - f(x) - s_i (y - x);  the new cut has error 0
SeriousStep(y, g) == /\ cuts' = Append([i \in DOMAIN cuts |-> [s |-> cuts[i].s, e |-> cuts[i].e + F(y) - F(x) - cuts[i].s * (y - x)]],
                                       [s |-> g, e |-> 0])
                     /\ x' = y
\* inactive / largest-error cuts may be dropped at any time (which ones depends on real-valued multipliers)
Delete(I) == /\ I # DOMAIN cuts
             /\ cuts' = SelectSeq([i \in DOMAIN cuts |-> IF i \in I THEN [s |-> 0, e |-> -1] ELSE cuts[i]], LAMBDA c : c.e # -1 \/ c.s # 0)
             /\ UNCHANGED x
Next == \/ \E y \in Dom, g \in -10..10 : g \in Sub(y) /\ (NullStep(y, g) \/ SeriousStep(y, g)) /\ Len(cuts) < 4
        \/ \E I \in SUBSET DOMAIN cuts : Delete(I)
Spec == Init /\ [][Next]_vars

CutsAreLowerBounds == \A i \in DOMAIN cuts : \A z \in Dom : F(z) >= F(x) + cuts[i].s * (z - x) - cuts[i].e
ErrorsNonNegative == \A i \in DOMAIN cuts : cuts[i].e >= 0
\* the certificate for one cut (alpha = unit vector) and for the average of two cuts (alpha = (1/2, 1/2), scaled by 2)
Fstar == CHOOSE v \in {F(z) : z \in Dom} : \A z \in Dom : v <= F(z)
StopCertifies ==
    \A i, j \in DOMAIN cuts : \A tau \in 0..3 :
        (cuts[i].e + cuts[j].e <= 2 * tau /\ Abs(cuts[i].s + cuts[j].s) <= 2 * tau) =>
            \A z \in Dom : 2 * (F(x) - F(z)) <= 2 * tau * (1 + Abs(x - z))
=========================================================================================
