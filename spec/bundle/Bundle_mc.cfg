CONSTANTS
  Half = 3
  Objective = 1
SPECIFICATION Spec
INVARIANTS CutsAreLowerBounds ErrorsNonNegative StopCertifies
CHECK_DEADLOCK FALSE
