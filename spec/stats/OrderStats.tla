----------------------------------- MODULE OrderStats -----------------------------------
(* Reference semantics of the order statistics and histograms of include/nano/core/stats.h, histogram.h and              *)
(* src/machine/stats.cpp over an exact lattice: every real number is an integer multiple of 1/Unit (Unit = 64), so that  *)
(* values (multiples of 1/4), mid-points, thresholds derived from dyadic ratios and bin sums are exact both as doubles    *)
(* and as TLC integers.  Percentages are multiples of 1/8 (p8).                                                           *)
(* property C20: percentile(p) = value(s) at position p(n-1)/100 of the sorted list (mid-point of the two neighbours     *)
(* when fractional); bins partition the values by the counting rule  bin(v) = #{thresholds <= v}; per-bin count, mean,    *)
(* median are those of the values that fall in the bin; bin(v) follows the same rule for every real v.                    *)
EXTENDS Integers, Sequences, FiniteSets, TLC

Sorted(s) == SortSeq(s, LAMBDA a, b : a < b)
IsSorted(s) == \A i \in 1..(Len(s) - 1) : s[i] <= s[i + 1]
\* position p(n-1)/100 with p = p8/8:  numerator p8 (n-1), denominator 800; 0-based lower/upper neighbours
PosLo(n, p8) == (p8 * (n - 1)) \div 800
PosHi(n, p8) == IF (p8 * (n - 1)) % 800 = 0 THEN PosLo(n, p8) ELSE PosLo(n, p8) + 1
\* twice the percentile (so that mid-points stay integral)
Percentile2(sorted, p8) == sorted[PosLo(Len(sorted), p8) + 1] + sorted[PosHi(Len(sorted), p8) + 1]
\* the counting rule: a value goes to the right of every threshold it reaches
BinOf(thr, v) == Cardinality({i \in DOMAIN thr : thr[i] <= v})
RECURSIVE SumSeq(_)
SumSeq(s) == IF s = <<>> THEN 0 ELSE Head(s) + SumSeq(Tail(s))
\* the values (a sorted sequence) that fall in bin b
InBin(sorted, thr, b) == SelectSeq(sorted, LAMBDA v : BinOf(thr, v) = b)
=========================================================================================
