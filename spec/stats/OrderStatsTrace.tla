-------------------------------- MODULE OrderStatsTrace --------------------------------
(* TLC recomputes, with the exact operators of OrderStats, the result of every recorded call of the real percentile /     *)
(* median / histogram_t / ml::store_stats functions (harness/stats_driver.cpp): exhaustively all short lists over a small *)
(* alphabet, and random long lists.  NaN (empty bins) is logged as the marker Nan.                                        *)
EXTENDS OrderStats, Json, IOUtils

TraceLog == ndJsonDeserialize(IOEnv.TRACE)
VARIABLE l
Ev == TraceLog[l]
Is(e) == l <= Len(TraceLog) /\ Ev.e = e
Nan == -2000000000

Pct == /\ Is("Pct") /\ l' = l + 1
       /\ Len(Ev.vals) > 0 /\ Ev.p8 \in 0..800
       /\ Ev.out2 = Percentile2(Sorted(Ev.vals), Ev.p8)            \* sorted and unsorted variants, median = p8 400
Hist == /\ Is("Hist") /\ l' = l + 1
        /\ LET s == Sorted(Ev.vals) thr == Ev.thr nb == Len(Ev.thr) + 1 IN
           /\ IsSorted(thr) /\ Len(Ev.counts) = nb /\ Len(Ev.sums) = nb /\ Len(Ev.medians2) = nb
           \* thresholds as derived from the constructor's arguments
           /\ CASE Ev.ctor = "thresholds" -> thr = Sorted(Ev.args)
                [] Ev.ctor = "ratios" -> thr = [i \in DOMAIN Ev.args |-> s[1] + (Sorted(Ev.args)[i] * (s[Len(s)] - s[1])) \div 8]
                [] Ev.ctor = "percentiles" -> [i \in DOMAIN thr |-> 2 * thr[i]] = [i \in DOMAIN Ev.args |-> Percentile2(s, Sorted(Ev.args)[i])]
                [] OTHER -> TRUE                                      \* exponents: only the reported thresholds are used
           \* the bins partition the values; count, mean (as sum), median per bin
           /\ SumSeq(Ev.counts) = Len(s)
           /\ \A b \in 0..(nb - 1) :
                LET vb == InBin(s, thr, b) IN
                /\ Ev.counts[b + 1] = Len(vb)
                /\ IF Len(vb) = 0 THEN Ev.sums[b + 1] = Nan /\ Ev.medians2[b + 1] = Nan
                   ELSE Ev.sums[b + 1] = SumSeq(vb) /\ Ev.medians2[b + 1] = Percentile2(vb, 400)
           \* bin(v) for every query
           /\ \A q \in DOMAIN Ev.queries : Ev.bins[q] = BinOf(thr, Ev.queries[q])
           \* the overloads taking the number of bins: equidistant ratios k / bins (args in 1/8) resp. percentages 100 k / bins (args in 1/8)
           /\ Ev.equidistant > 0 =>
                /\ Ev.ctor \in {"ratios", "percentiles"} /\ Len(thr) = Ev.equidistant - 1
                /\ Ev.args = [i \in 1..(Ev.equidistant - 1) |-> ((IF Ev.ctor = "ratios" THEN 8 ELSE 800) * i) \div Ev.equidistant]
           \* the vector accessors counts() / means() / medians() agree with the per-bin getters (compared by the driver)
           /\ Ev.vecOK
\* thresholds that are not on the lattice (equidistant ratios / percentages for any number of bins, exponents with any base and epsilon): the
\* driver's own naive re-computation relative to the reported thresholds (environment predicates): thresholds as documented (thrOK) and
\* sorted, the counts sum to n, count / mean / median of every bin are those of the values that fall in it, bin(v) follows the counting rule
HistF == /\ Is("HistF") /\ l' = l + 1 /\ Ev.n >= 1 /\ Ev.bins >= 2
         /\ Ev.thrOK /\ Ev.sortedOK /\ Ev.sumOK /\ Ev.partOK /\ Ev.binOK /\ Ev.vecOK
\* ml::store_stats: [mean, stdev, count, per01, per05, per10, per20, per50, per80, per90, per95, per99]
Stats == /\ Is("Stats") /\ l' = l + 1
         /\ LET s == Sorted(Ev.vals) IN
            /\ Ev.sum = SumSeq(s) /\ Ev.count = Len(s)
            /\ Ev.pers2 = [i \in 1..9 |-> Percentile2(s, <<8, 40, 80, 160, 400, 640, 720, 760, 792>>[i])]
Next == Pct \/ Hist \/ Stats \/ HistF
Init == l = 1
Spec == Init /\ [][Next]_l
Accepted == LET d == TLCGet("stats").diameter IN
            IF d - 1 = Len(TraceLog) THEN TRUE ELSE PrintT(<<"REJECTED_AT", d>>) /\ FALSE
=========================================================================================
