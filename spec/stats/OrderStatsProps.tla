-------------------------------- MODULE OrderStatsProps --------------------------------
(* Exhaustive small-scope check of the reference operators themselves (all lists up to MaxLen over Vals, all threshold    *)
(* lists up to MaxThr over Vals, every percentage of the 1/8 grid that is a multiple of Pstep): the oracle used for the   *)
(* conformance check is itself consistent with the textual definitions.                                                   *)
EXTENDS OrderStats

CONSTANTS Vals, MaxLen, MaxThr, Pstep
VARIABLES vals, thr
Lists(n) == UNION {[1..k -> Vals] : k \in 1..n}
Init == vals \in Lists(MaxLen) /\ thr \in {t \in Lists(MaxThr) : IsSorted(t)}
Next == UNCHANGED <<vals, thr>>
Spec == Init /\ [][Next]_<<vals, thr>>

s == Sorted(vals)
Ps == {p \in 0..800 : p % Pstep = 0}
MinMax == Percentile2(s, 0) = 2 * s[1] /\ Percentile2(s, 800) = 2 * s[Len(s)]
Monotone == \A p \in Ps, q \in Ps : p <= q => Percentile2(s, p) <= Percentile2(s, q)
\* the percentile is the value at the position, or the mid-point of the two neighbours around a fractional position
AtPosition == \A p \in Ps : LET num == p * (Len(s) - 1) IN
                 IF num % 800 = 0 THEN Percentile2(s, p) = 2 * s[num \div 800 + 1]
                 ELSE Percentile2(s, p) = s[num \div 800 + 1] + s[num \div 800 + 2]
\* bins partition the values: every value in exactly one bin, bins are contiguous runs of the sorted list
Partition == /\ \A k \in DOMAIN s : BinOf(thr, s[k]) \in 0..Len(thr)
             /\ \A k \in 1..(Len(s) - 1) : BinOf(thr, s[k]) <= BinOf(thr, s[k + 1])
             /\ SumSeq([b \in 1..(Len(thr) + 1) |-> Len(InBin(s, thr, b - 1))]) = Len(s)
\* left of the first threshold -> bin 0, at/right of the last -> last bin
Ends == \A v \in Vals : (v < thr[1] <=> BinOf(thr, v) = 0) /\ (v >= thr[Len(thr)] <=> BinOf(thr, v) = Len(thr))
========================================================================================
