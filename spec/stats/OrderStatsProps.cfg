CONSTANTS
  Vals = {0, 1, 2, 3, 5}
  MaxLen = 4
  MaxThr = 2
  Pstep = 40
SPECIFICATION Spec
INVARIANTS MinMax Monotone AtPosition Partition Ends
