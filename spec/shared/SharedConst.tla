------------------------------------ MODULE SharedConst ------------------------------------
(* The sharing discipline behind "a const object may be used concurrently" (src/solver.cpp: make_lsearch clones the line-search   *)
(* prototypes per call; src/machine/tune.cpp: every (trial, fold) task gets its own result slot; dataset iterators: per-thread     *)
(* buffers indexed by an exclusive worker id).  A shared object owns prototypes with mutable state (e.g. the line-search history); *)
(* a call made through the const interface first clones what it mutates, or - the defect this model makes expressible - works on    *)
(* the shared prototype directly.                                                                                                  *)
(* property C18 (design level): no instance is written by two threads, and every call's result equals the result of the same call  *)
(* executed alone (its own history only).                                                                                          *)
EXTENDS Integers, Sequences, FiniteSets, TLC
CONSTANTS Threads, Steps, WithClone
VARIABLES pc, inst, hist, writers, result
vars == <<pc, inst, hist, writers, result>>
Proto == 0
Init == /\ pc = [t \in Threads |-> "start"] /\ inst = [t \in Threads |-> -1] /\ hist = [i \in {Proto} |-> <<>>]
        /\ writers = [i \in {Proto} |-> {}] /\ result = [t \in Threads |-> <<>>]
\* a call through the const interface: clone the prototype (fresh instance owned by the caller) or use the prototype itself
Begin(t) == /\ pc[t] = "start"
            /\ IF WithClone
                 THEN /\ inst' = [inst EXCEPT ![t] = t] /\ hist' = (t :> <<>>) @@ hist /\ writers' = (t :> {}) @@ writers
                 ELSE /\ inst' = [inst EXCEPT ![t] = Proto] /\ UNCHANGED <<hist, writers>>
            /\ pc' = [pc EXCEPT ![t] = "run"] /\ UNCHANGED result
\* one step of the call mutates the instance it works on (appends to its history) and reads it back
Step(t) == /\ pc[t] = "run" /\ Len(result[t]) < Steps
           /\ hist' = [hist EXCEPT ![inst[t]] = Append(@, t)]
           /\ writers' = [writers EXCEPT ![inst[t]] = @ \cup {t}]
           /\ result' = [result EXCEPT ![t] = Append(@, Len(hist[inst[t]]) + 1)]      \* what the call observes: its position in the history
           /\ UNCHANGED <<pc, inst>>
End(t) == pc[t] = "run" /\ Len(result[t]) = Steps /\ pc' = [pc EXCEPT ![t] = "done"] /\ UNCHANGED <<inst, hist, writers, result>>
Next == \E t \in Threads : Begin(t) \/ Step(t) \/ End(t)
Spec == Init /\ [][Next]_vars
NoTwoThreadsWriteSameInstance == \A i \in DOMAIN writers : Cardinality(writers[i]) <= 1
\* schedule independence: every finished call observed what it observes when executed alone
SoloResult == [k \in 1..Steps |-> k]
ResultsAsIfAlone == \A t \in Threads : pc[t] = "done" => result[t] = SoloResult
PrototypeUntouched == WithClone => hist[Proto] = <<>>
============================================================================================
