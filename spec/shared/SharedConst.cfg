CONSTANTS
  Threads = {1, 2, 3}
  Steps = 2
  WithClone = TRUE
SPECIFICATION Spec
INVARIANTS NoTwoThreadsWriteSameInstance ResultsAsIfAlone PrototypeUntouched
CHECK_DEADLOCK FALSE
