CONSTANTS
  Threads = {1, 2, 3}
  Steps = 2
  WithClone = FALSE
SPECIFICATION Spec
INVARIANTS NoTwoThreadsWriteSameInstance ResultsAsIfAlone PrototypeUntouched
CHECK_DEADLOCK FALSE
