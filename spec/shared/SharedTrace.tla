------------------------------------ MODULE SharedTrace ------------------------------------
(* Validation of concurrent uses of shared const objects (harness/shared_driver.cpp): every call executed concurrently from     *)
(* several threads on ONE shared instance must return what the same call returns when executed alone: Solo{task, hash} records the *)
(* bit pattern of the solo result, Conc{thread, task, hash} the concurrent ones.  Fits under different pool caps: Fit{...}.          *)
EXTENDS Integers, Sequences, FiniteSets, TLC, Json, IOUtils
TraceLog == ndJsonDeserialize(IOEnv.TRACE)
VARIABLES l, solo
vars == <<l, solo>>
Ev == TraceLog[l]
Is(e) == l <= Len(TraceLog) /\ Ev.e = e
Init == l = 1 /\ solo = <<>>
Reset == Is("Reset") /\ l' = l + 1 /\ solo' = <<>>
Solo == Is("Solo") /\ l' = l + 1 /\ Ev.task \notin DOMAIN solo /\ solo' = solo @@ (Ev.task :> Ev.hash)
\* bit-identical to the same call executed alone
Conc == Is("Conc") /\ l' = l + 1 /\ Ev.task \in DOMAIN solo /\ Ev.hash = solo[Ev.task] /\ UNCHANGED solo
\* the same fit with internal pools capped at different sizes: same selected features, predictions within 1e-5 relative
Fit == Is("Fit") /\ l' = l + 1 /\ Ev.sameFeatures /\ Ev.closePredictions /\ Ev.sameTuning /\ UNCHANGED solo
Next == Reset \/ Solo \/ Conc \/ Fit
Spec == Init /\ [][Next]_vars
Accepted == LET d == TLCGet("stats").diameter IN
            IF d - 1 = Len(TraceLog) THEN TRUE ELSE PrintT(<<"REJECTED_AT", d>>) /\ FALSE
============================================================================================
