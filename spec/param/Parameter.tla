----------------------------------- MODULE Parameter -----------------------------------
(* nano::parameter_t (include/nano/parameter.h, src/parameter.cpp): a named value with a declared domain;            *)
(* update() = convert to the stored kind, check, then assign.                                                        *)
(*                                                                                                                   *)
(* Numbers live on a half-integer grid: position p in Positions stands for the real number (p - Off)/2, so that      *)
(* fractional inputs to integer kinds (truncation toward zero, also for negative numbers) and the neighbours of the  *)
(* bounds are representable.  For real kinds only the order of the grid matters; the replay driver realises the      *)
(* neighbours of Min/Max as nextafter(bound) (one ulp).  NaN and the infinities are tokens.                          *)
(*                                                                                                                   *)
(* property C19: after any history of assignments the stored value is in the domain, an accepted assignment reads    *)
(* back as assigned (converted to the kind), a rejected one throws and keeps the old value, mismatched reads throw.  *)
EXTENDS Integers, Sequences, TLC

CONSTANTS Positions,     \* grid positions used for scalar kinds, e.g. 0..16
          PairPositions, \* (smaller) set of grid positions used for pair kinds
          Off, Min, Max, \* origin and bounds (grid positions)
          Kinds,         \* subset of {"int", "real", "ipair", "rpair", "enum", "str"}
          EnumSize       \* the enumeration has members 0..EnumSize-1; EnumSize stands for a non-member

VARIABLES cfg,   \* [kind, minLE, maxLE, valLE]: fixed at construction
          val,   \* stored value: <<r>> | <<r1, r2>> (half units) | <<member>> | <<string token>>
          last,  \* outcome of the last operation: "ok" | "threw"
          obs    \* value returned by the last read (<<>> when the last operation was not a successful read)
vars == <<cfg, val, last, obs>>

Tokens == {"nan", "pinf", "ninf"}
Num(p) == p - Off                                              \* half units
Trunc2(r) == IF r >= 0 THEN (r \div 2) * 2 ELSE -(((-r) \div 2) * 2)   \* static_cast<int64_t>(double), std::stoll
Scalar(k) == k \in {"int", "real"}
Pair(k) == k \in {"ipair", "rpair"}
IntKind(k) == k \in {"int", "ipair"}
Conv(k, r) == IF IntKind(k) THEN Trunc2(r) ELSE r
Lo(c, r) == IF c.minLE THEN Num(Min) <= r ELSE Num(Min) < r
Hi(c, r) == IF c.maxLE THEN r <= Num(Max) ELSE r < Num(Max)
Mid(c, r1, r2) == IF c.valLE THEN r1 <= r2 ELSE r1 < r2
InDom1(c, r) == Lo(c, r) /\ Hi(c, r)
InDom2(c, r1, r2) == Lo(c, r1) /\ Mid(c, r1, r2) /\ Hi(c, r2)
Representable(k, r) == ~IntKind(k) \/ r % 2 = 0
ValidVal(c, v) == CASE Scalar(c.kind) -> Len(v) = 1 /\ InDom1(c, v[1]) /\ Representable(c.kind, v[1])
                    [] Pair(c.kind) -> Len(v) = 2 /\ InDom2(c, v[1], v[2]) /\ Representable(c.kind, v[1]) /\ Representable(c.kind, v[2])
                    [] c.kind = "enum" -> Len(v) = 1 /\ v[1] \in 0..(EnumSize - 1)
                    [] c.kind = "str" -> Len(v) = 1

Configs == {c \in [kind : Kinds, minLE : BOOLEAN, maxLE : BOOLEAN, valLE : BOOLEAN] :
               /\ (~Pair(c.kind) => c.valLE)
               /\ (c.kind \in {"enum", "str"} => c.minLE /\ c.maxLE)}
InitVals(c) == CASE Scalar(c.kind) -> {<<Num(p)>> : p \in Positions}
                 [] Pair(c.kind) -> {<<Num(p), Num(q)>> : p \in PairPositions, q \in PairPositions}
                 [] c.kind = "enum" -> {<<e>> : e \in 0..(EnumSize - 1)}
                 [] c.kind = "str" -> {<<"s0">>}
\* construction runs the same check: only in-domain defaults yield an object
Init == /\ cfg \in Configs /\ val \in {v \in InitVals(cfg) : ValidVal(cfg, v)} /\ last = "ok" /\ obs = <<>>

Accept(v) == val' = v /\ last' = "ok" /\ obs' = <<>> /\ UNCHANGED cfg
Reject == val' = val /\ last' = "threw" /\ obs' = <<>> /\ UNCHANGED cfg
Set1(r) == IF InDom1(cfg, Conv(cfg.kind, r)) THEN Accept(<<Conv(cfg.kind, r)>>) ELSE Reject
Set2(r1, r2) == IF InDom2(cfg, Conv(cfg.kind, r1), Conv(cfg.kind, r2))
                THEN Accept(<<Conv(cfg.kind, r1), Conv(cfg.kind, r2)>>) ELSE Reject

\* p = int64 (only integers are expressible)
AssignI(p) == /\ Num(p) % 2 = 0 /\ IF Scalar(cfg.kind) THEN Set1(Num(p)) ELSE Reject
\* p = double
AssignD(p) == IF Scalar(cfg.kind) THEN Set1(Num(p)) ELSE Reject
\* p = NaN | +inf | -inf  (non-finite reals are rejected; integer kinds see an out-of-range conversion)
AssignTok(t) == t \in Tokens /\ Reject
\* p = "<decimal number>" (std::stoll / std::stod), also with trailing garbage ("1.5xyz"), for every kind
AssignS(p, trailing) ==
    CASE Scalar(cfg.kind) -> Set1(Num(p))
      [] Pair(cfg.kind) -> Reject                                 \* second component missing: stoll("") throws
      [] cfg.kind = "enum" -> Reject                              \* not a member
      [] cfg.kind = "str" -> Accept(<<"num">>)
\* p = "" | "abc"
AssignGarbage == IF cfg.kind = "str" THEN Accept(<<"garbage">>) ELSE Reject
\* p = std::tuple<int64_t, int64_t>
AssignPI(p, q) == /\ Num(p) % 2 = 0 /\ Num(q) % 2 = 0 /\ IF Pair(cfg.kind) THEN Set2(Num(p), Num(q)) ELSE Reject
\* p = std::tuple<scalar_t, scalar_t>
AssignPD(p, q) == IF Pair(cfg.kind) THEN Set2(Num(p), Num(q)) ELSE Reject
\* p = "<number><sep><number>"
AssignPS(p, q) == CASE Pair(cfg.kind) -> Set2(Num(p), Num(q))
                    [] Scalar(cfg.kind) -> Set1(Num(p))            \* stoll/stod stop at the separator
                    [] cfg.kind = "enum" -> Reject
                    [] cfg.kind = "str" -> Accept(<<"pair">>)
\* p = enumeration value / p = "<member name>" (e = EnumSize: a name outside the enumeration)
AssignE(e) == IF cfg.kind = "enum" /\ e < EnumSize THEN Accept(<<e>>) ELSE Reject
AssignES(e) == CASE cfg.kind = "enum" -> (IF e < EnumSize THEN Accept(<<e>>) ELSE Reject)
                 [] cfg.kind = "str" -> Accept(<<"member">>)
                 [] OTHER -> Reject                                \* stoll("name") throws
\* reads: value<int64_t>(), value<scalar_t>(), value_pair<...>(), value<enum>(), value<string_t>()
Read(ok, o) == val' = val /\ UNCHANGED cfg /\ last' = (IF ok THEN "ok" ELSE "threw") /\ obs' = (IF ok THEN o ELSE <<>>)
ReadI == cfg \in Configs /\ Read(Scalar(cfg.kind), <<Trunc2(val[1])>>)
ReadD == cfg \in Configs /\ Read(Scalar(cfg.kind), val)
ReadPI == cfg \in Configs /\ Read(Pair(cfg.kind), IF Pair(cfg.kind) THEN <<Trunc2(val[1]), Trunc2(val[2])>> ELSE <<>>)
ReadPD == cfg \in Configs /\ Read(Pair(cfg.kind), val)
ReadE == cfg \in Configs /\ Read(cfg.kind = "enum", val)
ReadS == cfg \in Configs /\ Read(cfg.kind = "str", val)
\* write to a stream and read back into a default-constructed parameter: same kind, domain and value
WriteRead == val' = val /\ UNCHANGED cfg /\ last' = "ok" /\ obs' = <<>>

Next == \/ \E p \in Positions : AssignI(p) \/ AssignD(p) \/ AssignS(p, FALSE) \/ AssignS(p, TRUE)
        \/ \E t \in Tokens : AssignTok(t)
        \/ AssignGarbage
        \/ \E p \in PairPositions, q \in PairPositions : AssignPI(p, q) \/ AssignPD(p, q) \/ AssignPS(p, q)
        \/ \E e \in 0..EnumSize : AssignE(e) \/ AssignES(e)
        \/ ReadI \/ ReadD \/ ReadPI \/ ReadPD \/ ReadE \/ ReadS \/ WriteRead
Spec == Init /\ [][Next]_vars

\* ---- C19
AlwaysInDomain == ValidVal(cfg, val)
RejectedKeepsOld == [][last' = "threw" => val' = val]_vars
AcceptedReadsBack ==
    [][/\ \A p \in Positions : ((AssignD(p) \/ AssignS(p, FALSE)) /\ last' = "ok" /\ Scalar(cfg.kind)) => val' = <<Conv(cfg.kind, Num(p))>>
       /\ \A p \in PairPositions, q \in PairPositions : (AssignPD(p, q) /\ last' = "ok") => val' = <<Conv(cfg.kind, Num(p)), Conv(cfg.kind, Num(q))>>]_vars
\* an in-domain (after conversion) assignment of the right type is never rejected
InDomainAccepted ==
    [][\A p \in Positions : (AssignD(p) /\ Scalar(cfg.kind) /\ InDom1(cfg, Conv(cfg.kind, Num(p)))) => last' = "ok"]_vars
TypeMismatchThrows ==
    [][/\ (ReadI /\ ~Scalar(cfg.kind)) => last' = "threw"
       /\ (ReadPD /\ ~Pair(cfg.kind)) => last' = "threw"
       /\ (ReadE /\ cfg.kind # "enum") => last' = "threw"
       /\ (ReadS /\ cfg.kind # "str") => last' = "threw"
       /\ \A p \in PairPositions, q \in PairPositions : (AssignPD(p, q) /\ ~Pair(cfg.kind)) => last' = "threw"]_vars
ReadsDoNotWrite == [][(ReadI \/ ReadD \/ ReadPI \/ ReadPD \/ ReadE \/ ReadS \/ WriteRead) => val' = val]_vars
=======================================================================================
