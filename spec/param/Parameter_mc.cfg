CONSTANTS
  Positions = {0, 1, 2, 3, 4, 5, 6, 7, 8, 9, 10, 11, 12, 13, 14, 15, 16}
  PairPositions = {2, 3, 4, 5, 8, 9, 11, 12, 13}
  Off = 8
  Min = 4
  Max = 12
  Kinds = {"int", "real", "ipair", "rpair", "enum", "str"}
  EnumSize = 3
SPECIFICATION Spec
INVARIANT AlwaysInDomain
PROPERTIES RejectedKeepsOld AcceptedReadsBack InDomainAccepted TypeMismatchThrows ReadsDoNotWrite
