------------------------------- MODULE ConfigurableTrace -------------------------------
(* Trace validation of the factory sweep (C19): every object of the 11 factories; see harness/param_driver.cpp (sweep) *)
EXTENDS Configurable, Json, IOUtils

TraceLog == ndJsonDeserialize(IOEnv.TRACE)
VARIABLE l
Ev == TraceLog[l]
Is(e) == l <= Len(TraceLog) /\ Ev.e = e
Step == l' = l + 1

\* the record of a Param/ReadOn/AssignOn event: r = <<min, value(s), max>> as order ranks (0-based)
Rec(ev, n) == [kind |-> ev.kind, minLE |-> ev.minLE, maxLE |-> ev.maxLE, valLE |-> ev.valLE,
               min |-> IF Len(ev.r) > 0 THEN ev.r[1] ELSE 0, max |-> IF Len(ev.r) > 0 THEN ev.r[n + 2] ELSE 0,
               vals |-> IF Len(ev.r) > 0 THEN SubSeq(ev.r, 2, n + 1) ELSE <<>>, text |-> ev.text]
\* ranks are only meaningful within one event: re-rank (min, values, max) densely so that records can be compared
RankIn(S, x) == Cardinality({y \in S : y < x})
Canon(p) == LET S == {p.min, p.max} \cup {p.vals[i] : i \in DOMAIN p.vals} IN
            [p EXCEPT !.min = RankIn(S, p.min), !.max = RankIn(S, p.max), !.vals = [i \in DOMAIN p.vals |-> RankIn(S, p.vals[i])]]
Arity(ev) == IF ev.kind \in {"ipair", "rpair"} THEN 2 ELSE IF ev.kind \in {"int", "real"} THEN 1 ELSE 0

TReset == Is("Reset") /\ Step /\ objs' = <<>> /\ last' = "ok"
\* factory.get(id) returns an object that reports the id it was registered under
TGet == Is("Get") /\ Step /\ Ev.idOK /\ Ev.obj >= 0 /\ Create(Ev.obj)
TGetUnknown == Is("GetUnknown") /\ Step /\ Ev.null /\ UNCHANGED vars
\* every registered parameter with its default: the default must be accepted as a domain member (invariant AllInDomain)
TParam == /\ Is("Param") /\ Step /\ Ev.kind # "none" /\ Ev.typedOK     \* (enumerations: the typed read is the member with the stored name)
          /\ Ev.obj \in DOMAIN objs /\ Ev.name \notin DOMAIN objs[Ev.obj]
          /\ objs' = [objs EXCEPT ![Ev.obj] = @ @@ (Ev.name :> Canon(Rec(Ev, Arity(Ev))))] /\ last' = "ok"
TLookup == Is("Lookup") /\ Step /\ Lookup(Ev.obj, Ev.name) /\ Ev.threw = (last' = "threw") /\ Ev.null = Ev.threw
TClone == /\ Is("Clone") /\ Step /\ Ev.idOK /\ Ev.equal /\ Ev.behaves /\ Ev.of \in DOMAIN objs
          /\ Ev.n = Cardinality(DOMAIN objs[Ev.of]) /\ Clone(Ev.of, Ev.obj)
\* a parameter is set to another in-domain value; r = <<min, old value(s), max, new value(s)>> on one scale.
\* The object must have held the old value, no other object may change, the new value must be accepted.
TAssignOn == /\ Is("AssignOn") /\ Step /\ Ev.obj \in DOMAIN objs /\ Ev.name \in DOMAIN objs[Ev.obj]
             /\ LET n == Arity(Ev)
                    old == Rec(Ev, n)
                    new == [old EXCEPT !.vals = IF n = 0 THEN <<>> ELSE SubSeq(Ev.r, n + 3, 2 * n + 2), !.text = Ev.newtext]
                IN /\ objs[Ev.obj][Ev.name] = Canon(old) /\ Ev.typedOK
                   /\ Ev.otherUnchanged /\ ~Ev.threw /\ (Ev.changed => Ev.differs)
                   /\ objs' = [objs EXCEPT ![Ev.obj][Ev.name] = Canon(new)] /\ last' = "ok"
\* an object still holds what the specification says it holds (in particular after its clone was modified)
TReadOn == /\ Is("ReadOn") /\ Step /\ Ev.obj \in DOMAIN objs /\ Ev.name \in DOMAIN objs[Ev.obj]
           /\ objs[Ev.obj][Ev.name] = Canon(Rec(Ev, Arity(Ev))) /\ Ev.typedOK /\ UNCHANGED vars

\* every member of an enumeration's domain is accepted by name and read back as assigned (stored name, typed read)
TEnumAll == Is("EnumAll") /\ Step /\ Ev.obj \in DOMAIN objs /\ Ev.name \in DOMAIN objs[Ev.obj] /\ Ev.ok /\ UNCHANGED vars

\* ---- driver-owned cases
\* factory queries: has(id) <=> get(id) # nullptr (registered ids and an unknown one), every id has a description, ids(regex) is the
\* subset of ids() matching the expression (prefix, suffix, one id, all, none - decided by the driver with plain string operations)
TFactory == Is("Factory") /\ Step /\ Ev.hasOK /\ Ev.descOK /\ Ev.regexOK /\ UNCHANGED vars
\* parameter construction (make_integer / make_scalar / make_*_pair): the default is validated like an assignment - constructed iff it is
\* finite and in the domain (also empty domains, min = max, bounds of magnitude 1e9); r = <<min, value(s), max, stored value(s)>>
TConstruct == /\ Is("Construct") /\ Step /\ UNCHANGED vars
              /\ LET n == Arity(Ev) p == Rec(Ev, n) IN
                 /\ Ev.constructed = (Ev.finite /\ InDomain(p))
                 /\ Ev.constructed => SubSeq(Ev.r, n + 3, 2 * n + 2) = p.vals       \* read back as given
\* a string assigned to a pair parameter: r = <<min, old1, old2, max, after1, after2, token...>>.  Fewer than two tokens: rejected; two:
\* accepted iff in the domain; more (nothing says what is assigned then): rejected, or accepted with the first token and one of the
\* others, in the domain.  Rejected = throws and leaves the previous pair.
TAssignStr == /\ Is("AssignStr") /\ Step /\ UNCHANGED vars
              /\ LET p == Rec(Ev, 2)
                     after == SubSeq(Ev.r, 5, 6)
                     toks == SubSeq(Ev.r, 7, 6 + Ev.ntok)
                 IN /\ InDomain(p) /\ Len(Ev.r) = 6 + Ev.ntok
                    /\ Ev.threw => after = p.vals
                    /\ ~Ev.threw => /\ InDomain([p EXCEPT !.vals = after]) /\ Ev.ntok >= 2
                                    /\ after[1] = toks[1] /\ \E i \in 2..Ev.ntok : after[2] = toks[i]
                    /\ Ev.ntok < 2 => Ev.threw
                    /\ Ev.ntok = 2 => (Ev.threw = ~InDomain([p EXCEPT !.vals = toks]))
\* 64-bit integers beyond 2^53 (no double holds them) assigned to integer / integer-pair parameters, by value and as decimal strings: a value is
\* three 21-bit words of v + 2^62, compared lexicographically. Accepted iff inside the domain (with the ordering constraint of a pair), then read
\* back EXACTLY as assigned; rejected = throws and keeps the previous value.
WLT(a, b) == \/ a[1] < b[1] \/ (a[1] = b[1] /\ a[2] < b[2]) \/ (a[1] = b[1] /\ a[2] = b[2] /\ a[3] < b[3])
WLE(a, b) == a = b \/ WLT(a, b)
WCmp(le, a, b) == IF le THEN WLE(a, b) ELSE WLT(a, b)
WInDomain(ev, vs) == /\ WCmp(ev.minLE, ev.lo, vs[1]) /\ WCmp(ev.maxLE, vs[Len(vs)], ev.hi)
                     /\ (Len(vs) = 2 => WCmp(ev.valLE, vs[1], vs[2]))
TWideInt == /\ Is("WideInt") /\ Step /\ UNCHANGED vars
            /\ Len(Ev.given) = (IF Ev.pair THEN 2 ELSE 1) /\ Len(Ev.after) = Len(Ev.given) /\ Len(Ev.before) = Len(Ev.given)
            /\ WInDomain(Ev, Ev.before)
            /\ Ev.threw = ~WInDomain(Ev, Ev.given)
            /\ Ev.after = (IF Ev.threw THEN Ev.before ELSE Ev.given)
\* a configurable object of the driver's own: Create / Register of Configurable.tla (a duplicate name or an out-of-domain default throws and
\* leaves the object unchanged: `same` = parameters() compares equal to before, `n` = number of parameters afterwards)
TCreate == Is("Create") /\ Step /\ Create(Ev.obj)
TRegister == /\ Is("Register") /\ Step /\ Ev.finite
             /\ Register(Ev.obj, Ev.name, Canon(Rec(Ev, Arity(Ev))))
             /\ Ev.threw = (last' = "threw") /\ (Ev.threw => Ev.same) /\ Ev.n = Cardinality(DOMAIN objs'[Ev.obj])
\* config(name1, value1, name2, value2, ...): r of an item = <<min, old value(s), max, requested value(s), value(s) afterwards>>.
\* Throws iff a name is unknown or a value is outside its domain; no throw: every pair is assigned; throw: a rejected value leaves its
\* parameter as it was (the valid pairs of such a call are assigned or not: the statement does not say)
TConfig == /\ Is("Config") /\ Step /\ Ev.obj \in DOMAIN objs
           /\ LET o == Ev.obj
                  it == Ev.items
                  I == 1..Len(it)
                  Known(i) == it[i].name \in DOMAIN objs[o]
                  N(i) == Arity(it[i])
                  Old(i) == Rec(it[i], N(i))
                  Req(i) == [Old(i) EXCEPT !.vals = SubSeq(it[i].r, N(i) + 3, 2 * N(i) + 2)]
                  Aft(i) == [Old(i) EXCEPT !.vals = SubSeq(it[i].r, 2 * N(i) + 3, 3 * N(i) + 2)]
                  Valid(i) == Known(i) /\ InDomain(Req(i))
              IN /\ \A i, j \in I : i # j => it[i].name # it[j].name
                 /\ \A i \in I : Known(i) => objs[o][it[i].name] = Canon(Old(i))
                 /\ Ev.threw = (\E i \in I : ~Valid(i))
                 /\ ~Ev.threw => \A i \in I : Aft(i).vals = Req(i).vals
                 /\ Ev.threw => \A i \in I : Known(i) => IF InDomain(Req(i)) THEN Aft(i).vals \in {Old(i).vals, Req(i).vals}
                                                                             ELSE Aft(i).vals = Old(i).vals
                 /\ objs' = [objs EXCEPT ![o] = [nm \in DOMAIN objs[o] |->
                                 IF \E i \in I : it[i].name = nm THEN Canon(Aft(CHOOSE i \in I : it[i].name = nm)) ELSE objs[o][nm]]]
                 /\ last' = IF Ev.threw THEN "threw" ELSE "ok"

TraceInit == l = 1 /\ Init
TraceNext == TEnumAll \/ TReset \/ TGet \/ TGetUnknown \/ TParam \/ TLookup \/ TClone \/ TAssignOn \/ TReadOn
             \/ TFactory \/ TConstruct \/ TAssignStr \/ TWideInt \/ TCreate \/ TRegister \/ TConfig
Accepted == LET d == TLCGet("stats").diameter IN
            IF d - 1 = Len(TraceLog) THEN TRUE ELSE PrintT(<<"REJECTED_AT", d>>) /\ FALSE
========================================================================================
