------------------------------- MODULE ConfigurableTrace -------------------------------
(* Trace validation of the factory sweep (C19): every object of the 11 factories; see harness/param_driver.cpp (sweep) *)
EXTENDS Configurable, Json, IOUtils

TraceLog == ndJsonDeserialize(IOEnv.TRACE)
VARIABLE l
Ev == TraceLog[l]
Is(e) == l <= Len(TraceLog) /\ Ev.e = e
Step == l' = l + 1

\* the record of a Param/ReadOn/AssignOn event: r = <<min, value(s), max>> as order ranks (0-based)
Rec(ev, n) == [kind |-> ev.kind, minLE |-> ev.minLE, maxLE |-> ev.maxLE, valLE |-> ev.valLE,
               min |-> IF Len(ev.r) > 0 THEN ev.r[1] ELSE 0, max |-> IF Len(ev.r) > 0 THEN ev.r[n + 2] ELSE 0,
               vals |-> IF Len(ev.r) > 0 THEN SubSeq(ev.r, 2, n + 1) ELSE <<>>, text |-> ev.text]
\* ranks are only meaningful within one event: re-rank (min, values, max) densely so that records can be compared
RankIn(S, x) == Cardinality({y \in S : y < x})
Canon(p) == LET S == {p.min, p.max} \cup {p.vals[i] : i \in DOMAIN p.vals} IN
            [p EXCEPT !.min = RankIn(S, p.min), !.max = RankIn(S, p.max), !.vals = [i \in DOMAIN p.vals |-> RankIn(S, p.vals[i])]]
Arity(ev) == IF ev.kind \in {"ipair", "rpair"} THEN 2 ELSE IF ev.kind \in {"int", "real"} THEN 1 ELSE 0

TReset == Is("Reset") /\ Step /\ objs' = <<>> /\ last' = "ok"
\* factory.get(id) returns an object that reports the id it was registered under
TGet == Is("Get") /\ Step /\ Ev.idOK /\ Ev.obj >= 0 /\ Create(Ev.obj)
TGetUnknown == Is("GetUnknown") /\ Step /\ Ev.null /\ UNCHANGED vars
\* every registered parameter with its default: the default must be accepted as a domain member (invariant AllInDomain)
TParam == /\ Is("Param") /\ Step /\ Ev.kind # "none" /\ Ev.typedOK     \* (enumerations: the typed read is the member with the stored name)
          /\ Ev.obj \in DOMAIN objs /\ Ev.name \notin DOMAIN objs[Ev.obj]
          /\ objs' = [objs EXCEPT ![Ev.obj] = @ @@ (Ev.name :> Canon(Rec(Ev, Arity(Ev))))] /\ last' = "ok"
TLookup == Is("Lookup") /\ Step /\ Lookup(Ev.obj, Ev.name) /\ Ev.threw = (last' = "threw") /\ Ev.null = Ev.threw
TClone == /\ Is("Clone") /\ Step /\ Ev.idOK /\ Ev.equal /\ Ev.behaves /\ Ev.of \in DOMAIN objs
          /\ Ev.n = Cardinality(DOMAIN objs[Ev.of]) /\ Clone(Ev.of, Ev.obj)
\* a parameter is set to another in-domain value; r = <<min, old value(s), max, new value(s)>> on one scale.
\* The object must have held the old value, no other object may change, the new value must be accepted.
TAssignOn == /\ Is("AssignOn") /\ Step /\ Ev.obj \in DOMAIN objs /\ Ev.name \in DOMAIN objs[Ev.obj]
             /\ LET n == Arity(Ev)
                    old == Rec(Ev, n)
                    new == [old EXCEPT !.vals = IF n = 0 THEN <<>> ELSE SubSeq(Ev.r, n + 3, 2 * n + 2), !.text = Ev.newtext]
                IN /\ objs[Ev.obj][Ev.name] = Canon(old) /\ Ev.typedOK
                   /\ Ev.otherUnchanged /\ ~Ev.threw /\ (Ev.changed => Ev.differs)
                   /\ objs' = [objs EXCEPT ![Ev.obj][Ev.name] = Canon(new)] /\ last' = "ok"
\* an object still holds what the specification says it holds (in particular after its clone was modified)
TReadOn == /\ Is("ReadOn") /\ Step /\ Ev.obj \in DOMAIN objs /\ Ev.name \in DOMAIN objs[Ev.obj]
           /\ objs[Ev.obj][Ev.name] = Canon(Rec(Ev, Arity(Ev))) /\ Ev.typedOK /\ UNCHANGED vars

\* every member of an enumeration's domain is accepted by name and read back as assigned (stored name, typed read)
TEnumAll == Is("EnumAll") /\ Step /\ Ev.obj \in DOMAIN objs /\ Ev.name \in DOMAIN objs[Ev.obj] /\ Ev.ok /\ UNCHANGED vars

TraceInit == l = 1 /\ Init
TraceNext == TEnumAll \/ TReset \/ TGet \/ TGetUnknown \/ TParam \/ TLookup \/ TClone \/ TAssignOn \/ TReadOn
Accepted == LET d == TLCGet("stats").diameter IN
            IF d - 1 = Len(TraceLog) THEN TRUE ELSE PrintT(<<"REJECTED_AT", d>>) /\ FALSE
========================================================================================
