---------------------------------- MODULE Configurable ----------------------------------
(* nano::configurable_t + clonable objects (include/nano/configurable.h, src/configurable.cpp, include/nano/factory.h): *)
(* an object is a map name -> parameter; parameters are addressed by name (unknown names throw), registered once,        *)
(* copied by clone() and then independently modifiable.  Values are integers: grid points in the model, order ranks of   *)
(* the real values in traces (only comparisons matter for domain membership).                                            *)
EXTENDS Integers, Sequences, FiniteSets, TLC

CONSTANTS Objs, Names, Grid

VARIABLES objs,   \* object -> (name -> parameter record)
          last    \* "ok" | "threw"
vars == <<objs, last>>

\* parameter record: [kind, minLE, maxLE, valLE, min, max, vals, text]
Lo(p, v) == IF p.minLE THEN p.min <= v ELSE p.min < v
Hi(p, v) == IF p.maxLE THEN v <= p.max ELSE v < p.max
InDomain(p) == CASE p.kind \in {"int", "real"} -> Len(p.vals) = 1 /\ Lo(p, p.vals[1]) /\ Hi(p, p.vals[1])
                 [] p.kind \in {"ipair", "rpair"} -> /\ Len(p.vals) = 2 /\ Lo(p, p.vals[1]) /\ Hi(p, p.vals[2])
                                                     /\ (IF p.valLE THEN p.vals[1] <= p.vals[2] ELSE p.vals[1] < p.vals[2])
                 [] p.kind = "enum" -> p.valLE          \* traces: "the stored name is one of the enumeration's names"
                 [] p.kind = "str" -> TRUE
                 [] OTHER -> FALSE
Params == [kind : {"int"}, minLE : BOOLEAN, maxLE : {TRUE}, valLE : {TRUE}, min : {1}, max : {3},
           vals : {<<v>> : v \in Grid}, text : {""}]
          \cup [kind : {"rpair"}, minLE : {TRUE}, maxLE : {FALSE}, valLE : BOOLEAN, min : {1}, max : {3},
                vals : {<<1, 2>>, <<2, 1>>, <<2, 2>>, <<2, 3>>}, text : {""}]

Init == objs = <<>> /\ last = "ok"
Create(o) == /\ o \notin DOMAIN objs /\ objs' = objs @@ (o :> <<>>) /\ last' = "ok"
\* register_parameter: a duplicate name throws; construction of an out-of-domain parameter throws before that
Register(o, n, p) == /\ o \in DOMAIN objs
                     /\ IF n \in DOMAIN objs[o] \/ ~InDomain(p) THEN UNCHANGED objs /\ last' = "threw"
                        ELSE objs' = [objs EXCEPT ![o] = @ @@ (n :> p)] /\ last' = "ok"
\* parameter(name): unknown names throw
Lookup(o, n) == /\ o \in DOMAIN objs /\ UNCHANGED objs /\ last' = (IF n \in DOMAIN objs[o] THEN "ok" ELSE "threw")
Clone(o, o2) == /\ o \in DOMAIN objs /\ o2 \notin DOMAIN objs /\ objs' = objs @@ (o2 :> objs[o]) /\ last' = "ok"
AssignOn(o, n, vals) == /\ o \in DOMAIN objs /\ n \in DOMAIN objs[o]
                        /\ LET q == [objs[o][n] EXCEPT !.vals = vals] IN
                           IF InDomain(q) THEN objs' = [objs EXCEPT ![o][n] = q] /\ last' = "ok"
                           ELSE UNCHANGED objs /\ last' = "threw"
Next == \/ \E o \in Objs : Create(o)
        \/ \E o \in Objs, n \in Names, p \in Params : Register(o, n, p)
        \/ \E o \in Objs, n \in Names : Lookup(o, n)
        \/ \E o \in Objs, o2 \in Objs : Clone(o, o2)
        \/ \E o \in Objs, n \in Names, v \in Grid : AssignOn(o, n, <<v>>)
        \/ \E o \in Objs, n \in Names, v \in {1, 2, 3}, w \in {1, 2, 3} : AssignOn(o, n, <<v, w>>)
Spec == Init /\ [][Next]_vars

AllInDomain == \A o \in DOMAIN objs : \A n \in DOMAIN objs[o] : InDomain(objs[o][n])
CloneIsEqual == [][\A o \in Objs, o2 \in Objs : Clone(o, o2) => objs'[o2] = objs[o]]_vars
CloneIndependent == [][\A o \in Objs, n \in Names, v \in Grid :
                          AssignOn(o, n, <<v>>) => \A x \in DOMAIN objs : x # o => objs'[x] = objs[x]]_vars
ThrowKeepsAll == [][last' = "threw" => objs' = objs]_vars
=======================================================================================
