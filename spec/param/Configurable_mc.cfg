CONSTANTS
  Objs = {1, 2}
  Names = {"a", "b"}
  Grid = {0, 1, 2, 3, 4}
SPECIFICATION Spec
INVARIANT AllInDomain
PROPERTIES CloneIsEqual CloneIndependent ThrowKeepsAll
