CONSTANTS
  Objs = {}
  Names = {}
  Grid = {}
INIT TraceInit
NEXT TraceNext
INVARIANT AllInDomain
POSTCONDITION Accepted
CHECK_DEADLOCK FALSE
