CONSTANTS
  Vals = {0, 1, 2, 3, 4, 5, 6}
  Eps = 1
  Patiences = {1, 2, 3, 4}
  MaxRounds = 8
  Valids = {TRUE, FALSE}
SPECIFICATION Spec
VIEW View
INVARIANTS AcceptedNonEmpty ReportsLastAccepted SnapshotIsOfBestRound
PROPERTIES StopsExactlyWhen ImprovementsAreSignificant
CHECK_DEADLOCK FALSE
