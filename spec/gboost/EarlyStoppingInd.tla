------------------------------- MODULE EarlyStoppingInd -------------------------------
(* Unbounded strengthening of EarlyStopping.tla for Apalache: arbitrary natural error values, arbitrary history length, any     *)
(* patience >= 1, any epsilon >= 0.  The history sequence `accepted` is replaced by its last element (all the properties use).   *)
(* IndInv is inductive (Init => IndInv, IndInv /\ Next => IndInv') and implies the reporting clauses of C11.                      *)
EXTENDS Integers

CONSTANTS
    \* @type: Int;
    Eps,
    \* @type: Int;
    Patience,
    \* @type: Bool;
    HasValid

ASSUME Eps >= 0 /\ Patience >= 1

VARIABLES
    \* @type: Int;
    round,
    \* @type: Int;
    bestRound,
    \* @type: Int;
    bestValue,
    \* @type: Int;
    snapshot,
    \* @type: Bool;
    stopped,
    \* @type: Int;
    lastAccepted,
    \* @type: Bool;
    lastStopWasDue

Inf == 1000000
CInit == Eps \in Nat /\ Patience \in Nat /\ Patience >= 1 /\ HasValid \in BOOLEAN

Init == /\ round = 0 /\ bestRound = 0 /\ bestValue = Inf /\ snapshot = -1 /\ stopped = FALSE /\ lastAccepted = -1
        /\ lastStopWasDue = TRUE

Done(tr, vd0) ==
    LET vd == IF HasValid THEN vd0 ELSE 0 IN
    /\ ~stopped
    /\ IF tr < Eps
         THEN /\ bestValue' = vd /\ bestRound' = round /\ snapshot' = round /\ stopped' = TRUE /\ lastAccepted' = round
       ELSE IF vd < bestValue - Eps \/ ~HasValid
         THEN /\ bestValue' = vd /\ bestRound' = round /\ snapshot' = round /\ stopped' = FALSE /\ lastAccepted' = round
       ELSE IF round < bestRound + Patience
         THEN UNCHANGED <<bestValue, bestRound, snapshot, lastAccepted>> /\ stopped' = FALSE
       ELSE UNCHANGED <<bestValue, bestRound, snapshot, lastAccepted>> /\ stopped' = TRUE
    \* the stop decision is due exactly when the property says so (history-free formulation of StopsExactlyWhen)
    /\ lastStopWasDue' = (stopped' <=> (tr < Eps \/ (HasValid /\ round - lastAccepted' >= Patience)))
    /\ round' = round + 1

\* finite error values: strictly below max() - epsilon (the first call then always accepts)
Next == \E tr \in 0..(Inf - 1), vd \in 0..(Inf - Eps - 1) : Done(tr, vd)

\* ---- the inductive invariant
IndInv ==
    /\ round >= 0 /\ lastStopWasDue \in BOOLEAN /\ stopped \in BOOLEAN
    /\ (round = 0 => (bestRound = 0 /\ bestValue = Inf /\ snapshot = -1 /\ lastAccepted = -1 /\ ~stopped))
    /\ (round > 0 => (/\ 0 <= bestRound /\ bestRound < round
                      /\ lastAccepted = bestRound            \* reports the round of the last accepted improvement
                      /\ snapshot = bestRound                \* with that round's per-sample values
                      /\ 0 <= bestValue /\ bestValue < Inf))
    \* while running, the last accepted improvement is less than `patience` rounds old (bounded staleness)
    /\ ((round > 0 /\ ~stopped /\ HasValid) => round - 1 - bestRound < Patience)
    \* without validation samples every round is accepted
    /\ ((round > 0 /\ ~HasValid) => bestRound = round - 1)
    /\ lastStopWasDue

\* IndInv as an initial-state predicate for Apalache (every variable assigned from its type first)
IndInit == /\ round \in Int /\ bestRound \in Int /\ bestValue \in Int /\ snapshot \in Int /\ lastAccepted \in Int
           /\ stopped \in BOOLEAN /\ lastStopWasDue \in BOOLEAN
           /\ IndInv

Safety == /\ (round > 0 => (lastAccepted = bestRound /\ snapshot = bestRound))
          /\ lastStopWasDue
=======================================================================================
