CONSTANTS
  Vals = {0, 1, 2, 3, 4}
  Eps = 1
  Patiences = {1, 2, 3}
  MaxRounds = 6
  Valids = {TRUE, FALSE}
INIT FInit
NEXT FNext
INVARIANTS SizeIsRound TruncationInRange KeepsBestRound ReportsLastAccepted SnapshotIsOfBestRound
CHECK_DEADLOCK FALSE
