--------------------------------- MODULE GBoostFitTrace ---------------------------------
(* Validation of observations recorded from real fits of gboost_model_t / linear_t (harness/fit_driver.cpp).            *)
(* Numeric agreement between stored and recomputed quantities is established by the driver through the public API      *)
(* (environment predicates, logged as booleans); this specification checks the bookkeeping they are attached to:       *)
(* every (trial, fold) slot reported exactly once, the statistics rows/learners kept by every fold model as            *)
(* GBoostFit.tla requires, the optimum trial, the final model.                                                          *)
EXTENDS Integers, Sequences, FiniteSets, TLC, Json, IOUtils

TraceLog == ndJsonDeserialize(IOEnv.TRACE)
VARIABLES l, fit, slots, final
vars == <<l, fit, slots, final>>
Ev == TraceLog[l]
Is(e) == l <= Len(TraceLog) /\ Ev.e = e
NoFit == [model |-> "none"]

Init == l = 1 /\ fit = NoFit /\ slots = {} /\ final = FALSE
Reset == Is("Reset") /\ l' = l + 1 /\ fit' = NoFit /\ slots' = {} /\ final' = FALSE
Fit == /\ Is("Fit") /\ fit = NoFit /\ l' = l + 1 /\ slots' = {} /\ final' = FALSE
       /\ Ev.folds >= 2 /\ Ev.trials >= 1
       /\ fit' = [model |-> Ev.model, folds |-> Ev.folds, trials |-> Ev.trials, maxRounds |-> Ev.maxRounds]
\* one (trial, fold) result: stored statistics equal the recomputed ones; rows - 1 is the optimum round of that fold
Slot == /\ Is("Slot") /\ fit # NoFit /\ ~final /\ l' = l + 1 /\ UNCHANGED <<fit, final>>
        /\ Ev.trial \in 0..(fit.trials - 1) /\ Ev.fold \in 0..(fit.folds - 1)
        /\ <<Ev.trial, Ev.fold>> \notin slots /\ slots' = slots \cup {<<Ev.trial, Ev.fold>>}
        /\ Ev.trErrOK /\ Ev.trLossOK /\ Ev.vdErrOK /\ Ev.vdLossOK /\ Ev.splitOK
        /\ (fit.model = "gboost" =>
              /\ Ev.rows >= 1 /\ Ev.rows - 1 <= fit.maxRounds      \* KeepsBestRound: rows = optimum round + 1
              /\ Ev.nl <= Ev.rows - 1                                \* merging can only reduce the learners kept
              /\ Ev.rowOK)                                           \* last statistics row = recomputed means of that model
\* the final model
Final == /\ Is("Final") /\ fit # NoFit /\ ~final /\ final' = TRUE /\ l' = l + 1 /\ UNCHANGED <<fit, slots>>
         /\ slots = (0..(fit.trials - 1)) \X (0..(fit.folds - 1))          \* every slot exactly once
         /\ Len(Ev.means) = fit.trials
         /\ Ev.optimum \in 0..(fit.trials - 1)
         /\ \A t \in 1..fit.trials : Ev.means[Ev.optimum + 1] <= Ev.means[t]   \* smallest mean validation error (ranks);
                                                                              \* the property leaves ties open (the code takes the first)
         /\ Ev.statsErrOK /\ Ev.statsLossOK /\ Ev.predSumOK
         /\ Ev.evalOK                                    \* learner_t::evaluate of the final model = errors / losses of its predictions
         /\ (fit.model = "gboost" => Ev.avgOK)
Next == Reset \/ Fit \/ Slot \/ Final
Spec == Init /\ [][Next]_vars
Accepted == LET d == TLCGet("stats").diameter IN
            IF d - 1 = Len(TraceLog) THEN TRUE ELSE PrintT(<<"REJECTED_AT", d>>) /\ FALSE
=========================================================================================
