----------------------------------- MODULE GBoostFit -----------------------------------
(* The boosting loop of src/gboost/model.cpp (::fit) composed with the early-stopping monitor: bias, then one weak     *)
(* learner per round with the three exits of the loop (no learner fits, scaling fails, early stop / max_rounds), then  *)
(* result.done(optimum.round()) which truncates the learners and the per-round statistics.                             *)
EXTENDS EarlyStopping

VARIABLES nl,      \* number of weak learners stored in the result
          rows,    \* number of statistics rows written (rounds 0..rows-1)
          phase,   \* "bias" | "loop" | "finish" | "done"
          kept,    \* learners kept after truncation (before merging)
          krows    \* statistics rows kept after truncation
fvars == <<vars, nl, rows, phase, kept, krows>>

FInit == Init /\ nl = 0 /\ rows = 0 /\ phase = "bias" /\ kept = -1 /\ krows = -1
\* bias estimated, round-0 statistics written, first call of done()
Bias == /\ phase = "bias" /\ \E tr \in Vals, vd \in Vals : Done(tr, vd)
        /\ rows' = 1 /\ phase' = (IF stopped' THEN "finish" ELSE "loop") /\ UNCHANGED <<nl, kept, krows>>
\* no prototype fits the residuals: break
NoLearner == /\ phase = "loop" /\ nl < MaxRounds /\ phase' = "finish" /\ UNCHANGED <<vars, nl, rows, kept, krows>>
\* the scaling step fails: the learner and its statistics are stored, done() is not called, break
ScaleFails == /\ phase = "loop" /\ nl < MaxRounds /\ nl' = nl + 1 /\ rows' = rows + 1 /\ phase' = "finish"
              /\ UNCHANGED <<vars, kept, krows>>
Round == /\ phase = "loop" /\ nl < MaxRounds /\ nl' = nl + 1 /\ rows' = rows + 1
         /\ \E tr \in Vals, vd \in Vals : Done(tr, vd)
         /\ phase' = (IF stopped' THEN "finish" ELSE "loop") /\ UNCHANGED <<kept, krows>>
Exhausted == /\ phase = "loop" /\ nl = MaxRounds /\ phase' = "finish" /\ UNCHANGED <<vars, nl, rows, kept, krows>>
\* result.done(optimum.round()): erase learners [round, end), keep statistics rows [0, round]
Finish == /\ phase = "finish" /\ kept' = bestRound /\ krows' = bestRound + 1 /\ phase' = "done"
          /\ UNCHANGED <<vars, nl, rows>>
FNext == Bias \/ NoLearner \/ ScaleFails \/ Round \/ Exhausted \/ Finish
FSpec == FInit /\ [][FNext]_fvars

\* done() is always called with wlearners.size() = number of calls so far
SizeIsRound == phase \in {"loop"} => nl = round - 1
\* the truncation never reaches beyond what was stored
TruncationInRange == bestRound <= nl /\ (rows > 0 => bestRound + 1 <= rows)
KeepsBestRound == phase = "done" => (kept = bestRound /\ krows = bestRound + 1 /\ kept <= nl /\ snapshot = bestRound)
========================================================================================
