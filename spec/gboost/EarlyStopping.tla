--------------------------------- MODULE EarlyStopping ---------------------------------
(* gboost::early_stopping_t (src/gboost/early_stopping.cpp) as used by the boosting loop of src/gboost/model.cpp:      *)
(* done() is called once after the bias (0 weak learners) and once after every boosting round with the current (train,  *)
(* validation) mean errors; `round` is the number of weak learners at the call.                                         *)
(*                                                                                                                      *)
(* property C11 (second sentence): the monitor stops exactly when the training error drops below epsilon or no          *)
(* validation improvement larger than epsilon was accepted in the last `patience` rounds; it reports the round of the   *)
(* last accepted improvement together with that round's per-sample values.                                             *)
EXTENDS Integers, Sequences, TLC

CONSTANTS Vals,       \* alphabet of (integer) error values
          Eps,        \* epsilon
          Patiences,  \* set of patience values explored
          MaxRounds,  \* longest history
          Valids      \* subset of BOOLEAN: with / without validation samples

VARIABLES patience, hasValid,   \* configuration (fixed by Init)
          round,                \* number of calls of done() so far = number of weak learners at the next call
          bestRound, bestValue, \* m_round, m_value
          snapshot,             \* the round whose per-sample values are held in m_values (-1: the constructor's)
          stopped,              \* result of the last call
          accepted              \* history variable: rounds at which an improvement was accepted (hidden by the VIEW)
vars == <<patience, hasValid, round, bestRound, bestValue, snapshot, stopped, accepted>>
View == <<patience, hasValid, round, bestRound, bestValue, snapshot, stopped>>

Inf == 1000000        \* std::numeric_limits<scalar_t>::max()

Init == /\ patience \in Patiences /\ hasValid \in Valids
        /\ round = 0 /\ bestRound = 0 /\ bestValue = Inf /\ snapshot = -1 /\ stopped = FALSE /\ accepted = <<>>

\* one call done(errors_losses, train, valid, wlearners (size = round), epsilon, patience);
\* without validation samples the mean validation error is 0 (mean over an empty set is defined as 0 by the code)
Done(tr, vd0) ==
    LET vd == IF hasValid THEN vd0 ELSE 0 IN
    /\ ~stopped /\ round <= MaxRounds /\ (hasValid \/ vd0 = 0)
    /\ IF tr < Eps
         THEN /\ bestValue' = vd /\ bestRound' = round /\ snapshot' = round /\ stopped' = TRUE
              /\ accepted' = Append(accepted, round)
       ELSE IF vd < bestValue - Eps \/ ~hasValid
         THEN /\ bestValue' = vd /\ bestRound' = round /\ snapshot' = round /\ stopped' = FALSE
              /\ accepted' = Append(accepted, round)
       ELSE IF round < bestRound + patience
         THEN UNCHANGED <<bestValue, bestRound, snapshot, accepted>> /\ stopped' = FALSE
       ELSE UNCHANGED <<bestValue, bestRound, snapshot, accepted>> /\ stopped' = TRUE
    /\ round' = round + 1 /\ UNCHANGED <<patience, hasValid>>
Next == \E tr \in Vals, vd \in Vals : Done(tr, vd)
Spec == Init /\ [][Next]_vars

Last(s) == s[Len(s)]
\* ---- C11
\* (the first call always accepts: any value improves on "no value yet")
AcceptedNonEmpty == round > 0 => Len(accepted) > 0
ReportsLastAccepted == round > 0 => bestRound = Last(accepted)
SnapshotIsOfBestRound == round > 0 => snapshot = bestRound
\* stops exactly when the training error is below epsilon, or (with validation samples) the last accepted improvement is
\* `patience` or more rounds old
StopsExactlyWhen ==
    [][\A tr \in Vals, vd \in Vals : Done(tr, vd) =>
          (stopped' <=> (tr < Eps \/ (hasValid /\ round - Last(accepted') >= patience)))]_vars
\* an accepted improvement is larger than epsilon with respect to the previously accepted value
ImprovementsAreSignificant ==
    [][\A tr \in Vals, vd \in Vals :
          (Done(tr, vd) /\ hasValid /\ tr >= Eps /\ Len(accepted') > Len(accepted)) => vd < bestValue - Eps]_vars
BestValueIsOfBestRound == TRUE
=======================================================================================
