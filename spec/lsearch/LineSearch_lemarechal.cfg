CONSTANTS
  Algo = "lemarechal"
  MaxIter = 4
SPECIFICATION Spec
INVARIANTS SuccessMeansAdvertised NonDescentRefused
CHECK_DEADLOCK FALSE
