---- MODULE LineSearch ----
\* control flow of lsearchk_t::get + backtrack / lemarechal / fletcher (src/lsearchk.cpp, src/lsearchk/*.cpp).
\* The objective is an environment: every trial evaluation returns arbitrary truth values for
\* valid / armijo / wolfe / strong-wolfe / descent / (f >= f_lo). Step sizes are not modelled (only their
\* identity): the property is about *which trial* a successful return refers to and what was tested on it.
EXTENDS Integers, Sequences, TLC
CONSTANTS Algo, MaxIter
VARIABLES pc, it, cur, ntrials, result, zoomed
vars == <<pc, it, cur, ntrials, result, zoomed>>
Flags == [valid : BOOLEAN, armijo : BOOLEAN, wolfe : BOOLEAN, swolfe : BOOLEAN, descent : BOOLEAN, fgelo : BOOLEAN]
NoTrial == [valid |-> FALSE, armijo |-> FALSE, wolfe |-> FALSE, swolfe |-> FALSE, descent |-> FALSE, fgelo |-> FALSE]
NoResult == [ok |-> FALSE, trial |-> -1]

Init == pc = "guard" /\ it = 0 /\ cur = NoTrial /\ ntrials = 0 /\ result = NoResult /\ zoomed = FALSE
\* new trial evaluation: state := f(x0 + t d); flags chosen by the environment (strong Wolfe implies Wolfe)
Trial(next) == \E f \in Flags : (f.swolfe => f.wolfe) /\ cur' = f /\ ntrials' = ntrials + 1 /\ pc' = next
Return(ok) == result' = [ok |-> ok, trial |-> ntrials] /\ pc' = "done" /\ UNCHANGED <<cur, ntrials, it, zoomed>>

Guard == /\ pc = "guard"
         /\ \/ (result' = [ok |-> FALSE, trial |-> 0] /\ pc' = "done" /\ UNCHANGED <<cur, ntrials, it, zoomed>>)   \* not a descent direction
            \/ (Trial("adjust") /\ UNCHANGED <<it, result, zoomed>>)                                              \* first trial at t0
\* initial-step adjustment loops of lsearchk_t::get (shrink while invalid, grow while flat): more trials, may fail
Adjust == /\ pc = "adjust"
          /\ \/ (Trial("adjust") /\ UNCHANGED <<it, result, zoomed>> /\ ntrials < MaxIter)
             \/ (Return(FALSE) /\ ~cur.valid)                              \* update() failed while growing
             \/ (pc' = "search" /\ UNCHANGED <<it, cur, ntrials, result, zoomed>>)

Backtrack == /\ pc = "search" /\ Algo = "backtrack"
             /\ IF it < MaxIter /\ cur.valid
                  THEN IF cur.armijo THEN Return(TRUE)
                       ELSE \/ (Trial("search") /\ it' = it + 1 /\ UNCHANGED <<result, zoomed>>)
                  ELSE Return(FALSE)
\* NB: backtrack returns {false} right after an invalid update as well; subsumed by the ELSE branch at the next step

LeMarechal == /\ pc = "search" /\ Algo = "lemarechal"
              /\ IF it + 1 < MaxIter
                   THEN IF cur.armijo /\ cur.wolfe THEN Return(TRUE)
                        ELSE /\ Trial("lm_check") /\ it' = it + 1 /\ UNCHANGED <<result, zoomed>>
                   ELSE Return(FALSE)
LmCheck == pc = "lm_check" /\ (IF cur.valid THEN pc' = "search" /\ UNCHANGED <<it, cur, ntrials, result, zoomed>> ELSE Return(FALSE))

Fletcher == /\ pc = "search" /\ Algo = "fletcher" /\ ~zoomed
            /\ IF it + 1 < MaxIter
                 THEN IF ~cur.armijo \/ cur.fgelo THEN zoomed' = TRUE /\ pc' = "zoom" /\ it' = 0 /\ UNCHANGED <<cur, ntrials, result>>
                      ELSE IF cur.swolfe THEN Return(TRUE)
                      ELSE IF ~cur.descent THEN zoomed' = TRUE /\ pc' = "zoom" /\ it' = 0 /\ UNCHANGED <<cur, ntrials, result>>
                      ELSE Trial("fl_check") /\ it' = it + 1 /\ UNCHANGED <<result, zoomed>>
                 ELSE Return(FALSE)
FlCheck == pc = "fl_check" /\ (IF cur.valid THEN pc' = "search" /\ UNCHANGED <<it, cur, ntrials, result, zoomed>> ELSE Return(FALSE))
Zoom == /\ pc = "zoom"
        /\ \/ (it < MaxIter /\ Trial("zoom_check") /\ it' = it + 1 /\ UNCHANGED <<result, zoomed>>)
           \/ (result' = [ok |-> FALSE, trial |-> -1] /\ pc' = "done" /\ UNCHANGED <<cur, ntrials, it, zoomed>>)   \* interval collapsed / cap reached: {false, hi.t}
ZoomCheck == /\ pc = "zoom_check"
             /\ IF ~cur.valid THEN Return(FALSE)
                ELSE IF ~cur.armijo \/ cur.fgelo THEN pc' = "zoom" /\ UNCHANGED <<it, cur, ntrials, result, zoomed>>
                ELSE IF cur.swolfe THEN Return(TRUE)
                ELSE pc' = "zoom" /\ UNCHANGED <<it, cur, ntrials, result, zoomed>>

Next == Guard \/ Adjust \/ Backtrack \/ LeMarechal \/ LmCheck \/ Fletcher \/ FlCheck \/ Zoom \/ ZoomCheck
Spec == Init /\ [][Next]_vars

Advertised == CASE Algo = "backtrack" -> cur.armijo
                [] Algo = "lemarechal" -> cur.armijo /\ cur.wolfe
                [] Algo = "fletcher" -> cur.armijo /\ cur.swolfe
SuccessMeansAdvertised == (pc = "done" /\ result.ok) => (result.trial = ntrials /\ ntrials >= 1 /\ Advertised)
NonDescentRefused == (pc = "done" /\ result.trial = 0) => (~result.ok /\ ntrials = 0)
====
