SPECIFICATION Spec
INVARIANTS SuccessMeansAdvertised NonDescentRefused QuadraticSucceeds
POSTCONDITION Accepted
CHECK_DEADLOCK FALSE
