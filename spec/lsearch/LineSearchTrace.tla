--------------------------------- MODULE LineSearchTrace ---------------------------------
(* Validation of line searches recorded from the real lsearchk_t implementations (harness/lsearch_driver.cpp).  Trials are    *)
(* the evaluations of the driver's own counting wrapper after the start point; the Armijo / Wolfe / strong Wolfe /            *)
(* approximate-Wolfe predicates of a trial are recomputed by the driver from the wrapper's (f, g) with the rounding slack of    *)
(* the property ("up to rounding") and enter TLC as booleans.                                                                 *)
(* property C07: success => the accepted point is one of the trials, the returned step is finite and positive, the returned    *)
(* state is that trial's evaluation, and it satisfies what the method advertises (backtrack: Armijo; lemarechal: Armijo +     *)
(* Wolfe; fletcher: Armijo + strong Wolfe; on convex quadratics also morethuente: Armijo + strong Wolfe and cgdescent:         *)
(* (Armijo + Wolfe) or approximate Wolfe); a non-descent direction is refused without touching the state; on convex            *)
(* quadratics with default settings every line search succeeds (and More-Thuente / CG_DESCENT meet their conditions).                                                               *)
EXTENDS Integers, Sequences, FiniteSets, TLC, Json, IOUtils

TraceLog == ndJsonDeserialize(IOEnv.TRACE)
VARIABLES l, cfg, trials, ret
vars == <<l, cfg, trials, ret>>
Ev == TraceLog[l]
Is(e) == l <= Len(TraceLog) /\ Ev.e = e
NoCfg == [algo |-> ""]
NoRet == [ok |-> FALSE, id |-> -1]

Init == l = 1 /\ cfg = NoCfg /\ trials = <<>> /\ ret = NoRet
Search == /\ Is("Search") /\ l' = l + 1 /\ trials' = <<>> /\ ret' = NoRet
          /\ cfg' = [algo |-> Ev.algo, descent |-> Ev.descent, quadratic |-> Ev.quadratic, defaults |-> Ev.defaults]
Trial == /\ Is("Trial") /\ cfg # NoCfg /\ ret = NoRet /\ l' = l + 1 /\ Ev.id = Len(trials) + 2
         /\ trials' = Append(trials, [armijo |-> Ev.armijo, wolfe |-> Ev.wolfe, swolfe |-> Ev.swolfe, awolfe |-> Ev.awolfe, finite |-> Ev.finite])
         /\ UNCHANGED <<cfg, ret>>
LsRet == /\ Is("LsRet") /\ cfg # NoCfg /\ ret = NoRet /\ l' = l + 1
         /\ ret' = [ok |-> Ev.ok, id |-> Ev.id, tOK |-> Ev.tOK, stateOK |-> Ev.stateOK, untouched |-> Ev.untouched]
         /\ UNCHANGED <<cfg, trials>>
Next == Search \/ Trial \/ LsRet
Spec == Init /\ [][Next]_vars

Done == ret # NoRet
T == trials[ret.id - 1]
Advertised == CASE cfg.algo = "backtrack" -> T.armijo
                [] cfg.algo = "lemarechal" -> T.armijo /\ T.wolfe
                [] cfg.algo = "fletcher" -> T.armijo /\ T.swolfe
                [] cfg.algo = "morethuente" -> (~(cfg.quadratic /\ cfg.defaults) \/ (T.armijo /\ T.swolfe))   \* its "no further progress" exits return
                                                                                                  \* success without the conditions
                [] cfg.algo = "cgdescent" -> (~(cfg.quadratic /\ cfg.defaults) \/ (T.armijo /\ T.wolfe) \/ T.awolfe)
                [] OTHER -> FALSE
\* success: finite positive step, the state is the evaluation at x + t d (one of the trials), advertised conditions hold there
SuccessMeansAdvertised == (Done /\ ret.ok) => (ret.tOK /\ ret.stateOK /\ ret.id - 1 \in DOMAIN trials /\ T.finite /\ Advertised)
NonDescentRefused == (Done /\ ~cfg.descent) => (~ret.ok /\ Len(trials) = 0 /\ ret.untouched)
QuadraticSucceeds == (Done /\ cfg.quadratic /\ cfg.descent /\ cfg.defaults) => ret.ok
Accepted == LET d == TLCGet("stats").diameter IN
            IF d - 1 = Len(TraceLog) THEN TRUE ELSE PrintT(<<"REJECTED_AT", d>>) /\ FALSE
==========================================================================================
