CONSTANTS
  MaxDims = 5
  MaxCount = 4
  AllowAllOnes = FALSE
SPECIFICATION FairSpec
INVARIANTS TypeOK ShowsRank BoundedWork
PROPERTIES AdvancesByOne Terminates
CHECK_DEADLOCK FALSE
