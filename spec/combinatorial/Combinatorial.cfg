CONSTANTS
  MaxDims = 4
  MaxCount = 3
  AllowAllOnes = FALSE
SPECIFICATION FairSpec
INVARIANTS TypeOK ShowsRank BoundedWork
PROPERTIES AdvancesByOne Terminates
CHECK_DEADLOCK FALSE
