CONSTANTS
  MaxDims = 3
  MaxCount = 2
  AllowAllOnes = TRUE
SPECIFICATION FairSpec
INVARIANTS TypeOK ShowsRank
PROPERTIES Terminates
CHECK_DEADLOCK FALSE
