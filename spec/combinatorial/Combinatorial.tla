---------------------------------------------- MODULE Combinatorial ----------------------------------------------
(* nano::combinatorial_iterator_t (include/nano/core/combinatorial.h): the odometer the tuners use to enumerate the 3^d    *)
(* neighbours of a grid point (src/tuner/util.cpp, local_search). operator++ is transcribed loop iteration by loop          *)
(* iteration: `Outer` is one pass through the body of the outer while loop, `Inner` one pass through the carry loop.        *)
(* Dimensions are 0-based as in the code (dim = -1 after a full carry); sequences are indexed dim + 1.                      *)
EXTENDS Integers, Sequences, FiniteSets

CONSTANTS MaxDims, MaxCount,
          AllowAllOnes     \* FALSE: the count vector (1, ..., 1) is left out (see Terminates)

VARIABLES counts, current, dim, comb, pc, steps
vars == <<counts, current, dim, comb, pc, steps>>

D == Len(counts)
RECURSIVE Prod(_)
Prod(s) == IF s = <<>> THEN 1 ELSE Head(s) * Prod(Tail(s))
Combos == Prod(counts)

CountVectors == UNION {[1..d -> 1..MaxCount] : d \in 1..MaxDims}
Init == /\ counts \in {c \in CountVectors : AllowAllOnes \/ \E i \in DOMAIN c : c[i] > 1}
        /\ current = [i \in 1..Len(counts) |-> 0]
        /\ dim = 0 /\ comb = 0 /\ pc = "idle" /\ steps = 0

\* ghost counter of loop iterations of one call, saturating (the state space stays finite when a call does not return)
Tick == IF steps < 4 * MaxDims + 5 THEN steps + 1 ELSE steps

\* the caller's `++it` (the loop `for (; it; ++it)` only calls it while the iterator is valid; calling it afterwards returns at once)
Call == pc = "idle" /\ pc' = "outer" /\ steps' = 0 /\ UNCHANGED <<counts, current, dim, comb>>

Outer == /\ pc = "outer" /\ steps' = Tick /\ UNCHANGED counts
         /\ IF comb >= Combos
            THEN pc' = "idle" /\ UNCHANGED <<current, dim, comb>>
            ELSE IF dim + 1 = D
                 THEN IF current[dim + 1] + 1 < counts[dim + 1]
                      THEN /\ comb' = comb + 1 /\ current' = [current EXCEPT ![dim + 1] = @ + 1]
                           /\ pc' = "idle" /\ UNCHANGED dim
                      ELSE pc' = "inner" /\ UNCHANGED <<current, dim, comb>>
                 ELSE /\ dim' = dim + 1 /\ current' = [current EXCEPT ![dim + 2] = 0]
                      /\ pc' = "outer" /\ UNCHANGED comb

Inner == /\ pc = "inner" /\ steps' = Tick /\ UNCHANGED counts
         /\ IF dim >= 0
            THEN IF current[dim + 1] + 1 >= counts[dim + 1]
                 THEN /\ current' = [current EXCEPT ![dim + 1] = 0] /\ dim' = dim - 1
                      /\ pc' = "inner" /\ UNCHANGED comb
                 ELSE /\ comb' = comb + 1 /\ current' = [current EXCEPT ![dim + 1] = @ + 1]
                      /\ pc' = "idle" /\ UNCHANGED dim
            ELSE pc' = "outer" /\ UNCHANGED <<current, dim, comb>>

Next == Call \/ Outer \/ Inner
Spec == Init /\ [][Next]_vars
FairSpec == Spec /\ WF_vars(Outer) /\ WF_vars(Inner)

\* --- what the tuners rely on ------------------------------------------------------------------------------------------------
\* the tuple of rank r in row-major order (last dimension fastest)
RECURSIVE Unrank(_, _)
Unrank(r, cs) == IF cs = <<>> THEN <<>>
                 ELSE LET rest == Prod(Tail(cs)) IN <<r \div rest>> \o Unrank(r % rest, Tail(cs))

TypeOK == /\ comb \in 0..Combos /\ dim \in -1..(D - 1) /\ pc \in {"idle", "outer", "inner"}
          /\ \A i \in 1..D : current[i] \in 0..(counts[i] - 1)

\* between two calls the iterator shows the combination of rank `index()`: every tuple exactly once, in row-major order
ShowsRank == (pc = "idle" /\ comb < Combos) => current = Unrank(comb, counts)
\* a call advances the rank by exactly one (never skips, never repeats), or leaves an exhausted iterator exhausted
AdvancesByOne == [][(pc # "idle" /\ pc' = "idle") => (comb' = comb + 1 \/ (comb' = comb /\ comb = Combos))]_vars
\* the work of one call is bounded by the number of dimensions
BoundedWork == steps <= 4 * D + 4
\* every call returns. NOT true of the code for counts = (1, ..., 1): there the single combination is the last one, the carry loop
\* resets every digit and no digit can be incremented, so the outer loop spins for ever (AllowAllOnes = TRUE: TLC finds the lasso)
Terminates == (pc # "idle") ~> (pc = "idle")
===================================================================================================================
