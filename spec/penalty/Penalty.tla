------------------------------------- MODULE Penalty -------------------------------------
(* The penalty functions of src/function/penalty.cpp over the registered constraint kinds of src/function/constraint.cpp,     *)
(* on the integer lattice: integer points, integer coefficients, penalty rho a power of two, integer multipliers - every       *)
(* quantity the implementation computes is an exact integer (the augmented Lagrangian after scaling by 2 rho).                 *)
(* property C05 (first sentence): linear-penalty, quadratic-penalty and augmented-Lagrangian functions return exactly the       *)
(* value of their defining formulas with the matching (sub)gradient and coincide with the objective at feasible points.        *)
EXTENDS Integers, Sequences, FiniteSets, TLC

Dot(a, b) == LET F[k \in 0..Len(a)] == IF k = 0 THEN 0 ELSE F[k - 1] + a[k] * b[k] IN F[Len(a)]
Sum(a) == LET F[k \in 0..Len(a)] == IF k = 0 THEN 0 ELSE F[k - 1] + a[k] IN F[Len(a)]
MatVec(P, x) == [i \in DOMAIN P |-> Dot(P[i], x)]
Unit(n, d, v) == [i \in 1..n |-> IF i = d THEN v ELSE 0]
Abs(v) == IF v < 0 THEN -v ELSE v
Add(a, b) == [i \in DOMAIN a |-> a[i] + b[i]]
Scale(s, a) == [i \in DOMAIN a |-> s * a[i]]
Zero(n) == [i \in 1..n |-> 0]

\* objective: f(x) = sum_i a_i x_i^2 + b . x
Fval(obj, x) == Dot(obj.a, [i \in DOMAIN x |-> x[i] * x[i]]) + Dot(obj.b, x)
Fgrad(obj, x) == [i \in DOMAIN x |-> 2 * obj.a[i] * x[i] + obj.b[i]]

\* a constraint c: [kind, q (vector), r (scalar), P (matrix with even entries), d (1-based dimension)]
\*   equalities h(x) = 0: "constant", "ball_eq", "linear_eq", "quadratic_eq", "functional_eq"
\*   inequalities g(x) <= 0: "minimum", "maximum", "ball_ineq", "linear_ineq", "quadratic_ineq", "functional_ineq"
IsEq(c) == c.kind \in {"constant", "ball_eq", "linear_eq", "quadratic_eq", "functional_eq"}
Cval(c, x) ==
    CASE c.kind = "constant" -> x[c.d] - c.r
      [] c.kind = "minimum" -> c.r - x[c.d]
      [] c.kind = "maximum" -> x[c.d] - c.r
      [] c.kind \in {"ball_eq", "ball_ineq"} -> Sum([i \in DOMAIN x |-> (x[i] - c.q[i]) * (x[i] - c.q[i])]) - c.r * c.r
      [] c.kind \in {"linear_eq", "linear_ineq"} -> Dot(c.q, x) + c.r
      [] c.kind \in {"quadratic_eq", "quadratic_ineq"} -> Dot(x, MatVec(c.P, x)) \div 2 + Dot(c.q, x) + c.r
      [] c.kind \in {"functional_eq", "functional_ineq"} -> Sum([i \in DOMAIN x |-> x[i] * x[i]]) + Dot(c.q, x) + c.r   \* the driver's polynomial
Cgrad(c, x) ==
    CASE c.kind = "constant" -> Unit(Len(x), c.d, 1)
      [] c.kind = "minimum" -> Unit(Len(x), c.d, -1)
      [] c.kind = "maximum" -> Unit(Len(x), c.d, 1)
      [] c.kind \in {"ball_eq", "ball_ineq"} -> [i \in DOMAIN x |-> 2 * (x[i] - c.q[i])]
      [] c.kind \in {"linear_eq", "linear_ineq"} -> c.q
      [] c.kind \in {"quadratic_eq", "quadratic_ineq"} -> Add(MatVec(c.P, x), c.q)
      [] c.kind \in {"functional_eq", "functional_ineq"} -> [i \in DOMAIN x |-> 2 * x[i] + c.q[i]]

RECURSIVE Fold(_, _, _, _)
\* sum over constraints k..n of term(k)
Fold(term(_), k, n, zero) == IF k > n THEN zero ELSE term(k) + Fold(term, k + 1, n, zero)
RECURSIVE FoldV(_, _, _, _)
FoldV(term(_), k, n, zero) == IF k > n THEN zero ELSE Add(term(k), FoldV(term, k + 1, n, zero))

Active(c, x) == IsEq(c) \/ Cval(c, x) > 0
\* linear penalty: f + rho sum |h| + rho sum max(0, g).  Where a constraint value is exactly zero the penalty has a kink: any element of
\* the subdifferential is a matching subgradient ([-1, 1] rho grad h for an equality, [0, 1] rho grad g for an inequality); the code takes
\* sign(0) = +1 for equalities and 0 for inequalities, the specification accepts the integer choices -1 / 0 / +1 (0 / +1).
LinVal(obj, cs, rho, x) == Fval(obj, x) + Fold(LAMBDA k : IF Active(cs[k], x) THEN rho * Abs(Cval(cs[k], x)) ELSE 0, 1, Len(cs), 0)
Kinks(cs, x) == {k \in DOMAIN cs : Cval(cs[k], x) = 0}
LinGradWith(obj, cs, rho, x, t) ==
    Add(Fgrad(obj, x), FoldV(LAMBDA k : IF k \in DOMAIN t THEN Scale(rho * t[k], Cgrad(cs[k], x))
                                        ELSE IF Active(cs[k], x) THEN Scale(rho * (IF Cval(cs[k], x) > 0 THEN 1 ELSE -1), Cgrad(cs[k], x))
                                        ELSE Zero(Len(x)), 1, Len(cs), Zero(Len(x))))
LinGrad(obj, cs, rho, x) == LinGradWith(obj, cs, rho, x, [k \in Kinks(cs, x) |-> IF IsEq(cs[k]) THEN 1 ELSE 0])     \* the code's choice
LinGradOK(obj, cs, rho, x, g) == \E t \in [Kinks(cs, x) -> {-1, 0, 1}] :
                                    (\A k \in Kinks(cs, x) : IsEq(cs[k]) \/ t[k] >= 0) /\ g = LinGradWith(obj, cs, rho, x, t)
\* quadratic penalty: f + rho sum h^2 + rho sum max(0, g)^2
QuadVal(obj, cs, rho, x) == Fval(obj, x) + Fold(LAMBDA k : IF Active(cs[k], x) THEN rho * Cval(cs[k], x) * Cval(cs[k], x) ELSE 0, 1, Len(cs), 0)
QuadGrad(obj, cs, rho, x) == Add(Fgrad(obj, x), FoldV(LAMBDA k : IF Active(cs[k], x)
                                   THEN Scale(2 * rho * Cval(cs[k], x), Cgrad(cs[k], x)) ELSE Zero(Len(x)), 1, Len(cs), Zero(Len(x))))
\* augmented Lagrangian (times 2 rho): 2 rho f + sum (rho h + lambda)^2 + sum max(0, rho g + miu)^2 ; mult[k] is the multiplier of constraint k
ALActive(c, rho, m, x) == IsEq(c) \/ rho * Cval(c, x) + m > 0
AL2rho(obj, cs, rho, mult, x) == 2 * rho * Fval(obj, x) + Fold(LAMBDA k : IF ALActive(cs[k], rho, mult[k], x)
                                   THEN (rho * Cval(cs[k], x) + mult[k]) * (rho * Cval(cs[k], x) + mult[k]) ELSE 0, 1, Len(cs), 0)
ALGrad(obj, cs, rho, mult, x) == Add(Fgrad(obj, x), FoldV(LAMBDA k : IF ALActive(cs[k], rho, mult[k], x)
                                   THEN Scale(rho * Cval(cs[k], x) + mult[k], Cgrad(cs[k], x)) ELSE Zero(Len(x)), 1, Len(cs), Zero(Len(x))))
Feasible(cs, x) == \A k \in DOMAIN cs : IF IsEq(cs[k]) THEN Cval(cs[k], x) = 0 ELSE Cval(cs[k], x) <= 0
==========================================================================================
