CONSTANTS
  Crits = {0, 1, 2, 3}
  Eps = 1
  MaxOuter = 6
SPECIFICATION Spec
INVARIANT ConvergedImpliesBestFeasible
CHECK_DEADLOCK FALSE
