---------------------------------- MODULE PenaltyTrace ----------------------------------
(* (E) TLC recomputes every recorded evaluation of the three penalty functions on the integer lattice, and checks the         *)
(* return contract of the penalty / augmented-Lagrangian solvers recorded by harness/penalty_driver.cpp.                        *)
EXTENDS Penalty, Json, IOUtils
TraceLog == ndJsonDeserialize(IOEnv.TRACE)
VARIABLE l
Ev == TraceLog[l]
Is(e) == l <= Len(TraceLog) /\ Ev.e = e
Obj == [a |-> Ev.a, b |-> Ev.b]

Pen == /\ Is("Pen") /\ l' = l + 1
       /\ Ev.cvals = [k \in DOMAIN Ev.cs |-> Cval(Ev.cs[k], Ev.x)]                   \* constraint values as the library evaluates them
       /\ Ev.f = Fval(Obj, Ev.x)
       /\ Ev.lin = LinVal(Obj, Ev.cs, Ev.rho, Ev.x) /\ LinGradOK(Obj, Ev.cs, Ev.rho, Ev.x, Ev.glin)
       /\ Ev.quad = QuadVal(Obj, Ev.cs, Ev.rho, Ev.x) /\ Ev.gquad = QuadGrad(Obj, Ev.cs, Ev.rho, Ev.x)
       /\ Ev.al2rho = AL2rho(Obj, Ev.cs, Ev.rho, Ev.mult, Ev.x) /\ Ev.gal = ALGrad(Obj, Ev.cs, Ev.rho, Ev.mult, Ev.x)
       /\ Ev.valueOnlySame                                                             \* value-only call = value of value+gradient call
       \* at feasible points (zero multipliers for the AL) the penalties coincide with the objective
       /\ (Feasible(Ev.cs, Ev.x) => (Ev.lin = Ev.f /\ Ev.quad = Ev.f /\ Ev.al0 = 2 * Ev.rho * Ev.f))
\* a linear / quadratic program with integer data converted by nano::make_function: dimension, objective c.x (+ x'Qx/2) with its gradient,
\* and the constraint set {A x - b = 0, G x - h <= 0} (matched by kind, gradient and value) agree with the driver's exact evaluation
Prog == /\ Is("Prog") /\ l' = l + 1
        /\ Ev.dimOK /\ Ev.objOK /\ Ev.gradOK /\ Ev.consOK
\* return of a constrained solver: C05 second sentence (+ the generic contract of C02 for these solvers)
Solve == /\ Is("Solve") /\ l' = l + 1
         /\ Ev.status \in {"converged", "max_iters", "failed"}
         /\ Ev.dimOK /\ Ev.valueOK                                                     \* reported value = objective re-evaluated at the returned point
         /\ Ev.storedOK                                                                \* stored constraint values / KKT tests 1-2 = recomputed ones
         /\ (Ev.status # "failed" => Ev.finite)
         /\ ((Ev.solver = "augmented-lagrangian" /\ Ev.status = "converged") => Ev.feasOK)   \* every |h_j| and max(0, g_i) <= epsilon
         /\ ((Ev.solver = "augmented-lagrangian" /\ Ev.planted) => Ev.status # "converged")  \* ... so never on a planted empty feasible set
         /\ Ev.fcalls <= Ev.nF /\ Ev.gcalls <= Ev.nG
         \* C02, budget clause for these solvers: at most max_outer_iters inner solves, each exceeding solver::max_evals by at most one
         \* outer iteration of the inner (default) solver, plus the evaluation of the objective at the start and after every inner solve
         /\ Ev.nF + Ev.nG <= Ev.maxOuters * (Ev.maxEvals + 1100 + 8 * Ev.n + 2) + 2
Next == Pen \/ Prog \/ Solve
Init == l = 1
Spec == Init /\ [][Next]_l
Accepted == LET d == TLCGet("stats").diameter IN
            IF d - 1 = Len(TraceLog) THEN TRUE ELSE PrintT(<<"REJECTED_AT", d>>) /\ FALSE
=========================================================================================
