---- MODULE AugLag ----
\* outer loop of solver_augmented_lagrangian_t::do_minimize (src/solver/augmented.cpp:72-104)
\* numeric kernel = environment: each inner solve yields (valid, crit, feas, close)
\*   crit  = max(|h|, |max(g, -miu/ro)|) of the inner solution (small integer scale)
\*   feas  = max(|h|, max(0,g)) of the same point; always feas <= crit (shown in DESIGN)
\*   close = nano::converged(bstate, cstate, eps)
EXTENDS Integers, TLC
CONSTANTS Crits, Eps, MaxOuter
VARIABLES outer, oldCrit, bestFeas, status, pc
vars == <<outer, oldCrit, bestFeas, status, pc>>

Init == /\ outer = 0 /\ pc = "loop" /\ status = "max_iters"
        /\ \E f0 \in Crits : oldCrit = f0 /\ bestFeas = f0   \* miu = 0 at x0: criterion = feasibility

Inner == /\ pc = "loop" /\ outer < MaxOuter
         /\ \E valid \in BOOLEAN, crit \in Crits, feas \in Crits, close \in BOOLEAN :
              /\ feas <= crit
              /\ LET conv == valid /\ crit <= Eps /\ close
                     upd  == valid /\ crit < oldCrit
                 IN /\ bestFeas' = IF upd THEN feas ELSE bestFeas
                    /\ IF conv \/ ~valid
                         THEN /\ status' = IF conv THEN "converged" ELSE "failed"
                              /\ pc' = "done" /\ UNCHANGED <<outer, oldCrit>>
                         ELSE /\ oldCrit' = crit /\ outer' = outer + 1
                              /\ UNCHANGED <<status, pc>>
Exhaust == pc = "loop" /\ outer = MaxOuter /\ pc' = "done" /\ UNCHANGED <<outer, oldCrit, bestFeas, status>>
Next == Inner \/ Exhaust
Spec == Init /\ [][Next]_vars

ConvergedImpliesBestFeasible == status = "converged" => bestFeas <= Eps
====
