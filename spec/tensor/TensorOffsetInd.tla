------------------------------- MODULE TensorOffsetInd -------------------------------
(* Unbounded strengthening of TensorView.Offset for Apalache (rank 3 and the Horner step that extends it to any rank):  *)
(* for ARBITRARY positive dimensions the row-major offset of a valid index stays inside [0, size) and two different valid *)
(* indices have different offsets.  No transition: the statement is about all states satisfying Init (length 0).         *)
EXTENDS Integers

VARIABLES
    \* @type: Int;
    d1,
    \* @type: Int;
    d2,
    \* @type: Int;
    d3,
    \* @type: Int;
    i1,
    \* @type: Int;
    i2,
    \* @type: Int;
    i3,
    \* @type: Int;
    j1,
    \* @type: Int;
    j2,
    \* @type: Int;
    j3,
    \* @type: Int;
    s,
    \* @type: Int;
    p,
    \* @type: Int;
    q

Init == /\ d1 \in Int /\ d2 \in Int /\ d3 \in Int /\ d1 >= 1 /\ d2 >= 1 /\ d3 >= 1
        /\ i1 \in Int /\ i2 \in Int /\ i3 \in Int /\ 0 <= i1 /\ i1 < d1 /\ 0 <= i2 /\ i2 < d2 /\ 0 <= i3 /\ i3 < d3
        /\ j1 \in Int /\ j2 \in Int /\ j3 \in Int /\ 0 <= j1 /\ j1 < d1 /\ 0 <= j2 /\ j2 < d2 /\ 0 <= j3 /\ j3 < d3
        \* Horner step: s = size of an inner block, p and q offsets inside a block of that size
        /\ s \in Int /\ s >= 1 /\ p \in Int /\ q \in Int /\ 0 <= p /\ p < s /\ 0 <= q /\ q < s
Next == UNCHANGED <<d1, d2, d3, i1, i2, i3, j1, j2, j3, s, p, q>>

Off3(a, b, c) == (a * d2 + b) * d3 + c
\* one Horner step: prepending an axis of extent d1 to blocks of size s keeps offsets in range and injective (induction over the rank)
StepInRange == i1 * s + p < d1 * s /\ i1 * s + p >= 0
StepInjective == (i1 * s + p = j1 * s + q) => (i1 = j1 /\ p = q)
\* rank 3 directly
InRange3 == 0 <= Off3(i1, i2, i3) /\ Off3(i1, i2, i3) < d1 * d2 * d3
Injective3 == (Off3(i1, i2, i3) = Off3(j1, j2, j3)) => (i1 = j1 /\ i2 = j2 /\ i3 = j3)
=========================================================================================
