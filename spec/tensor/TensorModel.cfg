CONSTANTS
  MaxRank = 4
  MaxDim = 3
SPECIFICATION Spec
INVARIANTS OffsetIsBijection UnrankIsInverse SubAddressesExactly SliceAddressesExactly ViewsAreContiguousAndInside
