----------------------------------- MODULE TensorModel -----------------------------------
(* Design-level facts, checked by TLC for every shape of rank 1..MaxRank with dimensions 0..MaxDim (zero-sized included): *)
(* they justify describing every view as a contiguous range [off, off + size) in the conformance check.                   *)
EXTENDS TensorView
CONSTANTS MaxRank, MaxDim
VARIABLE d
Init == d \in UNION {[1..r -> 0..MaxDim] : r \in 1..MaxRank}
Next == UNCHANGED d
Spec == Init /\ [][Next]_d
OffsetIsBijection == {Offset(d, ix) : ix \in Indices(d)} = 0..(Size(d) - 1) /\ Cardinality(Indices(d)) = Size(d)
UnrankIsInverse == \A p \in 0..(Size(d) - 1) : Offset(d, Unrank(d, p)) = p
SubAddressesExactly == \A p \in 1..(Len(d) - 1) : \A pre \in Indices(SubSeq(d, 1, p)) :
    Elems(Sub(d, pre)) = {Offset(d, ix) : ix \in {jx \in Indices(d) : SubSeq(jx, 1, p) = pre}}
SliceAddressesExactly == \A b \in 0..d[1] : \A e \in b..d[1] :
    Elems(Slice(d, b, e)) = {Offset(d, ix) : ix \in {jx \in Indices(d) : b <= jx[1] /\ jx[1] < e}}
ViewsAreContiguousAndInside ==
    /\ \A p \in 1..(Len(d) - 1) : \A pre \in Indices(SubSeq(d, 1, p)) :
         LET v == Sub(d, pre) IN Elems(v) = v.off..(v.off + Size(v.dims) - 1) /\ v.off + Size(v.dims) <= Size(d)
    /\ \A b \in 0..d[1] : \A e \in b..d[1] :
         LET v == Slice(d, b, e) IN Elems(v) = v.off..(v.off + Size(v.dims) - 1) /\ v.off + Size(v.dims) <= Size(d)
==========================================================================================
