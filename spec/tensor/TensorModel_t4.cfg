CONSTANTS
  MaxRank = 4
  MaxDim = 4
SPECIFICATION Spec
INVARIANTS OffsetIsBijection UnrankIsInverse SubAddressesExactly SliceAddressesExactly ViewsAreContiguousAndInside
