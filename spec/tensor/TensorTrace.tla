----------------------------------- MODULE TensorTrace -----------------------------------
(* TLC recomputes with the operators of TensorView the addressing of every recorded view operation on real tensors        *)
(* (harness/tensor_driver.cpp).  The root buffer of every tensor holds its own flat indices, so the element values read    *)
(* through a view are the offsets it addresses: `elems` lists them (small views), `count/sum` are check-sums (sum of        *)
(* value mod 1000) for large ones; `off` is data() of the view minus data() of the root.                                     *)
EXTENDS TensorView, Json, IOUtils
TraceLog == ndJsonDeserialize(IOEnv.TRACE)
VARIABLE l
Ev == TraceLog[l]
Is(e) == l <= Len(TraceLog) /\ Ev.e = e
RECURSIVE SumOver(_, _)
SumOver(S, input) == IF S = {} THEN 0 ELSE LET q == CHOOSE x \in S : TRUE IN input[q + 1] + SumOver(S \ {q}, input)
Range(off, n) == [k \in 1..n |-> off + k - 1]
\* a recorded view must be the contiguous range the specification computes: offset, dimensions, and what was read through it
\* a write through the mutable form of the view (the k-th element of the view in lexicographic order receives a marker encoding k, the
\* root is compared element by element before/after): exactly the aliased elements change (`wn` of them), marker k arrives at the
\* k-th aliased element (`wland[k]` = its flat position; large views: the first position and "consecutive")
WriteOK(v) == /\ Ev.wn = Size(v.dims)
              /\ IF Ev.full THEN Ev.wland = Range(v.off, Size(v.dims))
                 ELSE Ev.wcontig /\ (Size(v.dims) > 0 => Ev.wfirst = v.off)
ViewOK(v) == /\ Ev.off = v.off /\ Ev.dims = v.dims /\ Ev.count = Size(v.dims)
             /\ Ev.inside                                               \* [data, data + size) within the root buffer
             /\ IF Ev.full THEN Ev.elems = Range(v.off, Size(v.dims))   \* read by full indexing of the view, lexicographic order
                ELSE Ev.sum = RangeSum(v.off, Size(v.dims))
             /\ ("wn" \in DOMAIN Ev) => WriteOK(v)
\* offsets of all index tuples in lexicographic order: the row-major bijection
Offsets == /\ Is("Offsets") /\ l' = l + 1 /\ Len(Ev.offs) = Size(Ev.d)
           /\ \A p \in 0..(Size(Ev.d) - 1) : Ev.offs[p + 1] = Offset(Ev.d, Unrank(Ev.d, p)) /\ Ev.offs[p + 1] = p
SubView == /\ Is("Sub") /\ l' = l + 1 /\ Len(Ev.prefix) < Len(Ev.d)
           /\ \A k \in DOMAIN Ev.prefix : Ev.prefix[k] >= 0 /\ Ev.prefix[k] < Ev.d[k]
           /\ ViewOK(IF Ev.kind = "tensor" THEN Sub(Ev.d, Ev.prefix)
                     ELSE IF Ev.kind = "vector" THEN [off |-> Offset(Ev.d, Ev.prefix), dims |-> <<Size(SubSeq(Ev.d, Len(Ev.prefix) + 1, Len(Ev.d)))>>]
                     ELSE [off |-> Offset(Ev.d, Ev.prefix), dims |-> SubSeq(Ev.d, Len(Ev.d) - 1, Len(Ev.d))])     \* matrix: the last two dimensions
SliceView == /\ Is("Slice") /\ l' = l + 1 /\ 0 <= Ev.b /\ Ev.b <= Ev.en /\ Ev.en <= Ev.d[1] /\ ViewOK(Slice(Ev.d, Ev.b, Ev.en))
ReshapeView == /\ Is("Reshape") /\ l' = l + 1 /\ Size(Reshape(Ev.d, Ev.nd).dims) = Size(Ev.d) /\ ViewOK(Reshape(Ev.d, Ev.nd))
\* views of views (ops: <<0, b, e>> slice, <<1, i...>> tensor(i...), <<2, sizes...>> reshape, <<3, i...>> vector(i...), <<4, i...>> matrix(i...))
\* alias the same elements as full indexing: each operation applies to the dimensions of the view before it, offsets add up
OpValid(dims, op) == LET a == Tail(op) IN
    CASE op[1] = 0 -> Len(dims) >= 1 /\ 0 <= a[1] /\ a[1] <= a[2] /\ a[2] <= dims[1]
      [] op[1] \in {1, 3} -> Len(a) < Len(dims) /\ \A k \in DOMAIN a : a[k] >= 0 /\ a[k] < dims[k]
      [] op[1] = 4 -> Len(a) + 2 = Len(dims) /\ \A k \in DOMAIN a : a[k] >= 0 /\ a[k] < dims[k]
      [] op[1] = 2 -> Cardinality({k \in DOMAIN a : a[k] = -1}) <= 1 /\ Size(Reshape(dims, a).dims) = Size(dims)
      [] OTHER -> FALSE
ApplyOp(v, op) == LET a == Tail(op) IN
    CASE op[1] = 0 -> [off |-> v.off + Slice(v.dims, a[1], a[2]).off, dims |-> Slice(v.dims, a[1], a[2]).dims]
      [] op[1] = 1 -> [off |-> v.off + Sub(v.dims, a).off, dims |-> Sub(v.dims, a).dims]
      [] op[1] = 2 -> [off |-> v.off, dims |-> Reshape(v.dims, a).dims]
      [] op[1] = 3 -> [off |-> v.off + Offset(v.dims, a), dims |-> <<Size(SubSeq(v.dims, Len(a) + 1, Len(v.dims)))>>]
      [] op[1] = 4 -> [off |-> v.off + Offset(v.dims, a), dims |-> SubSeq(v.dims, Len(v.dims) - 1, Len(v.dims))]
RECURSIVE ApplyOps(_, _, _)
ApplyOps(v, ops, k) == IF k > Len(ops) THEN v ELSE ApplyOps(ApplyOp(v, ops[k]), ops, k + 1)
RECURSIVE OpsValid(_, _, _)
OpsValid(v, ops, k) == k > Len(ops) \/ (OpValid(v.dims, ops[k]) /\ OpsValid(ApplyOp(v, ops[k]), ops, k + 1))
Chain == /\ Is("Chain") /\ l' = l + 1 /\ Len(Ev.ops) >= 1
         /\ OpsValid([off |-> 0, dims |-> Ev.d], Ev.ops, 1)
         /\ ViewOK(ApplyOps([off |-> 0, dims |-> Ev.d], Ev.ops, 1))
\* gather along the first axis: a copy (not aliasing the root) of the selected sub-tensors
GatherOK == /\ ~Ev.aliases
            /\ Ev.dims = [Ev.d EXCEPT ![1] = Len(Ev.indices)]
            /\ LET inner == Prod(Ev.d, 2) IN
               Ev.elems = [k \in 1..(Len(Ev.indices) * inner) |-> Ev.indices[(k - 1) \div inner + 1] * inner + ((k - 1) % inner)]
Gather == /\ Is("Gather") /\ l' = l + 1 /\ GatherOK
\* ... converted to another scalar type, into a used owning tensor, into a given mutable map (`guards`: the map stays where it is and the
\* elements of its buffer before and after the mapped range are untouched)
GatherInto == /\ Is("GatherInto") /\ l' = l + 1 /\ GatherOK /\ Ev.guards
\* summed-area table = naive prefix sums (all index tuples componentwise <=), values and results in lexicographic order
Integral == /\ Is("Integral") /\ l' = l + 1 /\ Len(Ev.input) = Size(Ev.d) /\ Len(Ev.output) = Size(Ev.d)
            /\ \A p \in 0..(Size(Ev.d) - 1) :
                 LET ix == Unrank(Ev.d, p)
                     below == {q \in 0..(Size(Ev.d) - 1) : \A k \in DOMAIN Ev.d : Unrank(Ev.d, q)[k] <= ix[k]}
                 IN Ev.output[p + 1] = SumOver(below, Ev.input)
\* conversions between owning / mapping / constant-mapping storages keep contents; maps alias, copies do not
\* assigning an owning / constant / mutable map to a mutable map copies the contents into its buffer and does not re-seat it
Storage == /\ Is("Storage") /\ l' = l + 1 /\ Ev.mapAliases /\ Ev.cmapAliases /\ Ev.copyOwns /\ Ev.sameContents /\ Ev.sameDims
           /\ Ev.mapAssignCopies /\ Ev.mapAssignKeepsSeat
\* remove_if over parallel tensors: the kept rows in order
RemoveIf == /\ Is("RemoveIf") /\ l' = l + 1
            /\ LET kept == SelectSeq(Range(0, Len(Ev.flags)), LAMBDA i : Ev.flags[i + 1] = 0) IN
               Ev.size = Len(kept) /\ Ev.rows = kept /\ Ev.rows2 = kept /\ Ev.rows3 = kept /\ Ev.rows4 = kept   \* whole sub-tensors, any rank
\* stack(rows, cols, blocks...): vertical concatenation
Stack == /\ Is("Stack") /\ l' = l + 1 /\ Ev.ok
Next == Offsets \/ SubView \/ SliceView \/ ReshapeView \/ Chain \/ Gather \/ GatherInto \/ Integral \/ Storage \/ RemoveIf \/ Stack
Init == l = 1
Spec == Init /\ [][Next]_l
Accepted == LET dd == TLCGet("stats").diameter IN
            IF dd - 1 = Len(TraceLog) THEN TRUE ELSE PrintT(<<"REJECTED_AT", dd>>) /\ FALSE
==========================================================================================
