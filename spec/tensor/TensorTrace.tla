----------------------------------- MODULE TensorTrace -----------------------------------
(* TLC recomputes with the operators of TensorView the addressing of every recorded view operation on real tensors        *)
(* (harness/tensor_driver.cpp).  The root buffer of every tensor holds its own flat indices, so the element values read    *)
(* through a view are the offsets it addresses: `elems` lists them (small views), `count/sum` are check-sums (sum of        *)
(* value mod 1000) for large ones; `off` is data() of the view minus data() of the root.                                     *)
EXTENDS TensorView, Json, IOUtils
TraceLog == ndJsonDeserialize(IOEnv.TRACE)
VARIABLE l
Ev == TraceLog[l]
Is(e) == l <= Len(TraceLog) /\ Ev.e = e
RECURSIVE SumOver(_, _)
SumOver(S, input) == IF S = {} THEN 0 ELSE LET q == CHOOSE x \in S : TRUE IN input[q + 1] + SumOver(S \ {q}, input)
Range(off, n) == [k \in 1..n |-> off + k - 1]
\* a recorded view must be the contiguous range the specification computes: offset, dimensions, and what was read through it
ViewOK(v) == /\ Ev.off = v.off /\ Ev.dims = v.dims /\ Ev.count = Size(v.dims)
             /\ Ev.inside                                               \* [data, data + size) within the root buffer
             /\ IF Ev.full THEN Ev.elems = Range(v.off, Size(v.dims))   \* read by full indexing of the view, lexicographic order
                ELSE Ev.sum = RangeSum(v.off, Size(v.dims))
\* offsets of all index tuples in lexicographic order: the row-major bijection
Offsets == /\ Is("Offsets") /\ l' = l + 1 /\ Len(Ev.offs) = Size(Ev.d)
           /\ \A p \in 0..(Size(Ev.d) - 1) : Ev.offs[p + 1] = Offset(Ev.d, Unrank(Ev.d, p)) /\ Ev.offs[p + 1] = p
SubView == /\ Is("Sub") /\ l' = l + 1 /\ Len(Ev.prefix) < Len(Ev.d)
           /\ \A k \in DOMAIN Ev.prefix : Ev.prefix[k] >= 0 /\ Ev.prefix[k] < Ev.d[k]
           /\ ViewOK(IF Ev.kind = "tensor" THEN Sub(Ev.d, Ev.prefix)
                     ELSE IF Ev.kind = "vector" THEN [off |-> Offset(Ev.d, Ev.prefix), dims |-> <<Size(SubSeq(Ev.d, Len(Ev.prefix) + 1, Len(Ev.d)))>>]
                     ELSE [off |-> Offset(Ev.d, Ev.prefix), dims |-> SubSeq(Ev.d, Len(Ev.d) - 1, Len(Ev.d))])     \* matrix: the last two dimensions
SliceView == /\ Is("Slice") /\ l' = l + 1 /\ 0 <= Ev.b /\ Ev.b <= Ev.en /\ Ev.en <= Ev.d[1] /\ ViewOK(Slice(Ev.d, Ev.b, Ev.en))
ReshapeView == /\ Is("Reshape") /\ l' = l + 1 /\ Size(Reshape(Ev.d, Ev.nd).dims) = Size(Ev.d) /\ ViewOK(Reshape(Ev.d, Ev.nd))
\* gather along the first axis: a copy (not aliasing the root) of the selected sub-tensors
Gather == /\ Is("Gather") /\ l' = l + 1 /\ ~Ev.aliases
          /\ Ev.dims = [Ev.d EXCEPT ![1] = Len(Ev.indices)]
          /\ LET inner == Prod(Ev.d, 2) IN
             Ev.elems = [k \in 1..(Len(Ev.indices) * inner) |-> Ev.indices[(k - 1) \div inner + 1] * inner + ((k - 1) % inner)]
\* summed-area table = naive prefix sums (all index tuples componentwise <=), values and results in lexicographic order
Integral == /\ Is("Integral") /\ l' = l + 1 /\ Len(Ev.input) = Size(Ev.d) /\ Len(Ev.output) = Size(Ev.d)
            /\ \A p \in 0..(Size(Ev.d) - 1) :
                 LET ix == Unrank(Ev.d, p)
                     below == {q \in 0..(Size(Ev.d) - 1) : \A k \in DOMAIN Ev.d : Unrank(Ev.d, q)[k] <= ix[k]}
                 IN Ev.output[p + 1] = SumOver(below, Ev.input)
\* conversions between owning / mapping / constant-mapping storages keep contents; maps alias, copies do not
Storage == /\ Is("Storage") /\ l' = l + 1 /\ Ev.mapAliases /\ Ev.cmapAliases /\ Ev.copyOwns /\ Ev.sameContents /\ Ev.sameDims
\* remove_if over parallel tensors: the kept rows in order
RemoveIf == /\ Is("RemoveIf") /\ l' = l + 1
            /\ LET kept == SelectSeq(Range(0, Len(Ev.flags)), LAMBDA i : Ev.flags[i + 1] = 0) IN
               Ev.size = Len(kept) /\ Ev.rows = kept /\ Ev.rows2 = kept /\ Ev.rows3 = kept /\ Ev.rows4 = kept   \* whole sub-tensors, any rank
\* stack(rows, cols, blocks...): vertical concatenation
Stack == /\ Is("Stack") /\ l' = l + 1 /\ Ev.ok
Next == Offsets \/ SubView \/ SliceView \/ ReshapeView \/ Gather \/ Integral \/ Storage \/ RemoveIf \/ Stack
Init == l = 1
Spec == Init /\ [][Next]_l
Accepted == LET dd == TLCGet("stats").diameter IN
            IF dd - 1 = Len(TraceLog) THEN TRUE ELSE PrintT(<<"REJECTED_AT", dd>>) /\ FALSE
==========================================================================================
