----------------------------------- MODULE TensorView -----------------------------------
(* Row-major addressing and views of nano::tensor_t (include/nano/tensor/dims.h, tensor.h, integral.h, algorithm.h,      *)
(* stack.h).  A tensor of shape d (a sequence of dimensions) lives in a flat buffer 0..Size(d)-1; a view is [off, dims].  *)
(* property C16: the offset of an index tuple is the row-major bijection onto [0, size); partial-index views, first-axis   *)
(* slices, reshapes and gathers address exactly the elements obtained by full indexing; the summed-area table is the       *)
(* naive prefix sum; no valid access leaves the buffer.                                                                    *)
EXTENDS Integers, Sequences, FiniteSets, TLC

RECURSIVE Prod(_, _)
Prod(d, k) == IF k > Len(d) THEN 1 ELSE d[k] * Prod(d, k + 1)          \* product of the dimensions k..rank
Size(d) == Prod(d, 1)
MaxDimOf(d) == IF Len(d) = 0 THEN 0 ELSE CHOOSE m \in {d[i] : i \in DOMAIN d} : \A i \in DOMAIN d : d[i] <= m
Indices(d) == {ix \in [1..Len(d) -> 0..MaxDimOf(d)] : \A k \in 1..Len(d) : ix[k] < d[k]}
RECURSIVE Off(_, _, _)
Off(d, ix, k) == IF k > Len(ix) THEN 0 ELSE ix[k] * Prod(d, k + 1) + Off(d, ix, k + 1)   \* get_index / get_index0
Offset(d, ix) == Off(d, ix, 1)                                          \* also for a partial index (a prefix)
\* the index tuple of linear position p (0-based) in lexicographic order
Unrank(d, p) == [k \in 1..Len(d) |-> (p \div Prod(d, k + 1)) % d[k]]

Sub(d, prefix) == [off |-> Offset(d, prefix), dims |-> SubSeq(d, Len(prefix) + 1, Len(d))]      \* tensor(i...), vector(i...)
Slice(d, b, e) == [off |-> b * Prod(d, 2), dims |-> [d EXCEPT ![1] = e - b]]                    \* slice(b, e)
\* reshape(sizes...) with at most one -1, inferred from the total size (only defined for a non-zero remaining product)
Reshape(d, nd) == LET known == {i \in DOMAIN nd : nd[i] # -1}
                      rest == Size([i \in 1..Len(nd) |-> IF nd[i] = -1 THEN 1 ELSE nd[i]])
                  IN [off |-> 0, dims |-> [i \in DOMAIN nd |-> IF nd[i] = -1 THEN Size(d) \div rest ELSE nd[i]]]
Elems(v) == {v.off + Offset(v.dims, ix) : ix \in Indices(v.dims)}
\* sum of (k % 1000) over k in off..off+n-1 (check-sum of a contiguous range of a buffer holding its own flat indices)
S1000(m) == (m \div 1000) * 499500 + ((m % 1000) * ((m % 1000) - 1)) \div 2
RangeSum(off, n) == S1000(off + n) - S1000(off)
=========================================================================================
