CONSTANTS
  MaxRank = 5
  MaxDim = 3
SPECIFICATION Spec
INVARIANTS OffsetIsBijection UnrankIsInverse SubAddressesExactly SliceAddressesExactly ViewsAreContiguousAndInside
