----------------------------------- MODULE PolyCalculus -----------------------------------
(* Scoped exact checks for C06 (values, gradients and convexity flags are truthful).  For objectives that are polynomials of     *)
(* degree <= 4 with (half-)integer coefficients the five-point central-difference stencil is EXACT at lattice points:            *)
(*     12 h df/dx_i (x) = - f(x + 2h e_i) + 8 f(x + h e_i) - 8 f(x - h e_i) + f(x - 2h e_i)                                      *)
(* so the gradient the implementation returns can be compared with its own values without any tolerance; a declared convexity     *)
(* must satisfy f(z) >= f(x) + g(x).(z - x) on lattice pairs.  Losses on integer data: piecewise-linear / quadratic losses have    *)
(* exact values; the 0-1 errors follow the arg-max (first maximum) / sign rules; losses are non-negative and per-sample local.      *)
(* Function values are logged times 2 (half-integer coefficients), loss values and gradients times 4 (pinball alpha in quarters).  *)
EXTENDS Integers, Sequences, FiniteSets, TLC, Json, IOUtils
TraceLog == ndJsonDeserialize(IOEnv.TRACE)
VARIABLE l
Ev == TraceLog[l]
Is(e) == l <= Len(TraceLog) /\ Ev.e = e
SumSeq(a) == LET F[k \in 0..Len(a)] == IF k = 0 THEN 0 ELSE F[k - 1] + a[k] IN F[Len(a)]
Abs(v) == IF v < 0 THEN -v ELSE v
Max0(v) == IF v > 0 THEN v ELSE 0

\* the exact five-point stencil along coordinate i: g2 = 2 g_i(x), f values times 2
\* (along an arbitrary lattice direction d: g2 = 2 g(x).d, fp1 = 2 f(x + h d), ...)
Stencil == /\ Is("Stencil") /\ l' = l + 1
           /\ 12 * Ev.h * Ev.g2 = -Ev.fp2 + 8 * Ev.fp1 - 8 * Ev.fm1 + Ev.fm2
           /\ Ev.valueOnlySame                                 \* value-only call = value of the value+gradient call
\* first-order convexity inequality for functions declaring themselves convex: f(z) >= f(x) + g(x).(z - x)
\* (+ (mu/2)||z - x||^2 with the declared strong-convexity coefficient: munorm2 = floor(mu ||z - x||^2))
Convex == /\ Is("Convex") /\ l' = l + 1 /\ (Ev.declared => Ev.fz2 >= Ev.fx2 + Ev.gdot2 + Ev.munorm2)
\* ---- losses on integer targets t and outputs o (one sample); values times 2
ArgMax(o) == CHOOSE i \in DOMAIN o : (\A j \in DOMAIN o : o[j] <= o[i]) /\ (\A j \in 1..(i - 1) : o[j] < o[i])     \* first maximum
Err(kind, t, o) == CASE kind = "absdiff" -> SumSeq([k \in DOMAIN t |-> Abs(t[k] - o[k])])
                     [] kind = "mclass" -> Cardinality({k \in DOMAIN t : t[k] * o[k] <= 0})
                     [] kind = "sclass" -> IF Len(t) > 1 THEN (IF t[ArgMax(o)] > 0 THEN 0 ELSE 1)
                                           ELSE (IF t[1] * o[1] <= 0 THEN 1 ELSE 0)
Val2(name, t, o, a4) == CASE name = "mse" -> SumSeq([k \in DOMAIN t |-> (o[k] - t[k]) * (o[k] - t[k])])
                          [] name = "mae" -> 2 * SumSeq([k \in DOMAIN t |-> Abs(o[k] - t[k])])
                          [] name = "hinge" -> 2 * SumSeq([k \in DOMAIN t |-> Max0(1 - t[k] * o[k])])
                          [] name = "squared-hinge" -> 2 * SumSeq([k \in DOMAIN t |-> Max0(1 - t[k] * o[k]) * Max0(1 - t[k] * o[k])])
                          \* pinball with alpha = a4 / 4: 2 sum(alpha (t - o)+ + (1 - alpha)(o - t)+)  (times 4 below)
                          [] OTHER -> -1
Between(v, a, b) == (a <= v /\ v <= b) \/ (b <= v /\ v <= a)
\* the (sub)gradient wrt the outputs, times 4: the derivative where differentiable, inside the subdifferential at the kinks
GradOK(name, t, o, g4, a4) ==
    \A k \in DOMAIN t : LET u == t[k] * o[k]  d == o[k] - t[k] IN
        CASE name = "mse" -> g4[k] = 4 * d
          [] name = "mae" -> IF d > 0 THEN g4[k] = 4 ELSE IF d < 0 THEN g4[k] = -4 ELSE Between(g4[k], -4, 4)
          [] name = "hinge" -> IF u < 1 THEN g4[k] = -4 * t[k] ELSE IF u > 1 THEN g4[k] = 0 ELSE Between(g4[k], 0, -4 * t[k])
          [] name = "squared-hinge" -> g4[k] = -8 * t[k] * Max0(1 - u)
          [] name = "pinball" -> IF d > 0 THEN g4[k] = 4 - a4 ELSE IF d < 0 THEN g4[k] = -a4 ELSE Between(g4[k], -a4, 4 - a4)
          [] OTHER -> TRUE
Dot(a, b) == SumSeq([k \in DOMAIN a |-> a[k] * b[k]])
Exact == {"mse", "mae", "hinge", "squared-hinge", "pinball"}
Loss == /\ Is("Loss") /\ l' = l + 1
        /\ (Ev.base \in Exact => GradOK(Ev.base, Ev.t, Ev.o, Ev.g4, Ev.a4))
        \* declared convex: L(t, z) >= L(t, o) + g.(z - o), exactly on the lattice for the exact losses (val4 = 4 L(t, o), valz4 = 4 L(t, z))
        /\ ((Ev.base \in Exact /\ Ev.convex) => Ev.valz4 >= Ev.val4 + Dot(Ev.g4, [k \in DOMAIN Ev.o |-> Ev.z[k] - Ev.o[k]]))
        \* the transcendental losses: the driver's central-difference / tolerance oracles (environment predicates)
        /\ Ev.gradOK /\ Ev.convexOK /\ Ev.valueSame
        \* the error rule on real-valued predictions (recomputed by the driver; exact on the lattice above)
        /\ Ev.errOK
        /\ (IF Ev.ekind = "value" THEN Ev.err = Ev.val4 ELSE Ev.ekind = "none" \/ Ev.err = Err(Ev.ekind, Ev.t, Ev.o))                                        \* the decision rule of the 0-1 / absolute error
        /\ (Ev.base \in {"mse", "mae", "hinge", "squared-hinge"} => Ev.val4 = 2 * Val2(Ev.base, Ev.t, Ev.o, 0))
        /\ (Ev.base = "pinball" => Ev.val4 = SumSeq([k \in DOMAIN Ev.t |-> Ev.a4 * Max0(Ev.t[k] - Ev.o[k]) + (4 - Ev.a4) * Max0(Ev.o[k] - Ev.t[k])]))
        /\ Ev.nonneg /\ Ev.local                                                        \* non-negative; unchanged by the other samples of the batch
\* every registered function prototype at dims 1..32 on real-valued points: the driver's oracles (central differences along a random
\* direction for smooth functions, the convexity inequality with a relative tolerance) - environment predicates
\* (non-smooth prototypes: the subgradient is the derivative wherever the one-sided difference quotients agree)
Generic == /\ Is("Generic") /\ l' = l + 1 /\ Ev.valueOnlySame /\ ((Ev.smooth \/ Ev.differentiable) => Ev.gradOK) /\ (Ev.convex => (Ev.convexOK /\ Ev.strongOK))
Next == Stencil \/ Convex \/ Loss \/ Generic
Init == l = 1
Spec == Init /\ [][Next]_l
Accepted == LET d == TLCGet("stats").diameter IN
            IF d - 1 = Len(TraceLog) THEN TRUE ELSE PrintT(<<"REJECTED_AT", d>>) /\ FALSE
===========================================================================================
