----------------------------------- MODULE PolyCalculus -----------------------------------
(* Scoped exact checks for C06 (values, gradients and convexity flags are truthful).  For objectives that are polynomials of     *)
(* degree <= 4 with (half-)integer coefficients the five-point central-difference stencil is EXACT at lattice points:            *)
(*     12 h df/dx_i (x) = - f(x + 2h e_i) + 8 f(x + h e_i) - 8 f(x - h e_i) + f(x - 2h e_i)                                      *)
(* so the gradient the implementation returns can be compared with its own values without any tolerance; a declared convexity     *)
(* must satisfy f(z) >= f(x) + g(x).(z - x) on lattice pairs.  Losses on integer data: piecewise-linear / quadratic losses have    *)
(* exact values; the 0-1 errors follow the arg-max (first maximum) / sign rules; losses are non-negative and per-sample local.      *)
(* All values are logged times 2 (styblinski-tang has half-integer coefficients).                                                  *)
EXTENDS Integers, Sequences, FiniteSets, TLC, Json, IOUtils
TraceLog == ndJsonDeserialize(IOEnv.TRACE)
VARIABLE l
Ev == TraceLog[l]
Is(e) == l <= Len(TraceLog) /\ Ev.e = e
SumSeq(a) == LET F[k \in 0..Len(a)] == IF k = 0 THEN 0 ELSE F[k - 1] + a[k] IN F[Len(a)]
Abs(v) == IF v < 0 THEN -v ELSE v
Max0(v) == IF v > 0 THEN v ELSE 0

\* the exact five-point stencil along coordinate i: g2 = 2 g_i(x), f values times 2
Stencil == /\ Is("Stencil") /\ l' = l + 1
           /\ 12 * Ev.h * Ev.g2 = -Ev.fp2 + 8 * Ev.fp1 - 8 * Ev.fm1 + Ev.fm2
           /\ Ev.valueOnlySame                                 \* value-only call = value of the value+gradient call
\* first-order convexity inequality for functions declaring themselves convex: f(z) >= f(x) + g(x).(z - x)
Convex == /\ Is("Convex") /\ l' = l + 1 /\ (Ev.declared => Ev.fz2 >= Ev.fx2 + Ev.gdot2)
\* ---- losses on integer targets t and outputs o (one sample); values times 2
ArgMax(o) == CHOOSE i \in DOMAIN o : (\A j \in DOMAIN o : o[j] <= o[i]) /\ (\A j \in 1..(i - 1) : o[j] < o[i])     \* first maximum
Err(kind, t, o) == CASE kind = "absdiff" -> SumSeq([k \in DOMAIN t |-> Abs(t[k] - o[k])])
                     [] kind = "mclass" -> Cardinality({k \in DOMAIN t : t[k] * o[k] <= 0})
                     [] kind = "sclass" -> IF Len(t) > 1 THEN (IF t[ArgMax(o)] > 0 THEN 0 ELSE 1)
                                           ELSE (IF t[1] * o[1] <= 0 THEN 1 ELSE 0)
Val2(name, t, o, a4) == CASE name = "mse" -> SumSeq([k \in DOMAIN t |-> (o[k] - t[k]) * (o[k] - t[k])])
                          [] name = "mae" -> 2 * SumSeq([k \in DOMAIN t |-> Abs(o[k] - t[k])])
                          [] name = "hinge" -> 2 * SumSeq([k \in DOMAIN t |-> Max0(1 - t[k] * o[k])])
                          [] name = "squared-hinge" -> 2 * SumSeq([k \in DOMAIN t |-> Max0(1 - t[k] * o[k]) * Max0(1 - t[k] * o[k])])
                          \* pinball with alpha = a4 / 4: 2 sum(alpha (t - o)+ + (1 - alpha)(o - t)+)  (times 4 below)
                          [] OTHER -> -1
Loss == /\ Is("Loss") /\ l' = l + 1
        /\ Ev.err = Err(Ev.ekind, Ev.t, Ev.o)                                          \* the decision rule of the 0-1 / absolute error
        /\ (Ev.base \in {"mse", "mae", "hinge", "squared-hinge"} => Ev.val2 = Val2(Ev.base, Ev.t, Ev.o, 0))
        /\ (Ev.base = "pinball" => 2 * Ev.val2 = SumSeq([k \in DOMAIN Ev.t |-> Ev.a4 * Max0(Ev.t[k] - Ev.o[k]) + (4 - Ev.a4) * Max0(Ev.o[k] - Ev.t[k])]))
        /\ Ev.nonneg /\ Ev.local                                                        \* non-negative; unchanged by the other samples of the batch
Next == Stencil \/ Convex \/ Loss
Init == l = 1
Spec == Init /\ [][Next]_l
Accepted == LET d == TLCGet("stats").diameter IN
            IF d - 1 = Len(TraceLog) THEN TRUE ELSE PrintT(<<"REJECTED_AT", d>>) /\ FALSE
===========================================================================================
