CONSTANTS
  PoolSizes = {1}
  Callers = {0, 1, 2, 3}
  MaxElems = 100000
  MaxCalls = 1000
  WithShutdown = TRUE
  WithEnqueue = TRUE
  MayThrow = TRUE
  Spurious = TRUE
  AnyOrder = FALSE
  StopUnlocked = FALSE
INIT TraceInit
NEXT TraceNext
INVARIANTS AtMostOnce ExactlyOnceOnReturn ChunksTile TnumBelowSize TnumExclusive ReturnAfterAllDone RethrowIffAsked
  MutexExclusive WaitingConsistent QueueFresh WorkersGoneWhenDead
POSTCONDITION Accepted
CHECK_DEADLOCK FALSE
