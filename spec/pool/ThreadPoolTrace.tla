------------------------------- MODULE ThreadPoolTrace -------------------------------
(* Trace validation for C17: every line of the ndjson file recorded from the real pool_t (hooks + driver events,   *)
(* ordered by the sequence number taken at the hook) must be explained by the actions of ThreadPool, which are      *)
(* re-used here.  The only unlogged implementation steps are (a) a worker releasing the mutex and blocking inside   *)
(* condition_variable::wait (legal only when the wait predicate is false), (b) a blocked worker being woken and     *)
(* re-acquiring the mutex; both are inferred deterministically from the next logged event and composed into it      *)
(* with action composition (TLC: -Dtlc2.tool.impl.Tool.cdot=true), so the search stays linear in the trace length.  *)
(* All invariants of ThreadPool are evaluated in every state reached along the trace.                               *)
EXTENDS ThreadPool, Json, IOUtils

TraceLog == ndJsonDeserialize(IOEnv.TRACE)
VARIABLE l
tvars == <<vars, l>>

Ev == TraceLog[l]
Is(e) == l <= Len(TraceLog) /\ Ev.e = e
Step == l' = l + 1
Same == UNCHANGED l

\* (a): the current holder of the mutex, a worker that has not yet taken its wait decision, blocks
Holder == {h \in Workers : mutex = <<"w", h>> /\ wpc[h] = "check"}
Release(x) == IF Holder \ {x} # {} THEN \E h \in Holder \ {x} : WCheckBlock(h) /\ Same
              ELSE UNCHANGED tvars
\* (b): a blocked worker is notified (or woken spuriously - always legal) ...
Wake(w) == /\ waiting' = waiting \ {w} /\ Same
           /\ UNCHANGED <<nw, queue, mutex, stop, wvars, cvars, done, threw, runs, ovars>>

TReset == /\ Is("Reset") /\ Step
          /\ nw' = Ev.workers /\ queue' = <<>> /\ mutex' = Free /\ stop' = FALSE /\ waiting' = {}
          /\ wpc' = [w \in 0..(Ev.workers - 1) |-> "acquire"] /\ wtask' = [w \in 0..(Ev.workers - 1) |-> NoTask]
          /\ running' = [w \in 0..(Ev.workers - 1) |-> NoTask]
          /\ cpc' = [c \in Callers |-> "idle"] /\ ccall' = [c \in Callers |-> 0] /\ cargs' = [c \in Callers |-> NoArgs]
          /\ cidx' = [c \in Callers |-> 1] /\ cret' = [c \in Callers |-> "none"] /\ cpath' = [c \in Callers |-> "none"]
          /\ crun' = [c \in Callers |-> NoTask]
          /\ done' = {} /\ threw' = {} /\ runs' = <<>> /\ opc' = "alive" /\ joined' = {}

\* ---- worker events (hooks in src/core/parallel.cpp)
TLocked == /\ Is("Locked") /\ Ev.a \in Workers
           /\ Release(Ev.a) \cdot (WAcquire(Ev.a) /\ Step)
TWoke == /\ Is("Woke") /\ Ev.a \in Workers
         /\ IF wpc[Ev.a] = "check" THEN WCheckGo(Ev.a) /\ Step
            ELSE Release(Ev.a) \cdot (Wake(Ev.a) \cdot ((WAcquire(Ev.a) /\ Same) \cdot (WCheckGo(Ev.a) /\ Step)))
\* which task a worker took is revealed by its next Begin event (bounded look-ahead); the order in which queued tasks
\* are taken is not part of the property, so any queued task is accepted
Horizon == 600
NextBegin(w) == LET S == {j \in (l + 1)..Min(l + Horizon, Len(TraceLog)) :
                             TraceLog[j].e = "Begin" /\ ~TraceLog[j].inl /\ TraceLog[j].tnum = w}
                IN IF S = {} THEN 0 ELSE CHOOSE j \in S : \A k \in S : j <= k
PopIndex(w) == LET j == NextBegin(w) IN
               IF j = 0 THEN 1
               ELSE LET t == Task(TraceLog[j].c, TraceLog[j].k, TraceLog[j].b, TraceLog[j].en)
                        I == {i \in DOMAIN queue : queue[i] = t}
                    IN IF I = {} THEN 1 ELSE CHOOSE i \in I : TRUE
TPop == /\ Is("Pop") /\ Ev.a \in Workers /\ WPopAt(Ev.a, PopIndex(Ev.a)) /\ Len(queue') = Ev.b /\ Step
TStopSeen == /\ Is("StopSeen") /\ Ev.a \in Workers /\ Len(queue) = Ev.b /\ WStop(Ev.a) /\ Step
EvTask == Task(Ev.c, Ev.k, Ev.b, Ev.en)
TBegin == /\ Is("Begin") /\ ~Ev.inl /\ Ev.tnum \in Workers /\ wtask[Ev.tnum] = EvTask /\ WRunBegin(Ev.tnum) /\ Step
TEnd == /\ Is("End") /\ ~Ev.inl /\ Ev.tnum \in Workers /\ running[Ev.tnum] = EvTask /\ WRunEnd(Ev.tnum, ~Ev.threw) /\ Step

\* ---- caller events (driver + hooks in include/nano/core/parallel.h)
TMapCall == /\ Is("MapCall") /\ Ev.c \in Callers /\ Ev.k = ccall[Ev.c] + 1
            /\ (\E inl \in BOOLEAN : CStartPath(Ev.c, Ev.n, Ev.chunk, Ev.raise, inl)) /\ Step
TBeginInl == /\ Is("Begin") /\ Ev.inl /\ Ev.tnum = 0 /\ Ev.c \in Callers
             /\ CInlineBegin(Ev.c) /\ crun'[Ev.c] = EvTask /\ Step
TEndInl == /\ Is("End") /\ Ev.inl /\ Ev.c \in Callers /\ crun[Ev.c] = EvTask /\ CInlineEnd(Ev.c, ~Ev.threw) /\ Step
TEnq == /\ Is("Enq") /\ Ev.tid \in Callers /\ cargs[Ev.tid].n = Ev.a /\ cargs[Ev.tid].chunk = Ev.b
        /\ Release(-1) \cdot ((CLock(Ev.tid) /\ Same) \cdot (CPush(Ev.tid) /\ Step))
TNotifyAll == /\ Is("NotifyAll") /\ Ev.tid \in Callers /\ CNotifyAll(Ev.tid) /\ Step
\* the return of map(): the block()/~section_t loops over the futures, composed; enabled only when all tasks finished
TMapRet == /\ Is("MapRet") /\ Ev.c \in Callers /\ Ev.k = ccall[Ev.c] /\ Step
           /\ CASE cpath[Ev.c] = "pool" ->
                     /\ cpc[Ev.c] = "block" /\ TaskSetOf(Ev.c) \subseteq done
                     /\ Ev.outcome = (IF cargs[Ev.c].raise /\ TaskSetOf(Ev.c) \cap threw # {} THEN "rethrow" ELSE "ok")
                     /\ cpc' = [cpc EXCEPT ![Ev.c] = "idle"] /\ cret' = [cret EXCEPT ![Ev.c] = Ev.outcome]
                     /\ cidx' = [cidx EXCEPT ![Ev.c] = Len(TasksOf(Ev.c)) + 1]
                     /\ UNCHANGED <<nw, queue, mutex, stop, waiting, wvars, ccall, cargs, cpath, crun, done, threw, runs, ovars>>
                [] cpath[Ev.c] = "inline" /\ Ev.outcome = "ok" -> CInlineRet(Ev.c)
                [] cpath[Ev.c] = "inline" /\ Ev.outcome = "rethrow" ->
                     cpc[Ev.c] = "idle" /\ cret[Ev.c] = "rethrow" /\ UNCHANGED vars
                [] OTHER -> FALSE
TEnqCall == /\ Is("EnqCall") /\ Ev.c \in Callers /\ Ev.k = ccall[Ev.c] + 1 /\ CEnqStart(Ev.c) /\ Step
TEnqOne == /\ Is("EnqOne") /\ Ev.tid \in Callers
           /\ Release(-1) \cdot ((CEnqLock(Ev.tid) /\ Same) \cdot (CEnqPush(Ev.tid) /\ Step))
\* notify_one: which waiter (if any) wakes up is not observable here; wake-ups are inferred at the Woke events
TNotifyOne == /\ Is("NotifyOne") /\ Ev.tid \in Callers /\ cpc[Ev.tid] = "enotify" /\ Step
              /\ cpc' = [cpc EXCEPT ![Ev.tid] = "idle"] /\ cret' = [cret EXCEPT ![Ev.tid] = "ok"]
              /\ UNCHANGED <<nw, queue, mutex, stop, waiting, wvars, ccall, cargs, cidx, cpath, crun, done, threw, runs, ovars>>

\* the future returned by enqueue(), asked with get() while the pool is alive (`alive`: blocks until the task ran) or looked at (without
\* waiting) after the pool was destroyed: a task that ran to completion delivers "ok", a task that threw delivers its exception
\* ("threw"); anything else ("broken" promise, "pending" for ever) only for a task that never ran to its end - which cannot be the case
\* for a get() that returned while the pool was alive.  Nothing is demanded from the futures of tasks dropped by the destruction.
TFuture == /\ Is("Future") /\ Ev.c \in Callers /\ Step /\ UNCHANGED vars
           /\ (~Ev.alive => opc = "dead")
           /\ LET t == Task(Ev.c, Ev.k, -1, -1) IN
              CASE Ev.outcome = "ok" -> t \in done /\ t \notin threw
                [] Ev.outcome = "threw" -> t \in done /\ t \in threw
                [] Ev.outcome \in {"broken", "pending"} -> t \notin done /\ ~Ev.alive
                [] OTHER -> FALSE

\* ---- owner events (~pool_t)
TStopSet == /\ Is("StopSet") /\ Release(-1) \cdot ((OLock /\ Same) \cdot (OStop /\ Step))
TNotifyStop == /\ Is("NotifyStop") /\ ONotify /\ Step
TJoined == /\ Is("Joined") /\ Ev.a = nw /\ opc = "join" /\ \A w \in Workers : wpc[w] = "exit" /\ running[w] = NoTask
           /\ joined' = Workers /\ opc' = "dead" /\ Step
           /\ UNCHANGED <<nw, queue, mutex, stop, waiting, wvars, cvars, done, threw, runs>>
TDestroyed == /\ Is("Destroyed") /\ opc = "dead" /\ Step /\ UNCHANGED vars

\* ---- big map() calls: the executed chunks sorted by begin, and per worker id the execution intervals sorted by start
SeqOK(s) == \A i \in 1..(Len(s) - 1) : s[i] < s[i + 1]
\* A call on the inline path (one worker, or a single chunk) that is cut short by a task's exception: the chunks up to the throwing
\* one ran, the exception propagates whatever `raise` says (what the code does; ThreadPool.tla, CInlineEnd) - every other call runs
\* every chunk exactly once and re-throws iff asked to.
TBigMap == /\ Is("BigMap") /\ Step /\ UNCHANGED vars
           /\ LET n == Ev.n ch == Ev.chunk bs == Ev.bs es == Ev.es m == Len(Ev.bs)
                  cut == (Ev.workers = 1 \/ ch >= n) /\ Ev.nthrow = 1 /\ Ev.outcome = "rethrow" IN
              /\ IF cut THEN m >= 1 /\ m <= NChunks(n, ch)
                        ELSE m = NChunks(n, ch) /\ Ev.outcome = (IF Ev.raise /\ Ev.nthrow > 0 THEN "rethrow" ELSE "ok")
              /\ Len(es) = m
              /\ \A i \in 1..m : bs[i] = Chunk(n, ch, i)[1] /\ es[i] = Chunk(n, ch, i)[2]     \* exactly once, tiling [0, n)
              /\ Ev.maxtnum < Ev.workers
              /\ Len(Ev.tn) = m /\ Len(Ev.sb) = m /\ Len(Ev.se) = m
              /\ \A i \in 1..m : Ev.tn[i] >= 0 /\ Ev.sb[i] < Ev.se[i]
              /\ \A i \in 1..(m - 1) : Ev.tn[i] <= Ev.tn[i + 1]
                                       /\ (Ev.tn[i] = Ev.tn[i + 1] => Ev.se[i] < Ev.sb[i + 1])   \* worker id exclusive
              /\ \A i \in 1..m : Ev.se[i] < Ev.ret                                             \* returns after all its tasks ended

\* the size of a pool constructed without a size, with size 0, with a size above max_size(): at least one worker (the BigMap records
\* that follow use it as the pool size: worker ids below it, every index exactly once), at most max_size()
TPoolSize == /\ Is("PoolSize") /\ Step /\ UNCHANGED vars /\ Ev.size >= 1 /\ Ev.size <= Ev.maxsize

TraceInit == l = 1 /\ InitWith(1)
TraceNext == \/ TReset \/ TLocked \/ TWoke \/ TPop \/ TStopSeen \/ TBegin \/ TEnd
             \/ TMapCall \/ TBeginInl \/ TEndInl \/ TEnq \/ TNotifyAll \/ TMapRet \/ TEnqCall \/ TEnqOne \/ TNotifyOne
             \/ TStopSet \/ TNotifyStop \/ TJoined \/ TDestroyed \/ TBigMap \/ TFuture \/ TPoolSize
TraceSpec == TraceInit /\ [][TraceNext]_tvars

Accepted == LET d == TLCGet("stats").diameter IN
            IF d - 1 = Len(TraceLog) THEN TRUE ELSE PrintT(<<"REJECTED_AT", d>>) /\ FALSE
======================================================================================
