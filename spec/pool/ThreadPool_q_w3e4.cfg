CONSTANTS
  PoolSizes = {3}
  Callers = {0}
  MaxElems = 4
  MaxCalls = 1
  WithShutdown = TRUE
  WithEnqueue = FALSE
  MayThrow = TRUE
  Spurious = TRUE
  AnyOrder = FALSE
  StopUnlocked = FALSE
SPECIFICATION Spec
INVARIANTS AtMostOnce ExactlyOnceOnReturn ChunksTile TnumBelowSize TnumExclusive ReturnAfterAllDone RethrowIffAsked
  MutexExclusive WaitingConsistent QueueFresh NoStuck WorkersGoneWhenDead
CHECK_DEADLOCK FALSE
