CONSTANTS
  PoolSizes = {2}
  Callers = {0, 1}
  MaxElems = 2
  MaxCalls = 1
  WithShutdown = TRUE
  WithEnqueue = FALSE
  MayThrow = FALSE
  Spurious = FALSE
  AnyOrder = FALSE
  StopUnlocked = FALSE
SPECIFICATION FairSpec
PROPERTIES MapReturns ShutdownTerminates
CHECK_DEADLOCK FALSE
