CONSTANTS
  PoolSizes = {2}
  Callers = {0, 1}
  MaxElems = 2
  MaxCalls = 1
  WithShutdown = TRUE
  WithEnqueue = TRUE
  MayThrow = TRUE
  Spurious = TRUE
  AnyOrder = FALSE
  StopUnlocked = FALSE
SPECIFICATION Spec
INVARIANTS AtMostOnce ExactlyOnceOnReturn ChunksTile TnumBelowSize TnumExclusive ReturnAfterAllDone RethrowIffAsked
  MutexExclusive WaitingConsistent QueueFresh NoStuck WorkersGoneWhenDead
CHECK_DEADLOCK FALSE
