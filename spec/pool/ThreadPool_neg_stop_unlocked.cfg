CONSTANTS
  PoolSizes = {1}
  Callers = {0}
  MaxElems = 0
  MaxCalls = 0
  WithShutdown = TRUE
  WithEnqueue = FALSE
  MayThrow = FALSE
  Spurious = FALSE
  AnyOrder = FALSE
  StopUnlocked = TRUE
SPECIFICATION Spec
INVARIANTS NoStuck
CHECK_DEADLOCK FALSE
