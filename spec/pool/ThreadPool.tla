---------------------------------- MODULE ThreadPool ----------------------------------
(* Protocol model of nano::parallel::pool_t (include/nano/core/parallel.h, src/core/parallel.cpp).                *)
(*                                                                                                                  *)
(* One mutex + one condition variable + a FIFO of tasks.  Every critical section of the implementation is one      *)
(* action.  Threads: `nw` workers (worker_t::operator()), callers running map() (element-wise map is the chunked   *)
(* map with chunk = 1) or the raw enqueue(), and the owner running ~pool_t.  The user operator is an environment:  *)
(* a task either completes or throws.                                                                               *)
(*                                                                                                                  *)
(* property C17: exactly-once execution, chunks tile [0,n), worker ids < size and exclusive, map() returns only    *)
(* after all its tasks finished, re-throws when asked to, destruction terminates all workers without deadlock.     *)
EXTENDS Integers, Sequences, FiniteSets, TLC

CONSTANTS PoolSizes,     \* set of pool sizes (number of worker threads) explored
          Callers,       \* set of submitting threads
          MaxElems,      \* maximum number of elements of a map() call
          MaxCalls,      \* maximum number of calls per caller
          WithShutdown,  \* BOOLEAN: the owner may destroy the pool once no map() call is in flight
          WithEnqueue,   \* BOOLEAN: callers may also use the raw enqueue() (tasks nobody waits for)
          MayThrow,      \* BOOLEAN: the user operator may throw
          Spurious,      \* BOOLEAN: spurious wake-ups of condition_variable::wait
          AnyOrder,      \* BOOLEAN: workers may take any queued task (FALSE: the oldest one, as the code does)
          StopUnlocked   \* BOOLEAN, negative control only: ~pool_t raises m_stop WITHOUT taking the queue's mutex (FALSE: as the code does)

VARIABLES nw,        \* pool size
          queue,     \* m_tasks: Seq of tasks
          mutex,     \* m_mutex: <<"free">> | <<"w", w>> | <<"c", c>> | <<"o">>
          stop,      \* m_stop
          waiting,   \* workers blocked inside m_condition.wait (they do not hold the mutex)
          wpc,       \* worker -> "acquire" | "check" | "locked" | "run" | "exit"
          wtask,     \* worker -> task popped from the queue (NoTask otherwise)
          running,   \* worker -> task whose user operator is executing (NoTask otherwise)
          cpc,       \* caller -> "idle" | "inline" | "lock" | "push" | "notify" | "block" | "unwind" | "elock" | "epush" | "enotify"
          ccall,     \* caller -> number of calls started
          cargs,     \* caller -> [n, chunk, raise] of the current/last map() call
          cidx,      \* caller -> position in the loop over chunks (inline) or over futures (block)
          cret,      \* caller -> outcome of the last call: "none" | "ok" | "rethrow"
          cpath,     \* caller -> path taken by the last call: "none" | "inline" | "pool" | "enq"
          crun,      \* caller -> task executing inline in the caller's thread (worker id 0)
          done,      \* set of tasks whose packaged_task finished (normally or with a stored exception)
          threw,     \* set of tasks whose operator threw
          runs,      \* task -> number of times the user operator was invoked
          opc,       \* owner: "alive" | "setstop" | "notify" | "join" | "dead"
          joined     \* workers joined by the owner

vars == <<nw, queue, mutex, stop, waiting, wpc, wtask, running, cpc, ccall, cargs, cidx, cret, cpath, crun,
          done, threw, runs, opc, joined>>
wvars == <<wpc, wtask, running>>
cvars == <<cpc, ccall, cargs, cidx, cret, cpath, crun>>
ovars == <<opc, joined>>

Workers == 0..(nw - 1)
Free    == <<"free">>
NoTask  == [c |-> -1, k |-> -1, b |-> -1, e |-> -1]
Task(c, k, b, e) == [c |-> c, k |-> k, b |-> b, e |-> e]
NoArgs  == [n |-> 0, chunk |-> 1, raise |-> TRUE]
Min(a, b) == IF a < b THEN a ELSE b

\* the chunks of map(n, chunk, op): [b, e) ranges in submission order
NChunks(n, ch) == (n + ch - 1) \div ch
Chunk(n, ch, i) == <<(i - 1) * ch, Min(i * ch, n)>>
TasksOf(c) == [i \in 1..NChunks(cargs[c].n, cargs[c].chunk) |->
                  Task(c, ccall[c], Chunk(cargs[c].n, cargs[c].chunk, i)[1], Chunk(cargs[c].n, cargs[c].chunk, i)[2])]
TaskSetOf(c) == {TasksOf(c)[i] : i \in DOMAIN TasksOf(c)}
Pred == stop \/ queue # <<>>                       \* the predicate of the worker's condition wait
Bump(t) == IF t \in DOMAIN runs THEN [runs EXCEPT ![t] = @ + 1] ELSE runs @@ (t :> 1)

InitWith(n) ==
    /\ nw = n /\ queue = <<>> /\ mutex = Free /\ stop = FALSE /\ waiting = {}
    /\ wpc = [w \in 0..(n - 1) |-> "acquire"] /\ wtask = [w \in 0..(n - 1) |-> NoTask]
    /\ running = [w \in 0..(n - 1) |-> NoTask]
    /\ cpc = [c \in Callers |-> "idle"] /\ ccall = [c \in Callers |-> 0] /\ cargs = [c \in Callers |-> NoArgs]
    /\ cidx = [c \in Callers |-> 1] /\ cret = [c \in Callers |-> "none"] /\ cpath = [c \in Callers |-> "none"]
    /\ crun = [c \in Callers |-> NoTask]
    /\ done = {} /\ threw = {} /\ runs = <<>> /\ opc = "alive" /\ joined = {}
Init == \E n \in PoolSizes : InitWith(n)

---------------------------------------------------------------------------------------
\* worker loop (src/core/parallel.cpp, worker_t::operator())

\* std::unique_lock lock(m_mutex)  -- also the re-acquisition inside wait() after a notification
WAcquire(w) == /\ wpc[w] = "acquire" /\ w \notin waiting /\ mutex = Free
               /\ mutex' = <<"w", w>> /\ wpc' = [wpc EXCEPT ![w] = "check"]
               /\ UNCHANGED <<nw, queue, stop, waiting, wtask, running, cvars, done, threw, runs, ovars>>
\* m_condition.wait(lock, pred): pred true -> go on holding the mutex
WCheckGo(w) == /\ wpc[w] = "check" /\ mutex = <<"w", w>> /\ Pred
               /\ wpc' = [wpc EXCEPT ![w] = "locked"]
               /\ UNCHANGED <<nw, queue, mutex, stop, waiting, wtask, running, cvars, done, threw, runs, ovars>>
\* ... pred false -> atomically release the mutex and block
\* (with the mutex-protected stop flag the evaluation of the predicate and the registration as a waiter are one atomic step; when the
\*  flag is written outside the mutex (StopUnlocked) the writer can run between the two, which is the classical lost wake-up)
WCheckBlock(w) == /\ ~StopUnlocked /\ wpc[w] = "check" /\ mutex = <<"w", w>> /\ ~Pred
                  /\ mutex' = Free /\ waiting' = waiting \cup {w} /\ wpc' = [wpc EXCEPT ![w] = "acquire"]
                  /\ UNCHANGED <<nw, queue, stop, wtask, running, cvars, done, threw, runs, ovars>>
WCheckEval(w) == /\ StopUnlocked /\ wpc[w] = "check" /\ mutex = <<"w", w>> /\ ~Pred
                 /\ wpc' = [wpc EXCEPT ![w] = "sleepy"]
                 /\ UNCHANGED <<nw, queue, mutex, stop, waiting, wtask, running, cvars, done, threw, runs, ovars>>
WSleep(w) == /\ wpc[w] = "sleepy" /\ mutex = <<"w", w>>
             /\ mutex' = Free /\ waiting' = waiting \cup {w} /\ wpc' = [wpc EXCEPT ![w] = "acquire"]
             /\ UNCHANGED <<nw, queue, stop, wtask, running, cvars, done, threw, runs, ovars>>
\* if (m_stop) { m_tasks.clear(); notify_all(); break; }
WStop(w) == /\ wpc[w] = "locked" /\ mutex = <<"w", w>> /\ stop
            /\ queue' = <<>> /\ waiting' = {} /\ mutex' = Free /\ wpc' = [wpc EXCEPT ![w] = "exit"]
            /\ UNCHANGED <<nw, stop, wtask, running, cvars, done, threw, runs, ovars>>
\* task = front(); pop_front();   (lock released at the end of the scope)
\* The code takes the oldest task (i = 1); no clause of the property depends on the order, so the action is written for
\* an arbitrary position: the model is checked with FIFO (what the code does) and with any order (AnyOrder = TRUE).
RemoveAt(q, i) == SubSeq(q, 1, i - 1) \o SubSeq(q, i + 1, Len(q))
WPopAt(w, i) == /\ wpc[w] = "locked" /\ mutex = <<"w", w>> /\ ~stop /\ i \in DOMAIN queue
                /\ wtask' = [wtask EXCEPT ![w] = queue[i]] /\ queue' = RemoveAt(queue, i)
                /\ mutex' = Free /\ wpc' = [wpc EXCEPT ![w] = "run"]
                /\ UNCHANGED <<nw, stop, waiting, running, cvars, done, threw, runs, ovars>>
WPop(w) == IF AnyOrder THEN \E i \in DOMAIN queue : WPopAt(w, i) ELSE WPopAt(w, 1)
\* task(m_tnum): the user operator starts ...
WRunBegin(w) == /\ wpc[w] = "run" /\ running[w] = NoTask
                /\ running' = [running EXCEPT ![w] = wtask[w]] /\ runs' = Bump(wtask[w])
                /\ UNCHANGED <<nw, queue, mutex, stop, waiting, wpc, wtask, cvars, done, threw, ovars>>
\* ... and finishes (ok) or throws (the packaged_task stores the exception in the future)
WRunEnd(w, ok) == /\ wpc[w] = "run" /\ running[w] # NoTask /\ (ok \/ MayThrow)
                  /\ running' = [running EXCEPT ![w] = NoTask] /\ done' = done \cup {wtask[w]}
                  /\ threw' = IF ok THEN threw ELSE threw \cup {wtask[w]}
                  /\ wtask' = [wtask EXCEPT ![w] = NoTask] /\ wpc' = [wpc EXCEPT ![w] = "acquire"]
                  /\ UNCHANGED <<nw, queue, mutex, stop, waiting, cvars, runs, ovars>>
SpuriousWake(w) == /\ Spurious /\ w \in waiting /\ waiting' = waiting \ {w}
                   /\ UNCHANGED <<nw, queue, mutex, stop, wvars, cvars, done, threw, runs, ovars>>
WorkerStep(w) == WAcquire(w) \/ WCheckGo(w) \/ WCheckBlock(w) \/ WCheckEval(w) \/ WSleep(w) \/ WStop(w) \/ WPop(w) \/ WRunBegin(w)
                 \/ WRunEnd(w, TRUE) \/ WRunEnd(w, FALSE)

---------------------------------------------------------------------------------------
\* caller: pool_t::map(elements, chunksize, op, raise) (include/nano/core/parallel.h)

\* Which of the two paths a call takes is the implementation's choice - the property holds on both; the code's rule is
\* `if (size() == 1 || chunksize >= elements)` -> inline.  The model follows the code unless AnyOrder (implementation freedom the
\* property does not constrain) is set; the trace specification accepts either path for every call.
CStartPath(c, n, ch, raise, inl) ==
    /\ cpc[c] = "idle" /\ ccall[c] < MaxCalls /\ opc = "alive"
    /\ cargs' = [cargs EXCEPT ![c] = [n |-> n, chunk |-> ch, raise |-> raise]]
    /\ ccall' = [ccall EXCEPT ![c] = @ + 1] /\ cidx' = [cidx EXCEPT ![c] = 1] /\ cret' = [cret EXCEPT ![c] = "none"]
    /\ IF inl
         THEN cpc' = [cpc EXCEPT ![c] = "inline"] /\ cpath' = [cpath EXCEPT ![c] = "inline"]
         ELSE cpc' = [cpc EXCEPT ![c] = "lock"] /\ cpath' = [cpath EXCEPT ![c] = "pool"]
    /\ UNCHANGED <<nw, queue, mutex, stop, waiting, wvars, crun, done, threw, runs, ovars>>
CStartArgs(c, n, ch, raise) == CStartPath(c, n, ch, raise, nw = 1 \/ ch >= n)
CStart(c) == \E n \in 0..MaxElems, ch \in 1..(MaxElems + 1), raise \in BOOLEAN :
                 /\ ch <= n + 1
                 /\ IF AnyOrder THEN \E inl \in BOOLEAN : CStartPath(c, n, ch, raise, inl) ELSE CStartArgs(c, n, ch, raise)
\* inline path: the caller's thread runs every chunk with worker id 0; an exception propagates at once
CInlineBegin(c) == /\ cpc[c] = "inline" /\ crun[c] = NoTask /\ cidx[c] \in DOMAIN TasksOf(c)
                   /\ crun' = [crun EXCEPT ![c] = TasksOf(c)[cidx[c]]] /\ runs' = Bump(TasksOf(c)[cidx[c]])
                   /\ UNCHANGED <<nw, queue, mutex, stop, waiting, wvars, cpc, ccall, cargs, cidx, cret, cpath, done, threw, ovars>>
CInlineEnd(c, ok) == /\ cpc[c] = "inline" /\ crun[c] # NoTask /\ (ok \/ MayThrow)
                     /\ done' = done \cup {crun[c]} /\ crun' = [crun EXCEPT ![c] = NoTask]
                     /\ IF ok THEN /\ cidx' = [cidx EXCEPT ![c] = @ + 1] /\ UNCHANGED <<cpc, cret, threw>>
                              ELSE /\ threw' = threw \cup {crun[c]} /\ cpc' = [cpc EXCEPT ![c] = "idle"]
                                   /\ cret' = [cret EXCEPT ![c] = "rethrow"] /\ UNCHANGED cidx
                     /\ UNCHANGED <<nw, queue, mutex, stop, waiting, wvars, ccall, cargs, cpath, runs, ovars>>
CInlineRet(c) == /\ cpc[c] = "inline" /\ crun[c] = NoTask /\ cidx[c] \notin DOMAIN TasksOf(c)
                 /\ cpc' = [cpc EXCEPT ![c] = "idle"] /\ cret' = [cret EXCEPT ![c] = "ok"]
                 /\ UNCHANGED <<nw, queue, mutex, stop, waiting, wvars, ccall, cargs, cidx, cpath, crun, done, threw, runs, ovars>>
\* pooled path: { scoped_lock; enqueue_no_lock all chunks } notify_all; section.block(raise); ~section_t
CLock(c) == /\ cpc[c] = "lock" /\ mutex = Free /\ mutex' = <<"c", c>> /\ cpc' = [cpc EXCEPT ![c] = "push"]
            /\ UNCHANGED <<nw, queue, stop, waiting, wvars, ccall, cargs, cidx, cret, cpath, crun, done, threw, runs, ovars>>
CPush(c) == /\ cpc[c] = "push" /\ mutex = <<"c", c>>
            /\ queue' = queue \o TasksOf(c) /\ mutex' = Free /\ cpc' = [cpc EXCEPT ![c] = "notify"]
            /\ UNCHANGED <<nw, stop, waiting, wvars, ccall, cargs, cidx, cret, cpath, crun, done, threw, runs, ovars>>
CNotifyAll(c) == /\ cpc[c] = "notify" /\ waiting' = {} /\ cpc' = [cpc EXCEPT ![c] = "block"] /\ cidx' = [cidx EXCEPT ![c] = 1]
                 /\ UNCHANGED <<nw, queue, mutex, stop, wvars, ccall, cargs, cret, cpath, crun, done, threw, runs, ovars>>
\* section.block(raise): futures are waited for in order; get() re-throws the first stored exception when raise
CWait(c) == /\ cpc[c] = "block" /\ cidx[c] \in DOMAIN TasksOf(c) /\ TasksOf(c)[cidx[c]] \in done
            /\ IF cargs[c].raise /\ TasksOf(c)[cidx[c]] \in threw
                 THEN cpc' = [cpc EXCEPT ![c] = "unwind"] /\ cidx' = [cidx EXCEPT ![c] = 1]
                 ELSE cidx' = [cidx EXCEPT ![c] = @ + 1] /\ UNCHANGED cpc
            /\ UNCHANGED <<nw, queue, mutex, stop, waiting, wvars, ccall, cargs, cret, cpath, crun, done, threw, runs, ovars>>
CBlockEnd(c) == /\ cpc[c] = "block" /\ cidx[c] \notin DOMAIN TasksOf(c)
                /\ cpc' = [cpc EXCEPT ![c] = "unwind"] /\ cidx' = [cidx EXCEPT ![c] = 1]
                /\ UNCHANGED <<nw, queue, mutex, stop, waiting, wvars, ccall, cargs, cret, cpath, crun, done, threw, runs, ovars>>
\* ~section_t: block(false) over all the futures again, also when leaving by exception
CUnwindWait(c) == /\ cpc[c] = "unwind" /\ cidx[c] \in DOMAIN TasksOf(c) /\ TasksOf(c)[cidx[c]] \in done
                  /\ cidx' = [cidx EXCEPT ![c] = @ + 1]
                  /\ UNCHANGED <<nw, queue, mutex, stop, waiting, wvars, cpc, ccall, cargs, cret, cpath, crun, done, threw, runs, ovars>>
CReturn(c) == /\ cpc[c] = "unwind" /\ cidx[c] \notin DOMAIN TasksOf(c)
              /\ cpc' = [cpc EXCEPT ![c] = "idle"]
              /\ cret' = [cret EXCEPT ![c] = IF cargs[c].raise /\ TaskSetOf(c) \cap threw # {} THEN "rethrow" ELSE "ok"]
              /\ UNCHANGED <<nw, queue, mutex, stop, waiting, wvars, ccall, cargs, cidx, cpath, crun, done, threw, runs, ovars>>
\* raw enqueue(f): { scoped_lock; push } notify_one; nobody waits for the future
CEnqStart(c) == /\ WithEnqueue /\ cpc[c] = "idle" /\ ccall[c] < MaxCalls /\ opc = "alive"
                /\ ccall' = [ccall EXCEPT ![c] = @ + 1] /\ cpath' = [cpath EXCEPT ![c] = "enq"]
                /\ cargs' = [cargs EXCEPT ![c] = NoArgs] /\ cret' = [cret EXCEPT ![c] = "none"]
                /\ cpc' = [cpc EXCEPT ![c] = "elock"]
                /\ UNCHANGED <<nw, queue, mutex, stop, waiting, wvars, cidx, crun, done, threw, runs, ovars>>
CEnqLock(c) == /\ cpc[c] = "elock" /\ mutex = Free /\ mutex' = <<"c", c>> /\ cpc' = [cpc EXCEPT ![c] = "epush"]
               /\ UNCHANGED <<nw, queue, stop, waiting, wvars, ccall, cargs, cidx, cret, cpath, crun, done, threw, runs, ovars>>
CEnqPush(c) == /\ cpc[c] = "epush" /\ mutex = <<"c", c>>
               /\ queue' = Append(queue, Task(c, ccall[c], -1, -1)) /\ mutex' = Free /\ cpc' = [cpc EXCEPT ![c] = "enotify"]
               /\ UNCHANGED <<nw, stop, waiting, wvars, ccall, cargs, cidx, cret, cpath, crun, done, threw, runs, ovars>>
CNotifyOne(c) == /\ cpc[c] = "enotify" /\ cpc' = [cpc EXCEPT ![c] = "idle"] /\ cret' = [cret EXCEPT ![c] = "ok"]
                 /\ IF waiting = {} THEN UNCHANGED waiting ELSE \E w \in waiting : waiting' = waiting \ {w}
                 /\ UNCHANGED <<nw, queue, mutex, stop, wvars, ccall, cargs, cidx, cpath, crun, done, threw, runs, ovars>>
CallerStep(c) == CStart(c) \/ CInlineBegin(c) \/ CInlineEnd(c, TRUE) \/ CInlineEnd(c, FALSE) \/ CInlineRet(c)
                 \/ CLock(c) \/ CPush(c) \/ CNotifyAll(c) \/ CWait(c) \/ CBlockEnd(c) \/ CUnwindWait(c) \/ CReturn(c)
                 \/ CEnqStart(c) \/ CEnqLock(c) \/ CEnqPush(c) \/ CNotifyOne(c)

---------------------------------------------------------------------------------------
\* owner: ~pool_t  { scoped_lock; m_stop = true; } notify_all; join all
OLock == /\ ~StopUnlocked /\ WithShutdown /\ opc = "alive" /\ \A c \in Callers : cpc[c] = "idle"
         /\ mutex = Free /\ mutex' = <<"o">> /\ opc' = "setstop"
         /\ UNCHANGED <<nw, queue, stop, waiting, wvars, cvars, done, threw, runs, joined>>
OStop == /\ opc = "setstop" /\ mutex = <<"o">> /\ stop' = TRUE /\ mutex' = Free /\ opc' = "notify"
         /\ UNCHANGED <<nw, queue, waiting, wvars, cvars, done, threw, runs, joined>>
\* negative control: the flag is raised without the mutex
OStopUnlocked == /\ StopUnlocked /\ WithShutdown /\ opc = "alive" /\ \A c \in Callers : cpc[c] = "idle"
                 /\ stop' = TRUE /\ opc' = "notify"
                 /\ UNCHANGED <<nw, queue, mutex, waiting, wvars, cvars, done, threw, runs, joined>>
ONotify == /\ opc = "notify" /\ waiting' = {} /\ opc' = "join"
           /\ UNCHANGED <<nw, queue, mutex, stop, wvars, cvars, done, threw, runs, joined>>
OJoin == /\ opc = "join" /\ \E w \in Workers \ joined : wpc[w] = "exit" /\ joined' = joined \cup {w}
         /\ UNCHANGED <<nw, queue, mutex, stop, waiting, wvars, cvars, done, threw, runs, opc>>
ODone == /\ opc = "join" /\ joined = Workers /\ opc' = "dead"
         /\ UNCHANGED <<nw, queue, mutex, stop, waiting, wvars, cvars, done, threw, runs, joined>>
OwnerStep == OLock \/ OStop \/ OStopUnlocked \/ ONotify \/ OJoin \/ ODone

Next == \/ \E w \in Workers : WorkerStep(w) \/ SpuriousWake(w)
        \/ \E c \in Callers : CallerStep(c)
        \/ OwnerStep
Spec == Init /\ [][Next]_vars

MaxPool == 16
FairSpec == /\ Spec
            /\ \A w \in 0..(MaxPool - 1) : WF_vars(w \in Workers /\ WorkerStep(w))
            /\ \A c \in Callers : WF_vars(CallerStep(c))
            /\ WF_vars(OwnerStep)

---------------------------------------------------------------------------------------
\* properties
AllTasks == DOMAIN runs
\* never more than once ...
AtMostOnce == \A t \in AllTasks : runs[t] <= 1
\* ... and exactly once for every chunk of a map() call that returned (unless the inline path was cut short by an exception)
Returned(c) == cpc[c] = "idle" /\ ccall[c] > 0 /\ cpath[c] \in {"inline", "pool"}
ExactlyOnceOnReturn ==
    \A c \in Callers : (Returned(c) /\ (cpath[c] = "pool" \/ cret[c] = "ok")) =>
        \A t \in TaskSetOf(c) : t \in AllTasks /\ runs[t] = 1 /\ t \in done
\* the chunks of a call tile [0, n): consecutive, non-empty, no larger than the chunk size
ChunksTile ==
    \A c \in Callers : cpath[c] \in {"inline", "pool"} =>
        LET T == TasksOf(c) n == cargs[c].n IN
        /\ (n = 0 <=> Len(T) = 0)
        /\ \A i \in DOMAIN T : T[i].b < T[i].e /\ T[i].e - T[i].b <= cargs[c].chunk
        /\ (Len(T) > 0 => T[1].b = 0 /\ T[Len(T)].e = n)
        /\ \A i \in 1..(Len(T) - 1) : T[i].e = T[i + 1].b
\* executing operators: (task, worker id) pairs
Active == {<<running[w], w>> : w \in {v \in Workers : running[v] # NoTask}}
          \cup {<<crun[c], 0>> : c \in {d \in Callers : crun[d] # NoTask}}
TnumBelowSize == \A a \in Active : a[2] \in Workers
TnumExclusive == \A a1, a2 \in Active : (a1 # a2 /\ a1[1].c = a2[1].c /\ a1[1].k = a2[1].k) => a1[2] # a2[2]
\* a pooled map() returns only after all its tasks finished
ReturnAfterAllDone == \A c \in Callers : (Returned(c) /\ cpath[c] = "pool") => TaskSetOf(c) \subseteq done
RethrowIffAsked == \A c \in Callers : (Returned(c) /\ cpath[c] = "pool") =>
                       (cret[c] = "rethrow" <=> (cargs[c].raise /\ TaskSetOf(c) \cap threw # {}))
MutexExclusive == /\ \A w \in Workers : (wpc[w] \in {"check", "locked", "sleepy"}) <=> (mutex = <<"w", w>>)
                  /\ \A c \in Callers : (cpc[c] \in {"push", "epush"}) <=> (mutex = <<"c", c>>)
                  /\ (opc = "setstop") <=> (mutex = <<"o">>)
WaitingConsistent == \A w \in waiting : w \in Workers /\ wpc[w] = "acquire"
QueueFresh == \A i \in DOMAIN queue : queue[i] \notin AllTasks /\ \A j \in DOMAIN queue : i # j => queue[i] # queue[j]
\* no deadlock: the only state without successor is orderly termination
Terminated == /\ \A c \in Callers : cpc[c] = "idle"
              /\ IF WithShutdown THEN opc = "dead" /\ \A w \in Workers : wpc[w] = "exit"
                 ELSE \A c \in Callers : ccall[c] = MaxCalls
NoStuck == (~ENABLED Next) => Terminated
WorkersGoneWhenDead == opc = "dead" => (\A w \in Workers : wpc[w] = "exit" /\ running[w] = NoTask)

\* liveness (under FairSpec): every call returns, destruction completes
MapReturns == \A c \in Callers : (cpc[c] # "idle") ~> (cpc[c] = "idle")
ShutdownTerminates == (opc = "setstop") ~> (opc = "dead")
\* bounding constraint for the model (none needed: all counters are bounded by MaxCalls)
=======================================================================================
