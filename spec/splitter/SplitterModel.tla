--------------------------------- MODULE SplitterModel ---------------------------------
(* Design-level check: for EVERY shuffle (all permutations of n <= MaxN indices), every fold count and every train       *)
(* percentage the chunking schemes of the two splitters yield the promised structure.                                     *)
EXTENDS Splitter
CONSTANTS MaxN, Pers
VARIABLES sh, k, per
Init == /\ sh \in UNION {Perms(n) : n \in 2..MaxN} /\ k \in 2..MaxN /\ k <= Len(sh) /\ per \in Pers
Next == UNCHANGED <<sh, k, per>>
Spec == Init /\ [][Next]_<<sh, k, per>>
Input == 1..Len(sh)
KFoldStructure == /\ \A f \in 0..(k - 1) : SplitOK(Input, KFoldTrain(sh, k, f), KFoldValid(sh, k, f))
                  /\ FoldsPartition(Input, [f \in 1..k |-> KFoldValid(sh, k, f - 1)])
RandomStructure == /\ SplitOK(Input, RandomTrain(sh, per), RandomValid(sh, per))
                   /\ Len(RandomTrain(sh, per)) = TrainSize(Len(sh), per)
\* round to nearest: |100 size - per n| <= 50
RoundingIsNearest == LET d == 100 * TrainSize(Len(sh), per) - per * Len(sh) IN d <= 50 /\ d > -50
========================================================================================
