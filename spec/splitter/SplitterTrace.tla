--------------------------------- MODULE SplitterTrace ---------------------------------
(* TLC evaluates the set predicates of Splitter.tla on every recorded call of the real splitters and samplers           *)
(* (harness/splitter_driver.cpp).                                                                                         *)
EXTENDS Splitter, Json, IOUtils
TraceLog == ndJsonDeserialize(IOEnv.TRACE)
VARIABLE l
Ev == TraceLog[l]
Is(e) == l <= Len(TraceLog) /\ Ev.e = e

KFold == /\ Is("KFold") /\ l' = l + 1
         /\ LET input == SetOf(Ev.input) IN
            /\ Cardinality(input) = Len(Ev.input) /\ Len(Ev.train) = Ev.folds /\ Len(Ev.valid) = Ev.folds
            /\ \A f \in 1..Ev.folds : SplitOK(input, Ev.train[f], Ev.valid[f])
            /\ FoldsPartition(input, Ev.valid)
            /\ Ev.sameSeedSame /\ Ev.cloneSame
Random == /\ Is("Random") /\ l' = l + 1
          /\ LET input == SetOf(Ev.input) IN
             /\ Cardinality(input) = Len(Ev.input) /\ Len(Ev.train) = Ev.folds /\ Len(Ev.valid) = Ev.folds
             /\ \A f \in 1..Ev.folds : SplitOK(input, Ev.train[f], Ev.valid[f]) /\ Len(Ev.train[f]) = TrainSize(Len(Ev.input), Ev.per)
             /\ Ev.sameSeedSame /\ Ev.cloneSame
Sample == /\ Is("Sample") /\ l' = l + 1
          /\ LET input == SetOf(Ev.input) IN
             CASE Ev.kind = "without" -> WithoutReplacementOK(input, Ev.count, Ev.sel)
               [] Ev.kind = "with" -> WithReplacementOK(input, Ev.count, Ev.sel)
               [] Ev.kind = "weighted" -> /\ WithReplacementOK(input, Ev.count, Ev.sel)
                                          /\ SetOf(Ev.sel) \cap SetOf(Ev.zero) = {}          \* never an index of zero weight
               [] OTHER -> FALSE
\* points sampled from a ball lie inside it (real-valued norm: computed by the driver)
Ball == Is("Ball") /\ l' = l + 1 /\ Ev.inside /\ Ev.dimOK
\* the overloads writing into a caller's buffer: every element of the buffer written, nothing next to it, the point inside the ball
BallMap == Is("BallMap") /\ l' = l + 1 /\ Ev.filled /\ Ev.guardOK /\ Ev.inside
Next == KFold \/ Random \/ Sample \/ Ball \/ BallMap
Init == l = 1
Spec == Init /\ [][Next]_l
Accepted == LET d == TLCGet("stats").diameter IN
            IF d - 1 = Len(TraceLog) THEN TRUE ELSE PrintT(<<"REJECTED_AT", d>>) /\ FALSE
========================================================================================
