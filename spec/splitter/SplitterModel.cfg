CONSTANTS
  MaxN = 6
  Pers = {10, 25, 33, 50, 75, 80, 90}
SPECIFICATION Spec
INVARIANTS KFoldStructure RandomStructure RoundingIsNearest
