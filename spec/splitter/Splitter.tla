------------------------------------ MODULE Splitter ------------------------------------
(* k-fold and random splitters (src/splitter/kfold.cpp, random.cpp) and index sampling (src/core/sampling.cpp,           *)
(* src/gboost/sampler.cpp).  The pseudo-random shuffle is an environment: any permutation of the input.                  *)
(* property C12: every (train, valid) pair is disjoint, sorted and together exactly the input; the k validation folds     *)
(* partition the input with sizes differing by less than k; the random splitter's training part has                       *)
(* round(percentage n / 100) elements; sampling without replacement returns `count` distinct sorted members, with         *)
(* replacement `count` sorted members, weighted sampling never an index of zero weight.                                   *)
EXTENDS Integers, Sequences, FiniteSets, TLC

SetOf(s) == {s[i] : i \in DOMAIN s}
Sorted(s) == SortSeq(s, LAMBDA a, b : a < b)
IsSorted(s) == \A i \in 1..(Len(s) - 1) : s[i] <= s[i + 1]
StrictlySorted(s) == \A i \in 1..(Len(s) - 1) : s[i] < s[i + 1]
Perms(n) == {p \in [1..n -> 1..n] : \A i, j \in 1..n : i # j => p[i] # p[j]}

\* ---- what the code computes, for a given shuffle `sh` (a sequence: the shuffled input)
KFoldValid(sh, k, f) ==        \* f = 0..k-1
    LET n == Len(sh) c == n \div k b == f * c e == IF f + 1 < k THEN b + c ELSE n IN Sorted(SubSeq(sh, b + 1, e))
KFoldTrain(sh, k, f) ==
    LET n == Len(sh) c == n \div k b == f * c e == IF f + 1 < k THEN b + c ELSE n
    IN Sorted(SubSeq(sh, 1, b) \o SubSeq(sh, e + 1, n))
TrainSize(n, per) == (per * n + 50) \div 100                   \* idiv(per * n, 100): rounding to nearest
RandomTrain(sh, per) == Sorted(SubSeq(sh, 1, TrainSize(Len(sh), per)))
RandomValid(sh, per) == Sorted(SubSeq(sh, TrainSize(Len(sh), per) + 1, Len(sh)))

\* ---- the promised structure
SplitOK(input, train, valid) ==
    /\ SetOf(train) \cap SetOf(valid) = {} /\ SetOf(train) \cup SetOf(valid) = input
    /\ StrictlySorted(train) /\ StrictlySorted(valid) /\ Len(train) + Len(valid) = Cardinality(input)
FoldsPartition(input, valids) ==
    /\ \A f, g \in DOMAIN valids : f # g => SetOf(valids[f]) \cap SetOf(valids[g]) = {}
    /\ UNION {SetOf(valids[f]) : f \in DOMAIN valids} = input
    /\ \A f, g \in DOMAIN valids : Len(valids[f]) - Len(valids[g]) < Len(valids)
WithoutReplacementOK(input, count, sel) == Len(sel) = count /\ StrictlySorted(sel) /\ SetOf(sel) \subseteq input
WithReplacementOK(input, count, sel) == Len(sel) = count /\ IsSorted(sel) /\ SetOf(sel) \subseteq input
=========================================================================================
