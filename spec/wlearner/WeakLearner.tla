----------------------------------- MODULE WeakLearner -----------------------------------
(* Brute-force reference for the residual-sum-of-squares fit of the weak learners (src/wlearner/stump.cpp, hinge.cpp, affine.cpp, *)
(* table.cpp) on small integer datasets: the minimum RSS over the hypothesis class - all features, all mid-point thresholds /      *)
(* hinge directions / label sets, least-squares coefficients - as an exact rational <<num, den>> (den > 0), compared by             *)
(* cross-multiplication.  Samples may repeat (positions count), a missing feature value predicts 0.                                *)
(* property C10 (first sentence): the fitted score is the minimum RSS attainable over the class.                                   *)
EXTENDS Integers, Sequences, FiniteSets, TLC

Missing == -999
RECURSIVE Gcd(_, _)
Gcd(a, b) == IF b = 0 THEN a ELSE Gcd(b, a % b)
Lcm(a, b) == (a \div Gcd(a, b)) * b
\* X[f]: sequence over the dataset's samples of integer feature values (Missing when not given); pos: the selected samples
\* (0-based, with repetitions); R[s]: the gradient (residual) vector of dataset sample s
Val(X, f, pos, i) == X[f][pos[i] + 1]
Res(R, pos, i, k) == R[pos[i] + 1][k]
Outs(R) == DOMAIN R[1]
SumOver(I, g(_)) == LET RECURSIVE S(_)
                        S(J) == IF J = {} THEN 0 ELSE LET j == CHOOSE x \in J : TRUE IN g(j) + S(J \ {j})
                    IN S(I)
Total2(R, pos) == SumOver(DOMAIN pos, LAMBDA i : SumOver(Outs(R), LAMBDA k : Res(R, pos, i, k) * Res(R, pos, i, k)))
Given(X, f, pos) == {i \in DOMAIN pos : Val(X, f, pos, i) # Missing}
\* sum over outputs of (sum_{i in G} r_ik)^2
SqSum(R, pos, G) == SumOver(Outs(R), LAMBDA k : SumOver(G, LAMBDA i : Res(R, pos, i, k)) * SumOver(G, LAMBDA i : Res(R, pos, i, k)))
\* rational arithmetic
Less(a, b) == a[1] * b[2] < b[1] * a[2]
MinOf(S) == CHOOSE a \in S : \A b \in S : ~Less(b, a)
\* distinct consecutive feature values a < b among the given positions: the mid-point thresholds (doubled: a + b)
Thresholds2(X, f, pos) == LET V == {Val(X, f, pos, i) : i \in Given(X, f, pos)} IN
                          UNION { {a + b : b \in {c \in V : c > a /\ \A e \in V : ~(a < e /\ e < c)}} : a \in V }

\* ---- stump: x < thr -> mean of the left group, x >= thr -> mean of the right group
StumpCands(X, R, pos, f) ==
    { LET G == Given(X, f, pos) Lo == {i \in G : 2 * Val(X, f, pos, i) < t2} Hi == G \ Lo nl == Cardinality(Lo) nh == Cardinality(Hi)
      IN <<Total2(R, pos) * nl * nh - SqSum(R, pos, Lo) * nh - SqSum(R, pos, Hi) * nl, nl * nh>> : t2 \in Thresholds2(X, f, pos) }
\* ---- dense table: one mean per label / per set of labels (all those present among the given positions)
Labels(X, f, pos) == {Val(X, f, pos, i) : i \in Given(X, f, pos)}
Group(X, f, pos, lab) == {i \in Given(X, f, pos) : Val(X, f, pos, i) = lab}
\* common denominator: the least common multiple of the group sizes (at most 60 for up to 12 positions)
LcmOf(S) == LET RECURSIVE M(_)
                M(J) == IF J = {} THEN 1 ELSE LET j == CHOOSE x \in J : TRUE IN Lcm(j, M(J \ {j}))
            IN M(S)
DenseCand(X, R, pos, f) ==
    LET L == LcmOf({Cardinality(Group(X, f, pos, lab)) : lab \in Labels(X, f, pos)}) IN
    <<Total2(R, pos) * L - SumOver(Labels(X, f, pos), LAMBDA lab : SqSum(R, pos, Group(X, f, pos, lab)) * (L \div Cardinality(Group(X, f, pos, lab)))), L>>
\* ---- discrete step: only one label predicts (its mean), the others predict 0
DStepCands(X, R, pos, f) ==
    { <<Total2(R, pos) * Cardinality(Group(X, f, pos, lab)) - SqSum(R, pos, Group(X, f, pos, lab)), Cardinality(Group(X, f, pos, lab))>> : lab \in Labels(X, f, pos) }
\* ---- affine: least squares w x + b on the given positions (needs two distinct values)
AffineCands(X, R, pos, f) ==
    LET G == Given(X, f, pos)
        n0 == Cardinality(G)
        sx == SumOver(G, LAMBDA i : Val(X, f, pos, i))
        sxx == SumOver(G, LAMBDA i : Val(X, f, pos, i) * Val(X, f, pos, i))
        D == sxx * n0 - sx * sx
        sr(k) == SumOver(G, LAMBDA i : Res(R, pos, i, k))
        srx(k) == SumOver(G, LAMBDA i : Res(R, pos, i, k) * Val(X, f, pos, i))
    IN IF D = 0 THEN {}
       ELSE { <<Total2(R, pos) * D - SumOver(Outs(R), LAMBDA k : srx(k) * srx(k) * n0 - 2 * srx(k) * sr(k) * sx + sr(k) * sr(k) * sxx), D>> }
\* ---- hinge: beta * (x - thr) on one side of a mid-point threshold, 0 on the other (doubled coordinates u = 2x - (a + b))
HingeCands(X, R, pos, f) ==
    UNION { LET G == Given(X, f, pos) IN
            { LET Side == IF left THEN {i \in G : 2 * Val(X, f, pos, i) < t2} ELSE {i \in G : 2 * Val(X, f, pos, i) > t2}
                  suu == SumOver(Side, LAMBDA i : (2 * Val(X, f, pos, i) - t2) * (2 * Val(X, f, pos, i) - t2))
                  sru2 == SumOver(Outs(R), LAMBDA k : SumOver(Side, LAMBDA i : Res(R, pos, i, k) * (2 * Val(X, f, pos, i) - t2))
                                                     * SumOver(Side, LAMBDA i : Res(R, pos, i, k) * (2 * Val(X, f, pos, i) - t2)))
              IN <<Total2(R, pos) * suu - sru2, suu>> : left \in BOOLEAN } : t2 \in Thresholds2(X, f, pos) }
Cands(kind, kinds, X, R, pos) ==
    UNION { CASE kind = "stump" /\ kinds[f] = "scalar" -> StumpCands(X, R, pos, f)
              [] kind = "affine" /\ kinds[f] = "scalar" -> AffineCands(X, R, pos, f)
              [] kind = "hinge" /\ kinds[f] = "scalar" -> HingeCands(X, R, pos, f)
              \* categorical features: single-label (the value is the label) and multi-label (the value encodes the set of labels)
              [] kind = "dense-table" /\ kinds[f] \in {"sclass", "mclass"} -> {DenseCand(X, R, pos, f)}      \* also the empty table (no label given): predicts 0
              [] kind = "dstep-table" /\ kinds[f] \in {"sclass", "mclass"} -> DStepCands(X, R, pos, f)
              [] OTHER -> {} : f \in DOMAIN X }
==========================================================================================
