--------------------------------- MODULE WeakLearnerTrace ---------------------------------
(* (E) TLC finds by brute force the minimum RSS over the hypothesis class for every recorded fit on a small integer dataset and  *)
(* compares it with the fitted score; (V) the algebraic clauses for all learners and criteria (harness/wlearner_driver.cpp).     *)
EXTENDS WeakLearner, Json, IOUtils
TraceLog == ndJsonDeserialize(IOEnv.TRACE)
VARIABLE l
Ev == TraceLog[l]
Is(e) == l <= Len(TraceLog) /\ Ev.e = e
Abs(v) == IF v < 0 THEN -v ELSE v
WFit == /\ Is("WFit") /\ l' = l + 1
        /\ LET C == Cands(Ev.kind, Ev.kinds, Ev.X, Ev.R, Ev.pos) IN
           IF C = {} THEN ~Ev.fitted
           ELSE /\ Ev.fitted
                /\ LET best == MinOf(C) IN Abs(Ev.score1000 * best[2] - 1000 * best[1]) <= best[2]      \* ScoreIsClassMinimum (within 1e-3)
                /\ Ev.predOK                                                                             \* PredictionsReproduceScore
\* consistency clauses: predictions are added, zero when the feature is missing, depend only on the sample, equal the table of the
\* group reported by split(); scale multiplies; merging keeps the sum; a depth-1 tree is a stump
WAlg == /\ Is("WAlg") /\ l' = l + 1
        /\ Ev.addsOK /\ Ev.missingZeroOK /\ Ev.sampleOnlyOK /\ Ev.splitOK /\ Ev.scaleOK /\ Ev.mergeOK /\ Ev.tree1OK
        \* added / group clauses for sample lists other than 0..n-1 (strict subsets, any order, repetitions): only listed samples with
        \* a given feature value get a group
        /\ Ev.addsListOK /\ Ev.splitListOK
Next == WFit \/ WAlg
Init == l = 1
Spec == Init /\ [][Next]_l
Accepted == LET d == TLCGet("stats").diameter IN
            IF d - 1 = Len(TraceLog) THEN TRUE ELSE PrintT(<<"REJECTED_AT", d>>) /\ FALSE
===========================================================================================
