CONSTANTS
  Names = {}
  Vals = {}
  MaxOpts = 100
  MaxTokens = 100
  Params <- TraceParams
INIT TraceInit
NEXT TraceNext
INVARIANTS IndexOK KeysPartition ResultOK UsedAreExtras ObjInDomain
POSTCONDITION Accepted
CHECK_DEADLOCK FALSE
