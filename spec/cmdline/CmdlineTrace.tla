---------------------------------- MODULE CmdlineTrace ----------------------------------
(* (V) call sequences recorded from the real cmdline_t / cmdresult_t / cmdconfig_t (harness/cmdline_driver.cpp) validated against the     *)
(* actions of Cmdline.tla: every recorded call must be a step of the specification with the recorded outcome and projected result.       *)
EXTENDS Cmdline, Json, IOUtils
TraceLog == ndJsonDeserialize(IOEnv.TRACE)
VARIABLE l
Ev == TraceLog[l]
Is(e) == l <= Len(TraceLog) /\ Ev.e = e
Step == l' = l + 1
tvars == <<vars, l>>

TraceParams == [p |-> {"0", "1", "7"}, q |-> {"dflt", "1", "7", "z", "hello", "x", "--", "-", "---x", "p"}]   \* (the string parameter accepts every value token)
Builtins == <<[keys |-> <<"-h", "--help">>, def |-> None], [keys |-> <<"-v", "--version">>, def |-> None],
              [keys |-> <<"-g", "--git-hash">>, def |-> None]>>
\* a new cmdline_t (the three built-in options are registered by its constructor) and a new configurable object
TReset == /\ Is("Reset") /\ Step
          /\ opts' = Builtins
          /\ index' = [n \in UNION {RangeOf(Builtins[i].keys) : i \in 1..3} |-> CHOOSE i \in 1..3 : n \in RangeOf(Builtins[i].keys)]
          /\ processed' = FALSE /\ result' = << >> /\ last' = "ok" /\ used' = {} /\ obj' = [p |-> "0", q |-> "dflt"]
TAdd == /\ Is("Add") /\ Step /\ Add(Ev.keys, Ev.def) /\ last' = Ev.outcome
\* a new processing starts a new cmdconfig_t as well (used' = {})
TProcess == /\ Is("Process") /\ Step
            /\ LET r == Walk(Defaults, Ev.tokens, 1) IN
               IF r.ok THEN last' = "ok" /\ result' = r.map /\ processed' = TRUE ELSE last' = "threw" /\ UNCHANGED <<result, processed>>
            /\ used' = {} /\ UNCHANGED <<opts, index, obj>>
            /\ last' = Ev.outcome
            \* the projected result: has / has_value / get of every name of the driver's universe
            /\ \A k \in DOMAIN Ev.res : LET q == Ev.res[k] IN
                  /\ q.has = (q.n \in DOMAIN result')
                  /\ q.hv = (q.n \in DOMAIN result' /\ result'[q.n].val # None)
                  /\ q.get = (IF q.n \in DOMAIN result' /\ result'[q.n].val # None THEN result'[q.n].val ELSE "threw")
TSetup == /\ Is("Setup") /\ Step /\ Setup /\ Ev.outcome = "ok" /\ obj'.p = Ev.p /\ obj'.q = Ev.q
\* ~cmdconfig_t: exactly the extras no setup used are reported
TUnused == /\ Is("Unused") /\ Step /\ UNCHANGED vars /\ {Ev.names[k] : k \in DOMAIN Ev.names} = Unused

TraceInit == l = 1 /\ Init
TraceNext == TReset \/ TAdd \/ TProcess \/ TSetup \/ TUnused
TraceSpec == TraceInit /\ [][TraceNext]_tvars
Accepted == LET d == TLCGet("stats").diameter IN
            IF d - 1 = Len(TraceLog) THEN TRUE ELSE PrintT(<<"REJECTED_AT", d>>) /\ FALSE
==========================================================================================
