SPECIFICATION Spec
CONSTANTS
  Names = {"-a", "--aa", "--p", "-q", "x", "--"}
  Vals = {"1", "z"}
  MaxOpts = 2
  MaxTokens = 3
  Params <- DefaultParams
INVARIANTS IndexOK KeysPartition ResultOK UsedAreExtras ObjInDomain
CHECK_DEADLOCK FALSE
