---------------------------------- MODULE Cmdline ----------------------------------
(* Command line processing (nano::cmdline_t, cmdresult_t, cmdconfig_t; src/core/cmdline.cpp) - a behaviour of the library outside the   *)
(* twenty listed properties.  One action per public call:                                                                                 *)
(*   Add(keys, def)      cmdline_t::add: registers an option under all its keywords, or throws and registers nothing                      *)
(*   Process(tokens)     cmdline_t::process: the result maps names to optional values; a known keyword sets all keywords of its option,  *)
(*                       an unknown one is kept as an "extra"; a token is a value iff it follows a name and is not itself a valid name   *)
(*   Setup(obj)          cmdconfig_t::setup: extras with a value whose stripped name is a parameter of the object are assigned to it     *)
(*   Unused              ~cmdconfig_t: the extras never used by any setup are reported                                                    *)
(* Names are strings; Valid(n) mirrors valid_option_name: "--x..." (third character not a dash) or "-x...".                               *)
EXTENDS Naturals, Sequences, FiniteSets, TLC

CONSTANTS Names,        \* universe of tokens used as option names (valid and invalid ones)
          Vals,         \* universe of value tokens (none of them a valid option name)
          MaxOpts, MaxTokens,
          Params        \* parameters of the configurable object: name -> set of accepted value tokens

DefaultParams == [p |-> {"1"}, q |-> {"1", "z"}]      \* (configuration files cannot spell records)
None == "<none>"
Extra == 0              \* index of an unregistered ("extra") option; registered options have indices 1..Len(opts)

Dash(s, i) == Len(s) >= i /\ SubSeq(s, i, i) = "-"
Valid(n) == IF Dash(n, 1) /\ Dash(n, 2) THEN Len(n) > 2 /\ ~Dash(n, 3) ELSE Dash(n, 1) /\ Len(n) > 1
Strip(n) == IF Dash(n, 1) /\ Dash(n, 2) THEN SubSeq(n, 3, Len(n)) ELSE IF Dash(n, 1) THEN SubSeq(n, 2, Len(n)) ELSE ""

VARIABLES opts,      \* registered options in order: [keys |-> sequence of names, def |-> value or None]
          index,     \* name -> index of its option (function over the registered names)
          processed, \* BOOLEAN: some processing succeeded
          result,    \* last processing result: name -> [val |-> value or None, idx |-> option index or Extra]
          last,      \* "ok" | "threw": outcome of the last call
          used,      \* extras assigned to some object by a setup since the last processing
          obj        \* the configurable object: parameter name -> value token
vars == <<opts, index, processed, result, last, used, obj>>

RangeOf(s) == {s[i] : i \in DOMAIN s}
Init == /\ opts = <<>> /\ index = << >> /\ processed = FALSE /\ result = << >> /\ last = "ok" /\ used = {} /\ obj = [p \in DOMAIN Params |-> None]

\* ---- add
AddOK(keys) == /\ Len(keys) > 0 /\ \A i \in DOMAIN keys : Valid(keys[i]) /\ keys[i] \notin DOMAIN index
               /\ \A i, j \in DOMAIN keys : i # j => keys[i] # keys[j]
Add(keys, def) ==
    /\ Len(opts) < MaxOpts /\ ~processed          \* (options are registered before the first processing)
    /\ IF AddOK(keys)
         THEN /\ opts' = Append(opts, [keys |-> keys, def |-> def])
              /\ index' = [n \in DOMAIN index \cup RangeOf(keys) |-> IF n \in DOMAIN index THEN index[n] ELSE Len(opts) + 1]
              /\ last' = "ok"
         ELSE /\ UNCHANGED <<opts, index>> /\ last' = "threw"       \* (modelled for a rejection at the FIRST keyword: nothing is registered)
    /\ UNCHANGED <<processed, result, used, obj>>

\* ---- process
Defaults == [n \in {m \in DOMAIN index : opts[index[m]].def # None} |-> [val |-> opts[index[n]].def, idx |-> index[n]]]
Set(res, names, v) == [n \in DOMAIN res \cup names |-> IF n \in names THEN v ELSE res[n]]
RECURSIVE Walk(_, _, _)
\* Walk(res, tokens, i): the result after consuming tokens[i..]; not ok when a name is expected and the token is not a valid name
Walk(res, tokens, i) ==
    IF i > Len(tokens) THEN [ok |-> TRUE, map |-> res]
    ELSE LET name  == tokens[i]
             nextv == i + 1 <= Len(tokens) /\ ~Valid(tokens[i + 1])
             val   == IF nextv THEN tokens[i + 1] ELSE None
             step  == IF nextv THEN 2 ELSE 1
         IN IF ~Valid(name) THEN [ok |-> FALSE, map |-> res]
            ELSE IF name \in DOMAIN index
                   THEN Walk(Set(res, RangeOf(opts[index[name]].keys), [val |-> val, idx |-> index[name]]), tokens, i + step)
                   ELSE Walk(Set(res, {name}, [val |-> val, idx |-> Extra]), tokens, i + step)
Process(tokens) ==
    /\ Len(tokens) <= MaxTokens
    /\ LET r == Walk(Defaults, tokens, 1) IN
       IF r.ok THEN last' = "ok" /\ result' = r.map /\ processed' = TRUE /\ used' = {}
               ELSE last' = "threw" /\ UNCHANGED <<result, processed, used>>
    /\ UNCHANGED <<opts, index, obj>>

\* ---- queries on the result (the driver logs them for every name of the universe)
Has(n) == n \in DOMAIN result
HasValue(n) == Has(n) /\ result[n].val # None
Get(n) == IF HasValue(n) THEN result[n].val ELSE "threw"

\* ---- cmdconfig_t: setup / unused
Candidates == {n \in DOMAIN result : result[n].idx = Extra /\ result[n].val # None /\ Strip(n) \in DOMAIN Params}
\* every candidate is assigned; a value outside the parameter's domain makes the assignment throw (the driver only uses accepted values)
Setup == /\ processed /\ \A n \in Candidates : result[n].val \in Params[Strip(n)]
         /\ \A n1, n2 \in Candidates : Strip(n1) = Strip(n2) => n1 = n2                       \* (two spellings of one parameter: order unspecified)
         /\ obj' = [p \in DOMAIN Params |-> IF \E n \in Candidates : Strip(n) = p THEN result[CHOOSE n \in Candidates : Strip(n) = p].val ELSE obj[p]]
         /\ used' = used \cup Candidates /\ last' = "ok" /\ UNCHANGED <<opts, index, processed, result>>
Unused == {n \in DOMAIN result : result[n].idx = Extra} \ used

Next == \/ \E keys \in UNION {[1..k -> Names] : k \in 1..2}, def \in Vals \cup {None} : Add(keys, def)
        \/ \E tokens \in UNION {[1..k -> Names \cup Vals] : k \in 0..MaxTokens} : Process(tokens)
        \/ Setup
Spec == Init /\ [][Next]_vars

\* ---- invariants
IndexOK == \A n \in DOMAIN index : index[n] \in 1..Len(opts) /\ n \in RangeOf(opts[index[n]].keys) /\ Valid(n)
KeysPartition == \A i, j \in DOMAIN opts : i # j => RangeOf(opts[i].keys) \cap RangeOf(opts[j].keys) = {}
\* all keywords of an option always agree in the result; registered names carry their option's index, the others are extras
ResultOK == processed =>
              /\ \A n \in DOMAIN result : Valid(n) /\ result[n].idx = (IF n \in DOMAIN index THEN index[n] ELSE Extra)
              /\ \A n, m \in DOMAIN index : index[n] = index[m] => ((n \in DOMAIN result) <=> (m \in DOMAIN result))
              /\ \A n, m \in DOMAIN index : (index[n] = index[m] /\ n \in DOMAIN result) => result[n] = result[m]
              \* (NOT an invariant of the code: "an option with a default always has a value" - a keyword given without a value
              \*  replaces the default by "no value"; TLC shows it with Add(<<"-a">>, "1"), Process(<<"-a">>))
              /\ \A n \in DOMAIN index : (opts[index[n]].def # None /\ ~HasValue(n)) => n \in DOMAIN result
UsedAreExtras == used \subseteq {n \in DOMAIN result : result[n].idx = Extra}
ObjInDomain == \A p \in DOMAIN Params : obj[p] = None \/ obj[p] \in Params[p]
=====================================================================================
