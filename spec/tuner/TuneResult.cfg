CONSTANTS
  MaxTrials = 3
  Folds = 2
  Grid = {0, 1, 2}
  Vals = {0, 1}
SPECIFICATION Spec
INVARIANTS OptimumMinimal WarmStartReadsStoredSlots ClosestInsideBound
CHECK_DEADLOCK FALSE
