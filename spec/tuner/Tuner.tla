------------------------------------- MODULE Tuner -------------------------------------
(* tuner_t::optimize + local_search_tuner_t / surrogate_tuner_t (src/tuner.cpp, src/tuner/util.cpp, local.cpp,          *)
(* surrogate.cpp) over a d-dimensional index grid (d = Len(Dims)).  The evaluation function F is an environment chosen  *)
(* at Init: TLC ranges over all landscapes over Vals, ties/plateaus/corner minima included; Bad stands for a non-finite *)
(* value.                                                                                                                *)
(* property C13 (first sentence): only grid points are evaluated, none twice, at most max_evals + 3^d points, a         *)
(* non-finite value is rejected with an exception, all evaluations are returned sorted with the minimum first.          *)
EXTENDS Integers, FiniteSets, Sequences, TLC

CONSTANTS N1, N2, N3, \* grid sizes per dimension (0 = dimension not used)
          MaxEvals,   \* tuner::max_evals
          Vals,       \* finite values of the landscape (integers)
          WithBad,    \* BOOLEAN: the landscape may contain non-finite values
          Surrogate   \* BOOLEAN: surrogate tuner (centre of the refinement = any grid point) or local search

Dims == IF N3 > 0 THEN <<N1, N2, N3>> ELSE IF N2 > 0 THEN <<N1, N2>> ELSE <<N1>>
D == Len(Dims)
Grid == {p \in [1..D -> 0..10] : \A i \in 1..D : p[i] < Dims[i]}
Bad == -1
VARIABLES F,       \* the landscape: Grid -> Vals \cup {Bad}
          evald,   \* set of evaluated grid points
          calls,   \* sequence of batches (sets of grid points) passed to the callback
          phase,   \* "init" | "coarse" | "optimize" | "done" | "threw"
          radius,
          steps    \* the returned steps: sequence of grid points (only at "done")
vars == <<F, evald, calls, phase, radius, steps>>

Offsets == [1..D -> {-1, 0, 1}]
Neigh(c, r) == {p \in Grid : \E o \in Offsets : \A i \in 1..D : p[i] = c[i] + o[i] * r}     \* local_search(): clipped to the grid
MinOf(S) == CHOOSE v \in {F[p] : p \in S} : \A q \in S : v <= F[q]
Best == {p \in evald : F[p] = MinOf(evald)}                   \* std::sort is not stable: any minimiser may come first
Avg == [i \in 1..D |-> Dims[i] \div 2]
Pow3 == [i \in 0..3 |-> IF i = 0 THEN 1 ELSE IF i = 1 THEN 3 ELSE IF i = 2 THEN 9 ELSE 27]

Init == /\ F \in [Grid -> Vals \cup (IF WithBad THEN {Bad} ELSE {})]
        /\ evald = {} /\ calls = <<>> /\ phase = "init" /\ radius = 2 /\ steps = <<>>
\* evaluate(): filter the points already evaluated, call back, reject non-finite values, sort
Eval(batch, nextphase, nextradius, stopphase) ==
    LET new == batch \ evald IN
    IF new = {} THEN /\ phase' = stopphase /\ UNCHANGED <<F, evald, calls, radius, steps>>       \* returned false: break
    ELSE /\ calls' = Append(calls, new) /\ UNCHANGED <<F, steps>>
         /\ IF \E p \in new : F[p] = Bad
              THEN phase' = "threw" /\ UNCHANGED <<evald, radius>>
              ELSE evald' = evald \cup new /\ phase' = nextphase /\ radius' = nextradius
Start == phase = "init" /\ Eval({Avg}, "coarse", 2, "optimize")
Coarse == /\ phase = "coarse"
          /\ IF Cardinality(evald) < MaxEvals \div 2
               THEN \E c \in Best : Eval(Neigh(c, radius), "coarse", radius * 2, "optimize")
               ELSE phase' = "optimize" /\ UNCHANGED <<F, evald, calls, radius, steps>>
Optimize == /\ phase = "optimize"
            /\ IF Cardinality(evald) < MaxEvals
                 THEN IF Surrogate THEN \E c \in Grid : Eval(Neigh(c, 1), "optimize", radius, "return")
                      ELSE \E c \in Best : Eval(Neigh(c, 1), "optimize", radius, "return")
                 ELSE phase' = "return" /\ UNCHANGED <<F, evald, calls, radius, steps>>
\* the steps are returned sorted by value (std::sort: some order among equal values; one representative is modelled)
RECURSIVE SortedSteps(_)
SortedSteps(S) == IF S = {} THEN <<>>
              ELSE LET m == CHOOSE p \in S : \A q \in S : F[p] <= F[q] IN <<m>> \o SortedSteps(S \ {m})
Return == /\ phase = "return" /\ phase' = "done" /\ steps' = SortedSteps(evald)
          /\ UNCHANGED <<F, evald, calls, radius>>
Next == Start \/ Coarse \/ Optimize \/ Return
Spec == Init /\ [][Next]_vars
FairSpec == Spec /\ WF_vars(Next)

\* ---- C13
Called == UNION {calls[i] : i \in DOMAIN calls}
OnlyGrid == Called \subseteq Grid
NoRepeat == \A i, j \in DOMAIN calls : i # j => calls[i] \cap calls[j] = {}
CountBound == Cardinality(Called) <= MaxEvals + Pow3[D]
NonFiniteThrows == (\E p \in Called : F[p] = Bad) <=> phase = "threw"
SortedFirstIsMin == phase = "done" =>
    /\ {steps[i] : i \in DOMAIN steps} = Called /\ Len(steps) = Cardinality(Called)
    /\ \A i \in 1..(Len(steps) - 1) : F[steps[i]] <= F[steps[i + 1]]
    /\ \A p \in Called : F[steps[1]] <= F[p]
Terminates == <>(phase \in {"done", "threw"})
=======================================================================================
