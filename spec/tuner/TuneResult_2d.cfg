CONSTANTS
  MaxTrials = 3
  Folds = 1
  Grid = {0, 1, 2, 3, 4, 5, 6, 7, 8}
  Vals = {0}
  K = 3
SPECIFICATION Spec
INVARIANTS OptimumMinimal WarmStartReadsStoredSlots ClosestInsideBound
CHECK_DEADLOCK FALSE
