SPECIFICATION Spec
POSTCONDITION Accepted
CHECK_DEADLOCK FALSE
