CONSTANTS
  N1 = 4
  N2 = 3
  N3 = 0
  MaxEvals = 6
  Vals = {0, 1, 2}
  WithBad = FALSE
  Surrogate = FALSE
SPECIFICATION Spec
INVARIANTS OnlyGrid NoRepeat CountBound NonFiniteThrows SortedFirstIsMin
CHECK_DEADLOCK FALSE
