CONSTANTS
  Trials = 3
  Folds = 2
  Workers = {0, 1, 2}
SPECIFICATION Spec
INVARIANTS StoredUnderOwnSlot CallbackGetsFoldSplit ExactlyOncePerSlot ResultIsSequential
CHECK_DEADLOCK FALSE
