CONSTANTS
  N1 = 5
  N2 = 0
  N3 = 0
  MaxEvals = 3
  Vals = {0, 1, 2}
  WithBad = TRUE
  Surrogate = FALSE
SPECIFICATION FairSpec
INVARIANTS OnlyGrid NoRepeat CountBound NonFiniteThrows SortedFirstIsMin
PROPERTY Terminates
CHECK_DEADLOCK FALSE
