CONSTANTS
  N1 = 3
  N2 = 3
  N3 = 0
  MaxEvals = 4
  Vals = {0, 1}
  WithBad = FALSE
  Surrogate = TRUE
SPECIFICATION FairSpec
INVARIANTS OnlyGrid NoRepeat CountBound NonFiniteThrows SortedFirstIsMin
PROPERTY Terminates
CHECK_DEADLOCK FALSE
