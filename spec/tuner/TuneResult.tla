---------------------------------- MODULE TuneResult ----------------------------------
(* ml::result_t (src/machine/result.cpp): the book-keeping of hyper-parameter tuning - trials are added in batches, every          *)
(* (trial, fold) slot is stored once by the task that evaluated it, and three queries decide what the tuning loop does next:        *)
(*   value(trial)             mean over the folds of the stored validation errors (not a number until every fold is stored),        *)
(*   optimum_trial()          the first trial with the smallest value,                                                              *)
(*   closest_trial(p, m)      the first trial among the first m that is closest to the parameter value p (warm starts: m must be    *)
(*                            the number of trials of EARLIER batches, otherwise a task reads a slot another task is writing).      *)
(* properties C13 (optimum = smallest mean validation error; statistics stored under their slot) and C18 (schedule independence).   *)
EXTENDS Integers, Sequences, FiniteSets, TLC

CONSTANTS MaxTrials, Folds, Grid, Vals,
          K          \* 0: one hyper-parameter, the grid points are its values;  K > 0: two hyper-parameters, the grid point p stands for
                     \* the pair (p \div K, p % K) and the distance is the Euclidean one (compared squared: the same order)
None == -1

VARIABLES params,   \* Seq of parameter values (grid points), one per trial
          vals,     \* Seq (per trial) of Seq (per fold) of Vals \cup {None}
          batch0,   \* number of trials of the earlier batches (the bound a task may pass to closest_trial)
          opt,      \* observation: optimum_trial() (0-based)
          closest   \* observation: closest_trial(p, m) for every p in Grid and m in 0..trials (0-based)
vars == <<params, vals, batch0, opt, closest>>

Trials(ps) == 1..Len(ps)
Complete(vs, t) == \A f \in 1..Folds : vs[t][f] # None
SumOf(vs, t) == LET F[k \in 0..Folds] == IF k = 0 THEN 0 ELSE F[k - 1] + vs[t][k] IN F[Folds]
\* the first trial with the smallest mean over complete trials; trial 0 when none is complete (NaN never compares smaller)
OptimumOf(ps, vs) ==
    LET C == {t \in Trials(ps) : Complete(vs, t)} IN
    IF C = {} THEN 0
    ELSE (CHOOSE t \in C : \A u \in C : SumOf(vs, t) < SumOf(vs, u) \/ (SumOf(vs, t) = SumOf(vs, u) /\ t <= u)) - 1
Abs(x) == IF x < 0 THEN -x ELSE x
Dist(a, b) == IF K = 0 THEN Abs(a - b)
              ELSE ((a \div K) - (b \div K)) * ((a \div K) - (b \div K)) + ((a % K) - (b % K)) * ((a % K) - (b % K))
ClosestOf(ps, p, m) ==
    IF m = 0 THEN 0
    ELSE (CHOOSE t \in 1..m : \A u \in 1..m : Dist(ps[t], p) < Dist(ps[u], p) \/ (Dist(ps[t], p) = Dist(ps[u], p) /\ t <= u)) - 1
ClosestTable(ps) == [p \in Grid |-> [m \in 0..Len(ps) |-> ClosestOf(ps, p, m)]]

Init == /\ params = <<>> /\ vals = <<>> /\ batch0 = 0 /\ opt = 0 /\ closest = ClosestTable(<<>>)
\* result.add(params_to_try): one or two new trials
Add(ps) == /\ Len(params) + Len(ps) <= MaxTrials
           /\ \A t \in Trials(params) : Complete(vals, t)                  \* the tuning loop adds a batch after the previous one is finished
           /\ params' = params \o ps /\ vals' = vals \o [i \in 1..Len(ps) |-> [f \in 1..Folds |-> None]]
           /\ batch0' = Len(params)
           /\ opt' = OptimumOf(params', vals') /\ closest' = ClosestTable(params')
\* result.store(trial, fold, ...) by the task of that slot
Store(t, f, v) == /\ t \in Trials(params) /\ f \in 1..Folds /\ vals[t][f] = None
                  /\ vals' = [vals EXCEPT ![t][f] = v]
                  /\ opt' = OptimumOf(params, vals') /\ UNCHANGED <<params, batch0, closest>>
Next == \/ \E a \in Grid : Add(<<a>>)
        \/ \E a \in Grid, b \in Grid : Add(<<a, b>>)
        \/ \E t \in 1..MaxTrials, f \in 1..Folds, v \in Vals : Store(t, f, v)
Spec == Init /\ [][Next]_vars

\* ---- design properties
\* the optimum has the smallest mean validation error among the evaluated trials
OptimumMinimal == \A t \in Trials(params) : Complete(vals, t) => (Complete(vals, opt + 1) /\ SumOf(vals, opt + 1) <= SumOf(vals, t))
\* a warm start bounded by the earlier batches only reads slots that are stored (no task of the current batch writes them)
WarmStartReadsStoredSlots == \A p \in Grid : batch0 > 0 => Complete(vals, closest[p][batch0] + 1)
ClosestInsideBound == \A p \in Grid : \A m \in 1..Len(params) : closest[p][m] < m
=======================================================================================
