------------------------------------ MODULE MLTune ------------------------------------
(* ml::tune (src/machine/tune.cpp): one batch of `Trials` new hyper-parameter trials is added to the result, then the   *)
(* Trials x Folds tasks are mapped over the thread pool (C17: each index exactly once, by some worker, in any order and  *)
(* concurrently); task `index` decodes (trial, fold) = (index \div Folds, index % Folds), calls the model callback with   *)
(* that fold's split and stores what it returns under (trial, fold).                                                     *)
(* property C13 (second sentence): the callback is called exactly once per (trial, fold) with that fold's split, results *)
(* are stored under their own slot, whatever the interleaving.                                                           *)
EXTENDS Integers, FiniteSets, TLC

CONSTANTS Trials, Folds, Workers

VARIABLES added,    \* number of trials registered in the result (result.add)
          pending,  \* indices not yet taken by a worker
          active,   \* worker -> index being processed (-1: idle)
          calls,    \* (trial, fold, split) triples the callback was invoked with
          ncalls,   \* number of callback invocations
          stored    \* slot -> value stored
vars == <<added, pending, active, calls, ncalls, stored>>

Slots == (0..(Trials - 1)) \X (0..(Folds - 1))
Decode(i) == <<i \div Folds, i % Folds>>
Code(slot) == slot[1] * 100 + slot[2]          \* what the callback returns for (trial, fold)

Init == added = 0 /\ pending = {} /\ active = [w \in Workers |-> -1] /\ calls = {} /\ ncalls = 0 /\ stored = <<>>
Add == /\ added = 0 /\ added' = Trials /\ pending' = 0..(Trials * Folds - 1) /\ UNCHANGED <<active, calls, ncalls, stored>>
Start(w, i) == /\ added > 0 /\ i \in pending /\ active[w] = -1
               /\ pending' = pending \ {i} /\ active' = [active EXCEPT ![w] = i]
               /\ calls' = calls \cup {<<Decode(i)[1], Decode(i)[2], Decode(i)[2]>>}     \* the split handed over is the fold's
               /\ ncalls' = ncalls + 1 /\ UNCHANGED <<added, stored>>
Finish(w) == /\ active[w] # -1
             /\ stored' = (Decode(active[w]) :> Code(Decode(active[w]))) @@ stored
             /\ active' = [active EXCEPT ![w] = -1] /\ UNCHANGED <<added, pending, calls, ncalls>>
Next == Add \/ (\E w \in Workers, i \in pending : Start(w, i)) \/ (\E w \in Workers : Finish(w))
Spec == Init /\ [][Next]_vars

Finished == added > 0 /\ pending = {} /\ \A w \in Workers : active[w] = -1
StoredUnderOwnSlot == \A s \in DOMAIN stored : s \in Slots /\ stored[s] = Code(s)
CallbackGetsFoldSplit == \A c \in calls : c[3] = c[2] /\ c[1] < added
ExactlyOncePerSlot == Finished => (ncalls = Trials * Folds /\ {<<c[1], c[2]>> : c \in calls} = Slots /\ DOMAIN stored = Slots)
\* confluence: the final result does not depend on the interleaving
ResultIsSequential == Finished => stored = [s \in Slots |-> Code(s)]
=======================================================================================
