CONSTANTS
  N1 = 2
  N2 = 2
  N3 = 2
  MaxEvals = 4
  Vals = {0, 1}
  WithBad = FALSE
  Surrogate = FALSE
SPECIFICATION FairSpec
INVARIANTS OnlyGrid NoRepeat CountBound NonFiniteThrows SortedFirstIsMin
PROPERTY Terminates
CHECK_DEADLOCK FALSE
