CONSTANTS
  N1 = 3
  N2 = 3
  N3 = 0
  MaxEvals = 4
  Vals = {0, 1}
  WithBad = TRUE
  Surrogate = FALSE
SPECIFICATION FairSpec
INVARIANTS OnlyGrid NoRepeat CountBound NonFiniteThrows SortedFirstIsMin
PROPERTY Terminates
CHECK_DEADLOCK FALSE
