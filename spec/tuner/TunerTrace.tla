---------------------------------- MODULE TunerTrace ----------------------------------
(* Validation of traces recorded from the real tuners (tuner_t::optimize with a recording callback) and from ml::tune    *)
(* (harness/tuner_driver.cpp) against the clauses of C13.  Only what the property states is required of a trace (the     *)
(* search strategy itself is explored at design level in Tuner.tla / MLTune.tla): grid points only, no point twice, the  *)
(* count bound, rejection of non-finite values, sorted result with the minimum first; exactly one callback per           *)
(* (trial, fold) with that fold's split, results stored under their slot, optimum = smallest mean validation error.      *)
EXTENDS Integers, Sequences, FiniteSets, TLC, Json, IOUtils

TraceLog == ndJsonDeserialize(IOEnv.TRACE)
VARIABLES l, grid, evald, nonfinite, status, tune, cbs, stores
vars == <<l, grid, evald, nonfinite, status, tune, cbs, stores>>
Ev == TraceLog[l]
Is(e) == l <= Len(TraceLog) /\ Ev.e = e
NoGrid == [dims |-> <<>>, maxEvals |-> 0]
NoTune == [folds |-> 0]
Pow3(d) == IF d = 1 THEN 3 ELSE IF d = 2 THEN 9 ELSE 27
OnGrid(p) == Len(p) = Len(grid.dims) /\ \A i \in DOMAIN p : p[i] >= 0 /\ p[i] < grid.dims[i]
SetOf(s) == {s[i] : i \in DOMAIN s}

Init == l = 1 /\ grid = NoGrid /\ evald = {} /\ nonfinite = FALSE /\ status = "none" /\ tune = NoTune /\ cbs = {} /\ stores = {}
Reset == /\ Is("Reset") /\ l' = l + 1 /\ grid' = NoGrid /\ evald' = {} /\ nonfinite' = FALSE /\ status' = "none"
         /\ tune' = NoTune /\ cbs' = {} /\ stores' = {}
\* ---- tuner_t::optimize
TGrid == /\ Is("Grid") /\ grid = NoGrid /\ l' = l + 1 /\ Len(Ev.dims) \in 1..3
         /\ grid' = [dims |-> Ev.dims, maxEvals |-> Ev.maxEvals] /\ status' = "running"
         /\ UNCHANGED <<evald, nonfinite, tune, cbs, stores>>
\* one invocation of the callback with a batch of parameter rows mapped back to grid indices by the driver
TBatch == /\ Is("Batch") /\ status = "running" /\ ~nonfinite /\ l' = l + 1
          /\ Len(Ev.pts) > 0
          /\ \A i \in DOMAIN Ev.pts : OnGrid(Ev.pts[i])                                  \* only grid points
          /\ \A i, j \in DOMAIN Ev.pts : i # j => Ev.pts[i] # Ev.pts[j]                   \* no point twice in a batch
          /\ SetOf(Ev.pts) \cap evald = {}                                               \* ... nor across batches
          /\ evald' = evald \cup SetOf(Ev.pts)
          /\ Cardinality(evald') <= grid.maxEvals + Pow3(Len(grid.dims))                 \* at most max_evals + 3^d
          /\ nonfinite' = Ev.nonfinite
          /\ UNCHANGED <<grid, status, tune, cbs, stores>>
\* all evaluations are returned, sorted by value (ranks), the first being the minimum; values are those the callback gave
TReturn == /\ Is("Return") /\ status = "running" /\ ~nonfinite /\ l' = l + 1 /\ status' = "returned"
           /\ SetOf(Ev.pts) = evald /\ Len(Ev.pts) = Cardinality(evald) /\ Len(Ev.ranks) = Len(Ev.pts)
           /\ \A i \in 1..(Len(Ev.ranks) - 1) : Ev.ranks[i] <= Ev.ranks[i + 1]
           /\ Ev.valuesMatch
           /\ UNCHANGED <<grid, evald, nonfinite, tune, cbs, stores>>
\* a non-finite value must end in an exception - and nothing else may
TThrew == /\ Is("Threw") /\ status = "running" /\ nonfinite /\ l' = l + 1 /\ status' = "threw"
          /\ UNCHANGED <<grid, evald, nonfinite, tune, cbs, stores>>
\* ---- ml::tune
TTune == /\ Is("Tune") /\ tune = NoTune /\ l' = l + 1 /\ Ev.folds >= 2 /\ tune' = [folds |-> Ev.folds]
         /\ UNCHANGED <<grid, evald, nonfinite, status, cbs, stores>>
TCb == /\ Is("Cb") /\ tune # NoTune /\ l' = l + 1
       /\ Ev.fold \in 0..(tune.folds - 1) /\ Ev.trial >= 0
       /\ Ev.splitOK                                               \* (train, valid) are the splitter's for that fold
       \* the warm start ("previous relevant model") handed to the callback is recorded (warmFinished: nothing, or what a callback of the
       \* same fold that had finished before returned; warmClosest: from a trial of the earlier batches closest in the hyper-parameter
       \* space) but NOT demanded: the property says nothing about warm starts, which model is handed over is the implementation's
       \* choice. What a callback can receive at all is what an earlier callback returned:
       /\ Ev.warmFinished \in BOOLEAN /\ Ev.warmClosest \in BOOLEAN
       /\ <<Ev.trial, Ev.fold>> \notin cbs /\ cbs' = cbs \cup {<<Ev.trial, Ev.fold>>}   \* exactly once per slot
       /\ UNCHANGED <<grid, evald, nonfinite, status, tune, stores>>
TStored == /\ Is("Stored") /\ tune # NoTune /\ l' = l + 1
           /\ <<Ev.trial, Ev.fold>> \in cbs /\ <<Ev.trial, Ev.fold>> \notin stores
           /\ Ev.trainOK /\ Ev.validOK /\ Ev.extraOK              \* what the callback returned for this slot is what is stored under it
           /\ stores' = stores \cup {<<Ev.trial, Ev.fold>>}
           /\ UNCHANGED <<grid, evald, nonfinite, status, tune, cbs>>
TOptimum == /\ Is("Optimum") /\ tune # NoTune /\ l' = l + 1
            /\ cbs = (0..(Ev.trials - 1)) \X (0..(tune.folds - 1)) /\ stores = cbs
            /\ Len(Ev.sums) = Ev.trials /\ Ev.trial \in 0..(Ev.trials - 1)
            /\ \A t \in 1..Ev.trials : Ev.sums[Ev.trial + 1] <= Ev.sums[t]
            /\ UNCHANGED <<grid, evald, nonfinite, status, tune, cbs, stores>>
Next == Reset \/ TGrid \/ TBatch \/ TReturn \/ TThrew \/ TTune \/ TCb \/ TStored \/ TOptimum
Spec == Init /\ [][Next]_vars
Accepted == LET d == TLCGet("stats").diameter IN
            IF d - 1 = Len(TraceLog) THEN TRUE ELSE PrintT(<<"REJECTED_AT", d>>) /\ FALSE
=======================================================================================
