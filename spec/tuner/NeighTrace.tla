------------------------------------------- MODULE NeighTrace -------------------------------------------
(* The candidate points nano::local_search hands to the tuners (src/tuner/util.cpp), recorded for every centre of small index   *)
(* grids (combinatorial_driver neigh). What C13 needs of them - and what Tuner.tla's Neigh(c, r) guarantees: only points of the   *)
(* grid, each at offset -r, 0 or +r from the centre in every coordinate, none twice, hence at most 3^d. Completeness of the       *)
(* neighbourhood and its order are the implementation's choice and are not demanded.                                              *)
EXTENDS Integers, Sequences, FiniteSets, Json, IOUtils, TLC
TraceLog == ndJsonDeserialize(IOEnv.TRACE)
VARIABLE l
Ev == TraceLog[l]
Pow3(d) == IF d = 1 THEN 3 ELSE IF d = 2 THEN 9 ELSE 27
TNeigh == /\ l <= Len(TraceLog) /\ Ev.e = "Neigh" /\ l' = l + 1
          /\ LET D == Len(Ev.dims) IN
             /\ Len(Ev.src) = D /\ D \in 1..3
             /\ \A i \in DOMAIN Ev.pts :
                   /\ Len(Ev.pts[i]) = D
                   /\ \A k \in 1..D : /\ Ev.pts[i][k] \in 0..(Ev.dims[k] - 1)                                  \* on the grid
                                      /\ Ev.pts[i][k] - Ev.src[k] \in {-Ev.radius, 0, Ev.radius}               \* a neighbour of the centre
             /\ \A i, j \in DOMAIN Ev.pts : i # j => Ev.pts[i] # Ev.pts[j]                                     \* none twice
             /\ Len(Ev.pts) <= Pow3(D)
Init == l = 1
Spec == Init /\ [][TNeigh]_l
Accepted == LET d == TLCGet("stats").diameter IN
            IF d - 1 = Len(TraceLog) THEN TRUE ELSE PrintT(<<"REJECTED_AT", d>>) /\ FALSE
=========================================================================================================
