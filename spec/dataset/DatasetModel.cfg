CONSTANT N = 3
SPECIFICATION Spec
INVARIANTS SelectAgreesWithFlatten Bookkeeping
PROPERTIES DropExactlyThatFeature ShuffleExactlyThatFeature UndoRestores
