----------------------------------- MODULE DatasetView -----------------------------------
(* The views of nano::dataset_t (src/dataset.cpp, src/generator.cpp, include/nano/generator/*.h) over a data source whose  *)
(* stored values are known: per generated feature a per-feature view (select) and a dense flattened view, with one flag     *)
(* per generated feature (dropped / shuffled by a permutation of the samples).                                              *)
(* Values are small integers; the empty sequence marks a value that is not given; Nan is what real-valued views show for it. *)
(* property C08: select and flatten agree under the documented encodings (one-hot +-1 with C-1 columns, 2*hit-1, row-major   *)
(* flattening), identity features equal the stored values, products are products of their sources, missing is NaN/-1,        *)
(* bookkeeping (columns, column->feature) is consistent; drop makes exactly that feature missing, shuffle permutes exactly    *)
(* that feature by the reported bijection, undoing restores the original views; indices out of range are rejected.           *)
EXTENDS Integers, Sequences, FiniteSets, TLC

Nan == -2000000000

\* a generated feature: [kind, src (sequence of source columns), classes, width]
\*   kind: "sclass" | "mclass" | "scalar" | "struct" (identity of one source column) | "product" (of two scalar columns)
\* stored[c] = sequence over samples of value sequences

\* every value is a sequence: <<>> = not given, <<v>> = scalar / class label, <<b1, .., bC>> = multi-label bits, row-major struct values
Raw(feat, stored, s) ==          \* s: 0-based sample
    IF feat.kind = "product"
    THEN LET a == stored[feat.src[1] + 1][s + 1] b == stored[feat.src[2] + 1][s + 1] IN IF a = <<>> \/ b = <<>> THEN <<>> ELSE <<a[1] * b[1]>>
    ELSE stored[feat.src[1] + 1][s + 1]
\* the value of generated feature g (1-based) at sample s under the flags
View(feats, stored, flag, perm, g, s) ==
    CASE flag[g] = "drop" -> <<>>
      [] flag[g] = "shuffle" -> Raw(feats[g], stored, perm[g][s + 1])
      [] OTHER -> Raw(feats[g], stored, s)
\* per-feature view (select): -1 / Nan for a missing value
Select(feat, v) ==
    CASE feat.kind = "sclass" -> IF v = <<>> THEN <<-1>> ELSE v
      [] feat.kind = "mclass" -> IF v = <<>> THEN [c \in 1..feat.classes |-> -1] ELSE v
      [] feat.kind \in {"scalar", "product"} -> IF v = <<>> THEN <<Nan>> ELSE v
      [] feat.kind = "struct" -> IF v = <<>> THEN [k \in 1..feat.width |-> Nan] ELSE v
\* dense view (flatten): the columns of one generated feature
Columns(feat) == CASE feat.kind = "sclass" -> feat.classes - 1 [] feat.kind = "mclass" -> feat.classes [] OTHER -> feat.width
Flat(feat, v) ==
    IF v = <<>> THEN [k \in 1..Columns(feat) |-> Nan]
    ELSE CASE feat.kind = "sclass" -> [c \in 1..(feat.classes - 1) |-> IF c - 1 = v[1] THEN 1 ELSE -1]    \* last class: all -1
           [] feat.kind = "mclass" -> [c \in 1..feat.classes |-> 2 * v[c] - 1]
           [] OTHER -> v
RECURSIVE Concat(_)
Concat(ss) == IF ss = <<>> THEN <<>> ELSE Head(ss) \o Concat(Tail(ss))
FlatRow(feats, stored, flag, perm, s) == Concat([g \in DOMAIN feats |-> Flat(feats[g], View(feats, stored, flag, perm, g, s))])
TotalColumns(feats) == Len(Concat([g \in DOMAIN feats |-> [k \in 1..Columns(feats[g]) |-> g]]))
Column2Feature(feats) == Concat([g \in DOMAIN feats |-> [k \in 1..Columns(feats[g]) |-> g - 1]])
\* targets: sclass -> +-1 one-hot with C columns, mclass -> 2*hit-1, scalar/struct -> the values
TargetRow(tkind, classes, width, v) ==
    IF v = <<>> THEN [k \in 1..(IF tkind \in {"sclass", "mclass"} THEN classes ELSE width) |-> Nan]
    ELSE CASE tkind = "sclass" -> [c \in 1..classes |-> IF c - 1 = v[1] THEN 1 ELSE -1]
           [] tkind = "mclass" -> [c \in 1..classes |-> 2 * v[c] - 1]
           [] OTHER -> v
IsPerm(p, n) == Len(p) = n /\ {p[i] : i \in DOMAIN p} = 0..(n - 1)
==========================================================================================
