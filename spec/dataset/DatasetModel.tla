----------------------------------- MODULE DatasetModel -----------------------------------
(* Design-level model of the drop / shuffle / undo protocol over a fixed small data source (3 samples; a scalar, a 3-class   *)
(* and a product feature): TLC explores every history of operations (all permutations) and checks the clauses of C08 that    *)
(* talk about histories as action properties of the views.                                                                   *)
EXTENDS DatasetView
CONSTANTS N
VARIABLES flag, perm
vars == <<flag, perm>>
Stored == << << <<2>>, <<>>, <<-1>> >>, << <<0>>, <<2>>, <<>> >>, << <<3>>, <<1>>, <<4>> >> >>
Feats == << [kind |-> "scalar", src |-> <<0>>, classes |-> 0, width |-> 1],
            [kind |-> "sclass", src |-> <<1>>, classes |-> 3, width |-> 1],
            [kind |-> "product", src |-> <<0, 2>>, classes |-> 0, width |-> 1] >>
G == DOMAIN Feats
S == 0..(N - 1)
Perms == {p \in [1..N -> S] : IsPerm(p, N)}
Id == [i \in 1..N |-> i - 1]
Init == flag = [g \in G |-> "none"] /\ perm = [g \in G |-> Id]
\* generator_t::drop / undrop / shuffle / unshuffle (one flag byte per feature; both undo operations clear ALL flags)
Drop(g) == flag' = [flag EXCEPT ![g] = "drop"] /\ UNCHANGED perm
Undrop == flag' = [g \in G |-> "none"] /\ UNCHANGED perm
Shuffle(g, p) == flag' = [flag EXCEPT ![g] = "shuffle"] /\ perm' = [perm EXCEPT ![g] = p]
Unshuffle == flag' = [g \in G |-> "none"] /\ perm' = [g \in G |-> Id]
Next == (\E g \in G : Drop(g)) \/ Undrop \/ (\E g \in G, p \in Perms : Shuffle(g, p)) \/ Unshuffle
Spec == Init /\ [][Next]_vars

V(g, s) == View(Feats, Stored, flag, perm, g, s)
V1(g, s) == View(Feats, Stored, flag', perm', g, s)
Orig(g, s) == Raw(Feats[g], Stored, s)
\* dropping makes exactly that feature missing
DropExactlyThatFeature == [][\A g \in G : Drop(g) => (\A s \in S : V1(g, s) = <<>> /\ \A h \in G \ {g} : V1(h, s) = V(h, s))]_vars
\* shuffling permutes exactly that feature by the bijection
ShuffleExactlyThatFeature == [][\A g \in G, p \in Perms : Shuffle(g, p) =>
                                 (\A s \in S : V1(g, s) = Orig(g, p[s + 1]) /\ \A h \in G \ {g} : V1(h, s) = V(h, s))]_vars
\* undoing restores the original views
UndoRestores == [][(Undrop \/ Unshuffle) => \A g \in G, s \in S : V1(g, s) = Orig(g, s)]_vars
\* the two views agree: the dense columns are a function of the per-feature value (encodings)
SelectAgreesWithFlatten ==
    \A g \in G, s \in S : LET v == V(g, s) sel == Select(Feats[g], v) fl == Flat(Feats[g], v) IN
        CASE Feats[g].kind = "sclass" -> /\ Len(fl) = Feats[g].classes - 1
                                         /\ (sel[1] = -1 <=> \A c \in DOMAIN fl : fl[c] = Nan)
                                         /\ (sel[1] # -1 => \A c \in DOMAIN fl : fl[c] = (IF c - 1 = sel[1] THEN 1 ELSE -1))
          [] OTHER -> fl = sel
Bookkeeping == TotalColumns(Feats) = 4 /\ Column2Feature(Feats) = <<0, 1, 1, 2>>
===========================================================================================
