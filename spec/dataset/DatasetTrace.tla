----------------------------------- MODULE DatasetTrace -----------------------------------
(* Validation of histories recorded from real dataset_t objects over driver-defined data sources                            *)
(* (harness/dataset_driver.cpp): TLC keeps the specification state (flags, permutations) along each history and re-computes  *)
(* every recorded view with the operators of DatasetView.                                                                    *)
EXTENDS DatasetView, Json, IOUtils
TraceLog == ndJsonDeserialize(IOEnv.TRACE)
VARIABLES l, n, stored, feats, target, flag, perm
vars == <<l, n, stored, feats, target, flag, perm>>
Ev == TraceLog[l]
Is(e) == l <= Len(TraceLog) /\ Ev.e = e
Id(k) == [i \in 1..k |-> i - 1]
Feat(r) == [kind |-> r.kind, src |-> r.src, classes |-> r.classes, width |-> r.width]

Init == l = 1 /\ n = 0 /\ stored = <<>> /\ feats = <<>> /\ target = <<>> /\ flag = <<>> /\ perm = <<>>
\* a new data source + dataset: Reset{n, stored (per source column, per sample), feats (generated features), target, columns, col2feat}
Reset == /\ Is("Reset") /\ l' = l + 1 /\ n' = Ev.n /\ stored' = Ev.stored
         /\ feats' = [g \in DOMAIN Ev.feats |-> Feat(Ev.feats[g])] /\ target' = Ev.target
         /\ flag' = [g \in DOMAIN Ev.feats |-> "none"] /\ perm' = [g \in DOMAIN Ev.feats |-> Id(Ev.n)]
         \* bookkeeping: counts, column -> feature map, descriptors (checked by the driver against the sources: descOK)
         /\ Ev.nfeatures = Len(Ev.feats) /\ Ev.columns = TotalColumns(feats') /\ Ev.col2feat = Column2Feature(feats') /\ Ev.descOK
         \* the stack generates the features its generators were given (subsets of the input features, pairs for the product)
         /\ Ev.stackOK
Op == /\ Is("Op") /\ l' = l + 1 /\ UNCHANGED <<n, stored, feats, target>>
      /\ CASE Ev.op = "drop" -> flag' = [flag EXCEPT ![Ev.f + 1] = "drop"] /\ UNCHANGED perm
           [] Ev.op = "undrop" -> flag' = [g \in DOMAIN feats |-> "none"] /\ UNCHANGED perm
           [] Ev.op = "shuffle" -> /\ IsPerm(Ev.perm, n)                              \* the reported map is a bijection
                                   /\ flag' = [flag EXCEPT ![Ev.f + 1] = "shuffle"] /\ perm' = [perm EXCEPT ![Ev.f + 1] = Ev.perm]
           [] Ev.op = "unshuffle" -> flag' = [g \in DOMAIN feats |-> "none"] /\ perm' = [g \in DOMAIN feats |-> Id(n)]
\* shuffled(f, samples) reports the bijection applied to the given samples
Shuffled == /\ Is("Shuffled") /\ l' = l + 1 /\ UNCHANGED <<n, stored, feats, target, flag, perm>>
            /\ flag[Ev.f + 1] = "shuffle"
            /\ Ev.out = [i \in DOMAIN Ev.samples |-> perm[Ev.f + 1][Ev.samples[i] + 1]]
\* shuffled(f, samples) of a feature that is not shuffled: as many samples as given, all valid, and - the views being "the stored values
\* permuted by the reported bijection" - the reported samples hold the values the views show (the identity is not demanded; a shuffle that
\* was cancelled by drop / undrop / unshuffle must not be reported any more, seeded change C08f)
Unshuffled == /\ Is("Unshuffled") /\ l' = l + 1 /\ UNCHANGED <<n, stored, feats, target, flag, perm>>
              /\ flag[Ev.f + 1] # "shuffle"
              /\ Len(Ev.out) = Len(Ev.samples) /\ \A i \in DOMAIN Ev.out : Ev.out[i] \in 0..(n - 1)
              /\ flag[Ev.f + 1] = "none" =>
                    \A i \in DOMAIN Ev.out : Raw(feats[Ev.f + 1], stored, Ev.out[i]) = Raw(feats[Ev.f + 1], stored, Ev.samples[i])
\* all views for a list of samples (any order, repetitions): dense rows and per-feature values
Views == /\ Is("Views") /\ l' = l + 1 /\ UNCHANGED <<n, stored, feats, target, flag, perm>>
         /\ \A i \in DOMAIN Ev.samples : Ev.samples[i] \in 0..(n - 1)
         /\ Len(Ev.flat) = Len(Ev.samples) /\ Len(Ev.sel) = Len(feats)
         /\ Ev.shapeOK                                        \* the sizes of the returned views (also for an empty list of samples)
         /\ \A i \in DOMAIN Ev.samples : Ev.flat[i] = FlatRow(feats, stored, flag, perm, Ev.samples[i])
         /\ \A g \in DOMAIN feats : Ev.sel[g] = [i \in DOMAIN Ev.samples |-> Select(feats[g], View(feats, stored, flag, perm, g, Ev.samples[i]))]
Targets == /\ Is("Targets") /\ l' = l + 1 /\ UNCHANGED <<n, stored, feats, target, flag, perm>>
           /\ Len(target) > 0 /\ Ev.shapeOK
           /\ Ev.rows = [i \in DOMAIN Ev.samples |->
                           TargetRow(target[1], target[3], target[4], stored[target[2] + 1][Ev.samples[i] + 1])]
           /\ Ev.sel = [i \in DOMAIN Ev.samples |->
                           Select([kind |-> target[1], classes |-> target[3], width |-> target[4]], stored[target[2] + 1][Ev.samples[i] + 1])]
\* sample / feature indices outside the valid range are rejected with an exception (-1, N, N+1; feature -1, F)
Bad == /\ Is("Bad") /\ l' = l + 1 /\ UNCHANGED <<n, stored, feats, target, flag, perm>>
       /\ (Ev.what = "sample" => (Ev.index < 0 \/ Ev.index >= n))
       /\ (Ev.what = "feature" => (Ev.index < 0 \/ Ev.index >= Len(feats)))
       /\ Ev.threw
\* the views through select_iterator_t (compared by the driver with the direct calls on the same samples, exact equality):
\* loop(samples, callback): every feature is visited exactly once, by the callback of its kind (visits / via);
\* loop(samples, feature, callback): the same for a given feature (visits1 / via1); loop(samples, features, callback): as often as
\* listed (visitsN / listedN); the worker index is below the pool size, the feature index is valid
KindOf(feat) == IF feat.kind = "product" THEN "scalar" ELSE feat.kind
Iter == /\ Is("Iter") /\ l' = l + 1 /\ UNCHANGED <<n, stored, feats, target, flag, perm>>
        /\ Ev.visits = [g \in DOMAIN feats |-> 1] /\ Ev.via = [g \in DOMAIN feats |-> KindOf(feats[g])]
        /\ Ev.visits1 = [g \in DOMAIN feats |-> 1] /\ Ev.via1 = [g \in DOMAIN feats |-> KindOf(feats[g])]
        /\ Ev.visitsN = Ev.listedN /\ Len(Ev.visitsN) = Len(feats)
        /\ Ev.valuesOK /\ Ev.workerOK /\ Ev.indexOK
Next == Reset \/ Op \/ Shuffled \/ Unshuffled \/ Views \/ Targets \/ Bad \/ Iter
Spec == Init /\ [][Next]_vars
Accepted == LET d == TLCGet("stats").diameter IN
            IF d - 1 = Len(TraceLog) THEN TRUE ELSE PrintT(<<"REJECTED_AT", d>>) /\ FALSE
===========================================================================================
