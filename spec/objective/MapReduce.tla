------------------------------------ MODULE MapReduce ------------------------------------
(* The map-reduce scheme of the machine-learning objectives (src/linear/function.cpp, src/gboost/function.cpp,               *)
(* src/dataset/iterator.cpp, include/nano/core/reduce.h): per-worker accumulators are cleared, the samples are processed in    *)
(* chunks of `batch` by the thread pool (C17: every chunk exactly once, by a worker id nobody else is using at that time),      *)
(* each chunk adds its samples to the accumulator of the worker id it runs under, the accumulators are summed and divided by n. *)
(* property C09 (design level): every sample contributes exactly once, an accumulator is written by one running task at a time, *)
(* the result does not depend on the number of workers, the chunk size or the schedule.                                         *)
EXTENDS Integers, FiniteSets, TLC
CONSTANTS N, Workers, Batches        \* samples 0..N-1 with value v(i) = i + 1; set of worker ids; set of batch sizes
VARIABLES batch, pending, active, acc, cnt, phase
vars == <<batch, pending, active, acc, cnt, phase>>
V(i) == i + 1
Chunks(b) == {<<k * b, IF (k + 1) * b < N THEN (k + 1) * b ELSE N>> : k \in 0..((N + b - 1) \div b - 1)}
Init == /\ batch \in Batches /\ pending = {} /\ active = [w \in Workers |-> <<>>] /\ acc = [w \in Workers |-> -1] /\ cnt = [i \in 0..(N - 1) |-> 0]
        /\ phase = "clear"
Clear == phase = "clear" /\ acc' = [w \in Workers |-> 0] /\ pending' = Chunks(batch) /\ phase' = "map" /\ UNCHANGED <<batch, active, cnt>>
\* a worker takes a chunk (the pool guarantees: a pending chunk, an idle worker id)
Begin(w, c) == /\ phase = "map" /\ c \in pending /\ active[w] = <<>>
               /\ pending' = pending \ {c} /\ active' = [active EXCEPT ![w] = c] /\ UNCHANGED <<batch, acc, cnt, phase>>
\* ... and adds the values of its samples to the accumulator of its worker id
End(w) == /\ phase = "map" /\ active[w] # <<>>
          /\ LET c == active[w] S == c[1]..(c[2] - 1)
                 Sum[k \in (c[1] - 1)..(c[2] - 1)] == IF k < c[1] THEN 0 ELSE Sum[k - 1] + V(k) IN
             /\ acc' = [acc EXCEPT ![w] = @ + Sum[c[2] - 1]]
             /\ cnt' = [i \in 0..(N - 1) |-> IF i \in S THEN cnt[i] + 1 ELSE cnt[i]]
          /\ active' = [active EXCEPT ![w] = <<>>] /\ UNCHANGED <<batch, pending, phase>>
Reduce == /\ phase = "map" /\ pending = {} /\ \A w \in Workers : active[w] = <<>> /\ phase' = "done" /\ UNCHANGED <<batch, pending, active, acc, cnt>>
Next == Clear \/ (\E w \in Workers, c \in pending : Begin(w, c)) \/ (\E w \in Workers : End(w)) \/ Reduce
Spec == Init /\ [][Next]_vars
Total == LET S[W \in SUBSET Workers] == IF W = {} THEN 0 ELSE LET w == CHOOSE x \in W : TRUE IN acc[w] + S[W \ {w}] IN S[Workers]
EachSampleExactlyOnce == phase = "done" => \A i \in 0..(N - 1) : cnt[i] = 1
AtMostOnce == \A i \in 0..(N - 1) : cnt[i] <= 1
ResultIndependent == phase = "done" => Total = (N * (N + 1)) \div 2           \* whatever the workers, the chunk size, the schedule
==========================================================================================
