---------------------------------- MODULE ObjectiveTrace ----------------------------------
(* (E) TLC recomputes recorded evaluations of the real objectives on the lattice; (V) the partition of the samples seen by a      *)
(* recording loss and the invariance of the result under threads / batch size / caching (harness/objective_driver.cpp).           *)
EXTENDS Objective, Json, IOUtils
TraceLog == ndJsonDeserialize(IOEnv.TRACE)
VARIABLE l
Ev == TraceLog[l]
Is(e) == l <= Len(TraceLog) /\ Ev.e = e

Lin == /\ Is("Lin") /\ l' = l + 1
       /\ Ev.fxS = LinVal(Ev.loss, Ev.X, Ev.T, Ev.W, Ev.b, Ev.l1, Ev.l2)
       /\ Ev.gW = LinGradW(Ev.loss, Ev.X, Ev.T, Ev.W, Ev.b, Ev.l1, Ev.l2)
       /\ Ev.gb = LinGradB(Ev.loss, Ev.X, Ev.T, Ev.W, Ev.b)
       /\ Ev.valueOnlySame
Bias == /\ Is("Bias") /\ l' = l + 1 /\ Ev.fxS = BiasVal(Ev.loss, Ev.T, Ev.b) /\ Ev.g = BiasGrad(Ev.loss, Ev.T, Ev.b) /\ Ev.valueOnlySame
Scale == /\ Is("Scale") /\ l' = l + 1
         /\ Ev.fxS = ScaleVal(Ev.loss, Ev.T, Ev.S, Ev.Wo, Ev.cl, Ev.x) /\ Ev.g = ScaleGrad(Ev.loss, Ev.T, Ev.S, Ev.Wo, Ev.cl, Ev.x)
         /\ Ev.valueOnlySame
\* gradient objective: mean loss and the per-sample loss gradients (divided by n)
Grads == /\ Is("Grads") /\ l' = l + 1
         /\ Ev.fxS = SumSeq([i \in DOMAIN Ev.T |-> Loss2(Ev.loss, Ev.T[i], Ev.O[i])])
         /\ Ev.g = [i \in DOMAIN Ev.T |-> LossGrad(Ev.loss, Ev.T[i], Ev.O[i])]
\* one evaluation with a recording loss: every sample of the iterator is shown exactly once, every batch to a worker id < threads,
\* no two batches of the evaluation on the same worker id at the same time
Part == /\ Is("Part") /\ l' = l + 1
        /\ Ev.seen = Ev.expected                      \* sorted multiset of sample ids shown = the iterator's samples (sorted)
        /\ Ev.maxtnumOK /\ Ev.exclusiveOK /\ Ev.batchOK
\* same call with another number of threads / batch size / caching: bit-identical on the lattice, 1e-9 relative otherwise
Invar == /\ Is("Invar") /\ l' = l + 1 /\ (Ev.lattice => Ev.exactSame) /\ Ev.closeRel
\* the objectives against their definitions computed naively by the driver over the scaled, missing -> 0 samples (every loss, the four
\* scaling modes, cached / un-cached inputs and targets, any batch size and thread count): an environment predicate
\* againOK: the same function object evaluated again with its gradient at a second point and once more at the first one agrees with the
\* definition each time (nothing of an evaluation survives into the next one)
Naive == /\ Is("Naive") /\ l' = l + 1 /\ Ev.naiveOK /\ Ev.valueOnlySame /\ Ev.againOK
Next == Lin \/ Bias \/ Scale \/ Grads \/ Part \/ Invar \/ Naive
Init == l = 1
Spec == Init /\ [][Next]_l
Accepted == LET d == TLCGet("stats").diameter IN
            IF d - 1 = Len(TraceLog) THEN TRUE ELSE PrintT(<<"REJECTED_AT", d>>) /\ FALSE
===========================================================================================
