------------------------------------- MODULE Objective -------------------------------------
(* The definitions of the machine-learning objectives on the integer lattice (integer inputs, targets, weights, bias, l1, l2,    *)
(* cluster scales, weak-learner outputs): every quantity is an exact integer after scaling by the denominators.                  *)
(* Losses on the lattice: mse: L = (1/2) sum (o - t)^2, dL/do = o - t;  mae: L = sum |o - t|, dL/do = sign(o - t).                *)
(* property C09: linear objective = mean_i L(t_i, W x_i + b) + l1 mean|W| + (l2/2) mean(W^2); gboost bias / scale / gradient      *)
(* objectives = mean_i L(t_i, b), mean_i L(t_i, s_i + x[cluster_i] w_i) (unassigned samples unscaled), per-sample gradients.     *)
EXTENDS Integers, Sequences, FiniteSets, TLC

Dot(a, b) == LET F[k \in 0..Len(a)] == IF k = 0 THEN 0 ELSE F[k - 1] + a[k] * b[k] IN F[Len(a)]
SumSeq(a) == LET F[k \in 0..Len(a)] == IF k = 0 THEN 0 ELSE F[k - 1] + a[k] IN F[Len(a)]
Abs(v) == IF v < 0 THEN -v ELSE v
Sign(v) == IF v > 0 THEN 1 ELSE IF v < 0 THEN -1 ELSE 0
\* twice the loss of one sample (integral for both losses), and its gradient with respect to the outputs
Loss2(kind, t, o) == IF kind = "mse" THEN SumSeq([k \in DOMAIN t |-> (o[k] - t[k]) * (o[k] - t[k])])
                     ELSE 2 * SumSeq([k \in DOMAIN t |-> Abs(o[k] - t[k])])
LossGrad(kind, t, o) == IF kind = "mse" THEN [k \in DOMAIN t |-> o[k] - t[k]] ELSE [k \in DOMAIN t |-> Sign(o[k] - t[k])]

\* ---- linear model: outputs o_i = W x_i + b   (W: tsize x isize)
LinOut(W, b, x) == [t \in DOMAIN W |-> Dot(W[t], x) + b[t]]
Wsize(W) == Len(W) * Len(W[1])
SumAbsW(W) == SumSeq([t \in DOMAIN W |-> SumSeq([c \in DOMAIN W[t] |-> Abs(W[t][c])])])
SumSqW(W) == SumSeq([t \in DOMAIN W |-> Dot(W[t], W[t])])
\* 2 n |W| f(W, b)
LinVal(kind, X, T, W, b, l1, l2) ==
    LET n == Len(X) IN
    Wsize(W) * SumSeq([i \in 1..n |-> Loss2(kind, T[i], LinOut(W, b, X[i]))]) + 2 * n * l1 * SumAbsW(W) + n * l2 * SumSqW(W)
\* n |W| df/dW[t][c]  and  n df/db[t]
LinGradW(kind, X, T, W, b, l1, l2) ==
    LET n == Len(X) G == [i \in 1..n |-> LossGrad(kind, T[i], LinOut(W, b, X[i]))] IN
    [t \in DOMAIN W |-> [c \in DOMAIN W[t] |->
        Wsize(W) * SumSeq([i \in 1..n |-> G[i][t] * X[i][c]]) + n * l1 * Sign(W[t][c]) + n * l2 * W[t][c]]]
LinGradB(kind, X, T, W, b) ==
    LET n == Len(X) G == [i \in 1..n |-> LossGrad(kind, T[i], LinOut(W, b, X[i]))] IN
    [t \in DOMAIN W |-> SumSeq([i \in 1..n |-> G[i][t]])]
\* ---- gradient boosting
\* bias: 2 n f(b) and n df/db
BiasVal(kind, T, b) == SumSeq([i \in DOMAIN T |-> Loss2(kind, T[i], b)])
BiasGrad(kind, T, b) == [t \in DOMAIN b |-> SumSeq([i \in DOMAIN T |-> LossGrad(kind, T[i], b)[t]])]
\* scale: outputs s_i + x[cluster_i] w_i, unassigned samples (cluster -1) are not scaled (factor 0)
ScaleOut(S, Wo, cl, x, i) == [k \in DOMAIN S[i] |-> S[i][k] + (IF cl[i] < 0 THEN 0 ELSE x[cl[i] + 1]) * Wo[i][k]]
ScaleVal(kind, T, S, Wo, cl, x) == SumSeq([i \in DOMAIN T |-> Loss2(kind, T[i], ScaleOut(S, Wo, cl, x, i))])
ScaleGrad(kind, T, S, Wo, cl, x) ==
    [g \in DOMAIN x |-> SumSeq([i \in DOMAIN T |-> IF cl[i] = g - 1 THEN Dot(LossGrad(kind, T[i], ScaleOut(S, Wo, cl, x, i)), Wo[i]) ELSE 0])]
============================================================================================
