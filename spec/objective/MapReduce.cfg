CONSTANTS
  N = 5
  Workers = {0, 1, 2}
  Batches = {1, 2, 3, 5, 6}
SPECIFICATION Spec
INVARIANTS EachSampleExactlyOnce AtMostOnce ResultIndependent
CHECK_DEADLOCK FALSE
