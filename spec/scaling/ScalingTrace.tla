----------------------------------- MODULE ScalingTrace -----------------------------------
(* (E) TLC recomputes the recorded statistics and scaled values of lattice data (harness/scaling_driver.cpp).                      *)
EXTENDS Scaling, Json, IOUtils
TraceLog == ndJsonDeserialize(IOEnv.TRACE)
VARIABLE l
Ev == TraceLog[l]
Is(e) == l <= Len(TraceLog) /\ Ev.e = e
\* one dataset: cols[c] = raw column (Missing marker), kinds[c] in {"scalar", "class"}, stats[c], for every mode the scaled columns (x4)
Scale == /\ Is("Scale") /\ l' = l + 1
         /\ \A c \in DOMAIN Ev.cols :
              IF Ev.kinds[c] = "class"
                THEN /\ Ev.scaled4[c] = [i \in DOMAIN Ev.cols[c] |-> IF Ev.cols[c][i] = Missing THEN 0 ELSE 4 * Ev.cols[c][i]]    \* never rescaled
                     /\ Ev.stats[c].n >= 0
                ELSE /\ StatsOK(Ev.cols[c], Ev.stats[c])
                     /\ \A i \in DOMAIN Ev.cols[c] : ScaledOK(Ev.mode, Ev.cols[c], Ev.cols[c][i], Ev.scaled4[c][i])
         /\ Ev.upscaleInverts                      \* upscale(scale(x)) = x for all finite values, bit for bit on the lattice
         /\ Ev.rangeMeanDevOK                      \* advertised range / mean / deviation of the scaled columns
\* the affine up-scaling of integer weights and bias: raw-input predictions of the up-scaled model = up-scaled predictions on scaled inputs
Affine == /\ Is("Affine") /\ l' = l + 1 /\ Ev.predRaw = Ev.predUp /\ Ev.exactSame
\* real-valued data (1..300 rows x 1..20 columns, magnitudes 1e-6..1e6, arbitrary missing patterns, multi-output models): the driver's own
\* long-double statistics and tolerance comparisons (environment predicates)
\* tableOK: the continuous values are those of the driver's table at the listed samples (subsets, permutations, repetitions); targetStatsOK /
\* targetScalingOK: statistics of the targets against the driver's own, inversion and advertised range / mean / deviation of the scaled targets,
\* categorical targets untouched; featureStatsOK: the per-feature statistics are those of the feature's columns; cacheOK: a budget below the
\* need caches nothing
Float == /\ Is("Float") /\ l' = l + 1 /\ Ev.statsOK /\ Ev.roundtripOK /\ Ev.advertisedOK /\ Ev.categoricalOK /\ Ev.missingOK /\ Ev.affineOK /\ Ev.iteratorOK
         /\ Ev.tableOK /\ Ev.targetStatsOK /\ Ev.targetScalingOK /\ Ev.featureStatsOK /\ Ev.cacheOK
         /\ Ev.listed >= 1 /\ Ev.targetKind \in 0..2
Next == Scale \/ Affine \/ Float
Init == l = 1
Spec == Init /\ [][Next]_l
Accepted == LET d == TLCGet("stats").diameter IN
            IF d - 1 = Len(TraceLog) THEN TRUE ELSE PrintT(<<"REJECTED_AT", d>>) /\ FALSE
===========================================================================================
