------------------------------------- MODULE Scaling -------------------------------------
(* Per-column statistics and feature scaling (src/dataset/stats.cpp, include/nano/dataset/scaling.h) on a lattice where every     *)
(* statistic is exact: columns {m - s (a times), m, m + s (a times)} (integer m, s a power of two): mean m, range 2 s, sample       *)
(* standard deviation exactly s; constant, single-sample and all-missing columns; arbitrary missing patterns; categorical columns.  *)
(* Scaled values are multiples of 1/4 (logged times 4).                                                                             *)
(* property C14 (scoped): statistics ignore missing values; scale follows the advertised formula per mode; up-scaling inverts it;    *)
(* categorical columns are never rescaled; missing becomes zero; the affine up-scaling of a linear model is the same predictor.      *)
EXTENDS Integers, Sequences, FiniteSets, TLC
Missing == -999
Given(col) == {i \in DOMAIN col : col[i] # Missing}
SumOver(I, g(_)) == LET RECURSIVE S(_)
                        S(J) == IF J = {} THEN 0 ELSE LET j == CHOOSE x \in J : TRUE IN g(j) + S(J \ {j})
                    IN S(I)
N(col) == Cardinality(Given(col))
Sum1(col) == SumOver(Given(col), LAMBDA i : col[i])
Sum2(col) == SumOver(Given(col), LAMBDA i : col[i] * col[i])
MinOf(col) == IF Given(col) = {} THEN 0 ELSE CHOOSE v \in {col[i] : i \in Given(col)} : \A i \in Given(col) : v <= col[i]
MaxOf(col) == IF Given(col) = {} THEN 0 ELSE CHOOSE v \in {col[i] : i \in Given(col)} : \A i \in Given(col) : v >= col[i]
\* recorded statistics st = [n, min, max, meanN (mean times n), stdev] of a continuous column
StatsOK(col, st) ==
    /\ st.n = N(col) /\ st.min = MinOf(col) /\ st.max = MaxOf(col)
    /\ st.meanN = (IF N(col) = 0 THEN 0 ELSE Sum1(col))
    /\ IF N(col) > 1 THEN st.stdev * st.stdev * (N(col) - 1) * N(col) = N(col) * Sum2(col) - Sum1(col) * Sum1(col)     \* sample variance
       ELSE st.stdev = 0
\* 4 x scaled value of x under a mode, as a rational equation  scaled4 * den = 4 * num  (den > 0); degenerate columns: identity scale
ScaledOK(mode, col, x, scaled4) ==
    LET n == N(col) range == MaxOf(col) - MinOf(col) IN
    IF x = Missing THEN scaled4 = 0                                                  \* missing becomes zero
    ELSE CASE mode = "none" -> scaled4 = 4 * x
           [] mode = "mean" -> IF n > 1 /\ range > 0 THEN scaled4 * range * n = 4 * (x * n - Sum1(col))
                               ELSE IF n > 1 THEN scaled4 = 0                          \* constant column: x = mean
                               ELSE scaled4 = 4 * (x - (IF n = 0 THEN 0 ELSE Sum1(col)))
           [] mode = "minmax" -> IF n > 1 /\ range > 0 THEN scaled4 * range = 4 * (x - MinOf(col))
                                 ELSE IF n > 1 THEN scaled4 = 0
                                 ELSE scaled4 = 4 * (x - MinOf(col))
           [] mode = "standard" -> IF n > 1 /\ range > 0
                                     THEN \* scaled = (x - mean) / stdev:  scaled4^2 * var * n^2 = 16 (x n - sum)^2 with var (n-1) n = n sum2 - sum1^2
                                          /\ scaled4 * scaled4 * (n * Sum2(col) - Sum1(col) * Sum1(col)) * n = 16 * (x * n - Sum1(col)) * (x * n - Sum1(col)) * (n - 1)
                                          /\ (scaled4 >= 0 <=> x * n >= Sum1(col))
                                   ELSE IF n > 1 THEN scaled4 = 0
                                   ELSE scaled4 = 4 * (x - (IF n = 0 THEN 0 ELSE Sum1(col)))
==========================================================================================
