---------------------------------- MODULE InteriorPoint ----------------------------------
(* Status protocol of the primal-dual interior-point solver (src/program/solver.cpp, solve_with_inequality): the numerical     *)
(* kernel is an environment; every exit of the iteration goes through done() (which decides converged / unbounded / unfeasible   *)
(* from the feasibility and the residual test of the CURRENT state), through `failed`, or runs out of iterations.                *)
(* property C04 (design level): `converged` is only ever reported by done() on a state that is feasible with residuals below    *)
(* epsilon; a start that is not strictly feasible returns `unfeasible` without iterating; non-finite residuals give `failed`.    *)
EXTENDS Integers, TLC
CONSTANTS MaxIters
VARIABLES pc, iters, status, feasible, small, strict
vars == <<pc, iters, status, feasible, small, strict>>
Init == /\ pc = "start" /\ iters = 0 /\ status = "max_iters" /\ feasible \in BOOLEAN /\ small \in BOOLEAN /\ strict \in BOOLEAN
Start == /\ pc = "start"
         /\ IF strict THEN pc' = "loop" /\ UNCHANGED status ELSE pc' = "returned" /\ status' = "unfeasible"
         /\ UNCHANGED <<iters, feasible, small, strict>>
\* done(): the state's own feasibility and residuals decide
Done == status' = (IF feasible' /\ small' THEN "converged" ELSE IF feasible' THEN "unbounded" ELSE "unfeasible") /\ pc' = "returned"
Iter == /\ pc = "loop" /\ iters < MaxIters
        /\ \E outcome \in {"unstable", "ls1_exhausted", "ls2_exhausted_reverted", "ls2_exhausted", "nonfinite", "stagnated", "continue"} :
           \E f \in BOOLEAN, s \in BOOLEAN :
             CASE outcome \in {"unstable", "ls1_exhausted", "ls2_exhausted_reverted"} ->      \* the state was not moved (or moved back)
                    /\ UNCHANGED <<feasible, small>> /\ Done /\ UNCHANGED <<iters, strict>>
               [] outcome \in {"ls2_exhausted", "stagnated"} ->                              \* the state moved: new feasibility / residuals
                    /\ feasible' = f /\ small' = s /\ Done /\ iters' = iters + 1 /\ UNCHANGED strict
               [] outcome = "nonfinite" -> /\ feasible' = f /\ small' = FALSE /\ status' = "failed" /\ pc' = "returned"
                                           /\ iters' = iters + 1 /\ UNCHANGED strict
               [] outcome = "continue" -> /\ feasible' = f /\ small' = s /\ iters' = iters + 1 /\ UNCHANGED <<pc, status, strict>>
Exhausted == pc = "loop" /\ iters = MaxIters /\ pc' = "returned" /\ UNCHANGED <<iters, status, feasible, small, strict>>
Next == Start \/ Iter \/ Exhausted
Spec == Init /\ [][Next]_vars
ConvergedOnlyViaDone == (pc = "returned" /\ status = "converged") => (feasible /\ small)
UnfeasibleStartReturnsUnfeasible == (pc = "returned" /\ ~strict) => (status = "unfeasible" /\ iters = 0)
StatusInSet == status \in {"converged", "max_iters", "failed", "unfeasible", "unbounded"}
==========================================================================================
