CONSTANT MaxIters = 4
SPECIFICATION Spec
INVARIANTS ConvergedOnlyViaDone UnfeasibleStartReturnsUnfeasible StatusInSet
CHECK_DEADLOCK FALSE
