----------------------------------- MODULE ProgramTrace -----------------------------------
(* Validation of runs of the interior-point solver (harness/program_driver.cpp):                                                 *)
(*  - Small : small integer LPs (n <= 3, boxed) whose feasibility and optimum TLC decides exactly (LinProg.tla);                  *)
(*  - Kkt   : LPs / convex QPs with an optimum fixed by KKT construction; planted infeasible / unbounded programs;               *)
(*  - Pair  : equivalent restatements of one program (metamorphic).                                                              *)
(*  - Blocks: one program stated in one block and as several constraint blocks (make_less / make_greater / rows / matrices) in a   *)
(*            shuffled argument order.                                                                                            *)
(* Kkt records with m = 0 are programs without inequalities (the solver's direct KKT solve); label "interior" is a run from a      *)
(* generic strictly interior user start off the equalities.                                                                       *)
(* Tolerance comparisons on real data are the driver's (booleans); the status protocol and the exact small programs are TLC's.    *)
EXTENDS LinProg, Json, IOUtils
TraceLog == ndJsonDeserialize(IOEnv.TRACE)
VARIABLE l
Ev == TraceLog[l]
Is(e) == l <= Len(TraceLog) /\ Ev.e = e
Statuses == {"converged", "max_iters", "failed", "unfeasible", "unbounded"}
Abs(v) == IF v < 0 THEN -v ELSE v

Small == /\ Is("Small") /\ l' = l + 1 /\ Ev.status \in Statuses
         /\ IF ~Feasible(Ev.G, Ev.h)
              THEN Ev.status # "converged"                                                   \* never converged on an infeasible program
              ELSE Ev.status = "converged" =>
                     LET R == BestBasis(Ev.c, Ev.G, Ev.h) IN
                     /\ Abs(Ev.fx1000 * ObjDen(Ev.G, R) - 1000 * ObjNum(Ev.c, Ev.G, Ev.h, R)) <= 2 * ObjDen(Ev.G, R)   \* optimum within 2e-3 (exact arithmetic)
                     /\ Ev.feasOK /\ Ev.objOK /\ Ev.gapOK                                     \* the property's tolerances (driver, exact rational optimum)
Kkt == /\ Is("Kkt") /\ l' = l + 1 /\ Ev.status \in Statuses
       /\ (Ev.label \in {"optimal", "interior"} => (Ev.status = "converged" => (Ev.eqOK /\ Ev.ineqOK /\ Ev.objOK /\ Ev.gapOK)))
       /\ (Ev.label \in {"infeasible", "unbounded"} => Ev.status # "converged")
       /\ (Ev.label = "badstart" => (Ev.status = "unfeasible" /\ Ev.iters = 0))              \* start not strictly feasible
Pair == /\ Is("Pair") /\ l' = l + 1 /\ Ev.statusA \in Statuses /\ Ev.statusB \in Statuses
        /\ ((Ev.statusA = "converged" /\ Ev.statusB = "converged") => Ev.agree)
        /\ (Ev.statusB = "converged" => Ev.okB)                                               \* the restated program's own clauses
Blocks == /\ Is("Blocks") /\ l' = l + 1 /\ Ev.statusA \in Statuses /\ Ev.statusB \in Statuses
          /\ Ev.stackOK                                                                      \* the stated program has exactly the caller's rows
          /\ ((Ev.statusA = "converged" /\ Ev.statusB = "converged") => Ev.agree)
          /\ (Ev.statusB = "converged" => Ev.okB)                                             \* the clauses on the program stated in blocks
Next == Small \/ Kkt \/ Pair \/ Blocks
Init == l = 1
Spec == Init /\ [][Next]_l
Accepted == LET d == TLCGet("stats").diameter IN
            IF d - 1 = Len(TraceLog) THEN TRUE ELSE PrintT(<<"REJECTED_AT", d>>) /\ FALSE
===========================================================================================
