------------------------------------- MODULE LinProg -------------------------------------
(* Exact decision of small integer linear programs   min c.x  s.t.  G x <= h   (n <= 3 variables, the rows include a box so    *)
(* that the feasible set is a polytope): every vertex is the solution of n linearly independent active rows (Cramer's rule on     *)
(* integer determinants); feasibility of a vertex and the comparison of objective values are decided by cross-multiplication.     *)
EXTENDS Integers, Sequences, FiniteSets, SequencesExt, TLC

Det2(a, b, c, d) == a * d - b * c
\* determinant of the n x n matrix whose rows are M[1..n] (n = 1, 2, 3)
Det(M) == CASE Len(M) = 1 -> M[1][1]
            [] Len(M) = 2 -> Det2(M[1][1], M[1][2], M[2][1], M[2][2])
            [] Len(M) = 3 -> M[1][1] * Det2(M[2][2], M[2][3], M[3][2], M[3][3]) - M[1][2] * Det2(M[2][1], M[2][3], M[3][1], M[3][3])
                             + M[1][3] * Det2(M[2][1], M[2][2], M[3][1], M[3][2])
ReplaceCol(M, j, v) == [i \in DOMAIN M |-> [k \in DOMAIN M[i] |-> IF k = j THEN v[i] ELSE M[i][k]]]
Dot(a, b) == LET F[k \in 0..Len(a)] == IF k = 0 THEN 0 ELSE F[k - 1] + a[k] * b[k] IN F[Len(a)]
\* a candidate vertex: rows R (a set of n row indices); x = Num / Den componentwise
Rows(G, R) == LET s == SetToSortSeq(R, LAMBDA a, b : a < b) IN [i \in 1..Len(s) |-> G[s[i]]]
Rhs(h, R) == LET s == SetToSortSeq(R, LAMBDA a, b : a < b) IN [i \in 1..Len(s) |-> h[s[i]]]
Den(G, R) == Det(Rows(G, R))
Num(G, h, R) == [j \in 1..Len(G[1]) |-> Det(ReplaceCol(Rows(G, R), j, Rhs(h, R)))]
\* G x <= h at x = Num / Den:  (G_i . Num) <= h_i Den  for Den > 0, reversed for Den < 0
VertexFeasible(G, h, R) == LET d == Den(G, R) nm == Num(G, h, R) IN
    d # 0 /\ \A i \in DOMAIN G : IF d > 0 THEN Dot(G[i], nm) <= h[i] * d ELSE Dot(G[i], nm) >= h[i] * d
Bases(G) == {R \in SUBSET DOMAIN G : Cardinality(R) = Len(G[1])}
FeasibleBases(G, h) == {R \in Bases(G) : VertexFeasible(G, h, R)}
Feasible(G, h) == FeasibleBases(G, h) # {}
\* objective at a vertex as a fraction with positive denominator
ObjNum(c, G, h, R) == IF Den(G, R) > 0 THEN Dot(c, Num(G, h, R)) ELSE -Dot(c, Num(G, h, R))
ObjDen(G, R) == IF Den(G, R) > 0 THEN Den(G, R) ELSE -Den(G, R)
BestBasis(c, G, h) == CHOOSE R \in FeasibleBases(G, h) :
                         \A S \in FeasibleBases(G, h) : ObjNum(c, G, h, R) * ObjDen(G, S) <= ObjNum(c, G, h, S) * ObjDen(G, R)
==========================================================================================
