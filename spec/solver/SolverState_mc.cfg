CONSTANTS
  Vals = {0, 1, 2}
  Pts = {0, 1, 2}
  NF = 99
  MaxHist = 4
  Patiences = {1, 2, 3, 4, 5}
SPECIFICATION Spec
INVARIANTS TypeOK BestTracked GradientOfPoint ValueTestMeaning PatienceMonotone
PROPERTIES StrictOnly NonFiniteIgnored
CHECK_DEADLOCK FALSE
