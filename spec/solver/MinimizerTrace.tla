---------------------------------- MODULE MinimizerTrace ----------------------------------
(* The contract of a budgeted minimiser (C01 / C02) evaluated by TLC over executions recorded from the real solvers          *)
(* (harness/solver_driver.cpp).  The objective is wrapped by the driver in a counting function it owns: every evaluation is   *)
(* an event of the driver (never read from solver_state_t); `Iter` events come from the library's own logger lines.           *)
(* Runs of evaluations that are neither the first one nor a candidate for the returned point are aggregated (Evals).          *)
(* Numeric predicates (bit-equality with the recorded evaluation, the gradient test, the CG_DESCENT allowance, the accuracy   *)
(* bound for quadratics) are computed by the driver from the wrapper's records and enter as booleans / ranks.                 *)
EXTENDS Integers, Sequences, FiniteSets, TLC, Json, IOUtils

TraceLog == ndJsonDeserialize(IOEnv.TRACE)
VARIABLES l, cfg, nF, nG, seen, ret
vars == <<l, cfg, nF, nG, seen, ret>>
Ev == TraceLog[l]
Is(e) == l <= Len(TraceLog) /\ Ev.e = e
NoCfg == [solver |-> ""]
NoRet == [status |-> "none"]

Init == l = 1 /\ cfg = NoCfg /\ nF = 0 /\ nG = 0 /\ seen = <<>> /\ ret = NoRet
Reset == Is("Reset") /\ l' = l + 1 /\ cfg' = NoCfg /\ nF' = 0 /\ nG' = 0 /\ seen' = <<>> /\ ret' = NoRet
Start == /\ Is("Start") /\ cfg = NoCfg /\ l' = l + 1
         /\ cfg' = [solver |-> Ev.solver, ls |-> Ev.ls, n |-> Ev.n, maxEvals |-> Ev.maxEvals, budget |-> Ev.budget,
                    inClass |-> Ev.inClass, startOK |-> Ev.startOK, quad |-> Ev.quad]
         /\ UNCHANGED <<nF, nG, seen, ret>>
\* a run of evaluations (ids nF+1 .. nF+count), `ngrad` of them with gradient
Evals == /\ Is("Evals") /\ cfg # NoCfg /\ ret = NoRet /\ l' = l + 1 /\ Ev.count >= 1 /\ Ev.ngrad \in 0..Ev.count
         /\ nF' = nF + Ev.count /\ nG' = nG + Ev.ngrad /\ UNCHANGED <<cfg, seen, ret>>
\* one individually recorded evaluation
Eval == /\ Is("Eval") /\ cfg # NoCfg /\ ret = NoRet /\ l' = l + 1 /\ Ev.id = nF + 1
        /\ nF' = nF + 1 /\ nG' = nG + (IF Ev.grad THEN 1 ELSE 0)
        /\ seen' = seen @@ (Ev.id :> [grad |-> Ev.grad, finite |-> Ev.finite, frank |-> Ev.frank, gtest |-> Ev.gtest])
        /\ UNCHANGED <<cfg, ret>>
\* a logger line of the solver: the evaluation counts it reports never exceed the evaluations performed so far
Iter == /\ Is("Iter") /\ cfg # NoCfg /\ ret = NoRet /\ l' = l + 1
        /\ Ev.fcalls <= nF /\ Ev.gcalls <= nG
        /\ UNCHANGED <<cfg, nF, nG, seen, ret>>
Ret == /\ Is("Ret") /\ cfg # NoCfg /\ ret = NoRet /\ l' = l + 1
       /\ ret' = [status |-> Ev.status, id |-> Ev.id, fxEq |-> Ev.fxEq, gxEq |-> Ev.gxEq, fcalls |-> Ev.fcalls, gcalls |-> Ev.gcalls,
                  dimOK |-> Ev.dimOK, finite |-> Ev.finite, allowOK |-> Ev.allowOK, accOK |-> Ev.accOK]
       /\ UNCHANGED <<cfg, nF, nG, seen>>
Next == Reset \/ Start \/ Evals \/ Eval \/ Iter \/ Ret
Spec == Init /\ [][Next]_vars

Returned == ret # NoRet
\* ---- C02
DimOK == Returned => ret.dimOK
StatusInSet == Returned => ret.status \in {"converged", "max_iters", "failed"}
\* the returned point is one of the recorded evaluations, with that evaluation's value (and gradient for line-search solvers)
ValueIsOfReturnedPoint == Returned => (ret.id \in DOMAIN seen /\ ret.fxEq /\ (cfg.ls => ret.gxEq))
CountsNeverOverReport == Returned => (ret.fcalls <= nF /\ ret.gcalls <= nG)
FiniteUnlessFailed == (Returned /\ ret.status # "failed") => (ret.finite /\ (ret.id \in DOMAIN seen => seen[ret.id].finite))
\* not worse than the start (documented class, moderate start); CG_DESCENT's approximate Wolfe rule may add the logged allowance
NoWorseThanStart == (Returned /\ ret.status # "failed" /\ cfg.inClass /\ cfg.startOK /\ ret.id \in DOMAIN seen /\ 1 \in DOMAIN seen)
                        => (seen[ret.id].frank <= seen[1].frank \/ ret.allowOK)
\* the evaluations performed exceed the budget by at most one outer iteration (default line-search settings)
BudgetOvershoot == (cfg # NoCfg /\ cfg.budget) => nF + nG <= cfg.maxEvals + 1100 + 8 * cfg.n
\* ---- C01
ConvergedIsTruthful == (Returned /\ cfg.ls /\ ret.status = "converged" /\ ret.id \in DOMAIN seen) => seen[ret.id].gtest
\* well-conditioned quadratics with lbfgs / bfgs at epsilon = 1e-8: converged within 1500 evaluations, within the accuracy bound
QuadraticSolved == (Returned /\ cfg.quad) => (ret.status = "converged" /\ nF + nG <= 1500 /\ ret.accOK)
Accepted == LET d == TLCGet("stats").diameter IN
            IF d - 1 = Len(TraceLog) THEN TRUE ELSE PrintT(<<"REJECTED_AT", d>>) /\ FALSE
===========================================================================================
