SPECIFICATION Spec
INVARIANTS DimOK StatusInSet ValueIsOfReturnedPoint CountsNeverOverReport FiniteUnlessFailed NoWorseThanStart BudgetOvershoot ConvergedIsTruthful QuadraticSolved
POSTCONDITION Accepted
CHECK_DEADLOCK FALSE
