----------------------------------------------- MODULE SolverState -----------------------------------------------
(* The best-state tracker of the non-monotonic solvers: nano::solver_state_t (src/solver/state.cpp).                        *)
(*   Offer(p, v)  = update_if_better(x = p, fx = v): the point is taken over only on a STRICT decrease of a FINITE value;   *)
(*                  every call appends one (df, dx) entry to the improvement history (a non-finite value appends `lowest`). *)
(*   Set(p, v)    = update(x, gx, fx): unconditional move (the history is kept).                                            *)
(*   ValueTest(k) = value_test(patience = k), transcribed from the code (backward scan for the latest improving entry).     *)
(* One action per public mutator, the whole abstract state is observable (x, fx, the returned flag, value_test for every    *)
(* patience), so replaying every edge of TLC's graph on a real solver_state_t covers every history within the bounds.       *)
(* Values live on an integer lattice (exact doubles); NF stands for a non-finite offered value (NaN / +inf / -inf).         *)
EXTENDS Integers, Sequences, FiniteSets

CONSTANTS Vals, Pts, NF, MaxHist, Patiences
ASSUME NF \notin Vals

LOW == -1000000     \* std::numeric_limits<scalar_t>::lowest()
MAXV == 1000000     \* std::numeric_limits<scalar_t>::max()

VARIABLES x, fx,          \* the stored point and its value
          hist,           \* sequence of <<df, dx>>
          better,         \* the flag returned by the last call
          g,              \* the (point, value) pair the stored gradient was computed at
          stale,          \* ghost: a value-only offer (the two-argument overload) was accepted since the gradient was last stored
          offered         \* ghost: the (point, value) pairs a caller handed in since the last unconditional move
vars == <<x, fx, hist, better, g, stale, offered>>
Observable == <<x, fx, hist, better, g>>     \* VIEW of the replay configuration: the ghost is not part of the implementation state

Abs(a) == IF a < 0 THEN -a ELSE a
Max(a, b) == IF a > b THEN a ELSE b

Init == /\ x \in Pts /\ fx \in Vals /\ hist = <<>> /\ better = FALSE
        /\ offered = {<<x, fx>>} /\ g = <<x, fx>> /\ stale = FALSE

\* wg: the overload that also hands in the gradient at p
Offer(p, v, wg) ==
    /\ Len(hist) < MaxHist
    /\ IF v = NF
       THEN /\ hist' = Append(hist, <<LOW, LOW>>)
            /\ better' = FALSE
            /\ UNCHANGED <<x, fx, offered, g, stale>>
       ELSE LET df == fx - v
                dx == Abs(x - p)
            IN /\ hist' = Append(hist, <<df, dx>>)
               /\ better' = (df > 0)
               /\ IF df > 0 THEN x' = p /\ fx' = v ELSE UNCHANGED <<x, fx>>
               /\ IF df > 0 /\ wg THEN g' = <<p, v>> /\ stale' = FALSE
                  ELSE IF df > 0 THEN stale' = TRUE /\ UNCHANGED g
                  ELSE UNCHANGED <<g, stale>>
               /\ offered' = offered \cup {<<p, v>>}

Set(p, v) ==
    /\ v \in Vals
    /\ x' = p /\ fx' = v /\ better' = TRUE
    /\ offered' = {<<p, v>>} /\ g' = <<p, v>> /\ stale' = FALSE
    /\ UNCHANGED hist

Next == \E p \in Pts : (\E v \in Vals \cup {NF}, wg \in BOOLEAN : Offer(p, v, wg)) \/ (\E v \in Vals : Set(p, v))
Spec == Init /\ [][Next]_vars

\* --- value_test, as the code computes it (scan from the back for the latest entry with df > 0) ------------------------------
LastImproving(h) == LET I == {i \in 1..Len(h) : h[i][1] > 0} IN IF I = {} THEN 0 ELSE CHOOSE i \in I : \A j \in I : j <= i

ValueTestOf(h, k) ==
    LET n == Len(h)
        ii == LastImproving(h)          \* 1-based, 0 = none
    IN IF ii = 0 THEN (IF n >= k THEN 0 ELSE MAXV)
       ELSE IF (ii - 1) + k >= n THEN Max(h[ii][1], h[ii][2])
       ELSE 0
ValueTest(k) == ValueTestOf(hist, k)

\* --- what a solver relies on ------------------------------------------------------------------------------------------------
TypeOK == x \in Pts /\ fx \in Vals /\ Len(hist) <= MaxHist /\ better \in BOOLEAN

\* the stored pair is one the caller handed in, and no finite value handed in since the last unconditional move is smaller
BestTracked == /\ <<x, fx>> \in offered
               /\ \A o \in offered : fx <= o[2]

\* the stored gradient belongs to the stored point whenever the caller always handed gradients in (all solvers but OSGA do)
GradientOfPoint == stale \/ g = <<x, fx>>

\* ties keep the earlier point: the stored point only changes together with a strictly smaller value
StrictOnly == [][(x' # x /\ better' /\ hist' # hist) => fx' < fx]_vars

\* declarative reading of the stopping test: it signals "stalled" (0) exactly when `k` calls in a row brought no strict improvement,
\* and is otherwise positive (the size of the latest improvement, or `max` before anything was observed)
NoRecentImprovement(k) == Len(hist) >= k /\ \A i \in (Len(hist) - k + 1)..Len(hist) : hist[i][1] <= 0
ValueTestMeaning == \A k \in Patiences :
    /\ (ValueTest(k) = 0) <=> NoRecentImprovement(k)
    /\ ValueTest(k) >= 0
    /\ (ValueTest(k) # 0 /\ LastImproving(hist) # 0) =>
          ValueTest(k) = Max(hist[LastImproving(hist)][1], hist[LastImproving(hist)][2])

\* a non-finite offer never becomes the stored value and counts as "no improvement"
NonFiniteIgnored == [][(hist' # hist /\ hist'[Len(hist')] = <<LOW, LOW>>) => (x' = x /\ fx' = fx /\ ~better')]_vars

\* larger patience never stops earlier
PatienceMonotone == \A k1, k2 \in Patiences : (k1 <= k2 /\ ValueTest(k2) = 0) => ValueTest(k1) = 0
=====================================================================================================================
