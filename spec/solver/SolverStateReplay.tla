--------------------------------------------- MODULE SolverStateReplay ---------------------------------------------
(* SolverState.tla with the stopping test of every patience made a state variable, so that TLC's dumped state graph        *)
(* carries the value the real solver_state_t::value_test(k) must return in every state (checks/c02.py, state_driver).       *)
EXTENDS SolverState
VARIABLE vt
VT(h) == [k \in Patiences |-> ValueTestOf(h, k)]
RInit == Init /\ vt = VT(hist)
ROffer(p, v, wg) == Offer(p, v, wg) /\ vt' = VT(hist')
RSet(p, v) == Set(p, v) /\ vt' = VT(hist')
RNext == \E p \in Pts : (\E v \in Vals \cup {NF}, wg \in BOOLEAN : ROffer(p, v, wg)) \/ (\E v \in Vals : RSet(p, v))
RSpec == RInit /\ [][RNext]_<<vars, vt>>
RObservable == <<x, fx, hist, better, g>>
====================================================================================================================
