----------------------------------- MODULE SolverLoop -----------------------------------
(* The outer loops of the unconstrained solvers (src/solver/*.cpp) against an evaluation oracle.  Every evaluation is an  *)
(* environment choice: valid (finite value and gradient) or not, satisfying the gradient test or not, with a rank of its    *)
(* function value.  Two families:                                                                                           *)
(*   "ls"   line-search solvers (gd, cgd-*, lbfgs, quasi-Newton): cstate/pstate hand-over, done(cstate, iter_ok, converged) *)
(*          and the final `return cstate.valid() ? cstate : pstate`;                                                         *)
(*   "best" non-monotonic solvers tracking the best state with update_if_better (strict decrease only).                      *)
(* The status lives in the state object that is returned (solver_state_t::status), as in the code.                          *)
(* properties C01/C02 at design level: `converged` only on a state whose own evaluation passes the gradient test; the        *)
(* returned (x, f) pair is one evaluation; unless failed the returned state is valid; never worse than the start ("best").   *)
EXTENDS Integers, Sequences, TLC

CONSTANTS Family,      \* "ls" | "best"
          MaxEvals,    \* evaluation budget of the model
          MaxTrials,   \* maximal number of evaluations of one line-search
          Ranks        \* set of function-value ranks

VARIABLES ev,      \* sequence of evaluations: [valid, gtest, rank]
          c, p,    \* evaluation held by cstate / pstate ("ls"); c = best state ("best")
          sc, sp,  \* status stored in cstate / pstate
          pc, ret, rstatus
vars == <<ev, c, p, sc, sp, pc, ret, rstatus>>

Evals == [valid : BOOLEAN, gtest : BOOLEAN, rank : Ranks]
Init == /\ ev \in {<<e>> : e \in Evals} /\ c = 1 /\ p = 1 /\ sc = "max_iters" /\ sp = "max_iters"
        /\ pc = "first" /\ ret = 0 /\ rstatus = "none"
\* solver_t::done(state, iter_ok, converged)
DoneStatus(e, iterOK) == IF e.gtest \/ ~(iterOK /\ e.valid) THEN (IF e.gtest THEN "converged" ELSE "failed") ELSE "max_iters"
First == /\ pc = "first"
         /\ LET st == DoneStatus(ev[1], TRUE) IN
            /\ sc' = st /\ pc' = (IF st = "max_iters" THEN "loop" ELSE "return")
         /\ UNCHANGED <<ev, c, p, sp, ret, rstatus>>
\* one outer iteration of a line-search solver: pstate = cstate; lsearch.get(cstate, ...) evaluates 1..MaxTrials trial points
\* and leaves the last one in cstate, whatever it returns
IterLS == /\ Family = "ls" /\ pc = "loop" /\ Len(ev) < MaxEvals
          /\ \E k \in 1..MaxTrials, iterOK \in BOOLEAN : \E trials \in [1..k -> Evals] :
                /\ ev' = ev \o trials /\ p' = c /\ sp' = sc /\ c' = Len(ev) + k
                /\ LET st == DoneStatus(trials[k], iterOK) IN
                   /\ sc' = st /\ pc' = (IF st = "max_iters" THEN "loop" ELSE "return")
          /\ UNCHANGED <<ret, rstatus>>
\* one iteration of a best-state tracker: a new evaluation replaces the best one only on a strict decrease of a finite value
IterBest == /\ Family = "best" /\ pc = "loop" /\ Len(ev) < MaxEvals
            /\ \E e \in Evals, stop \in BOOLEAN :
                 /\ ev' = Append(ev, e)
                 /\ c' = IF e.valid /\ e.rank < ev[c].rank THEN Len(ev) + 1 ELSE c
                 /\ IF stop THEN sc' = DoneStatus([ev'[c'] EXCEPT !.gtest = TRUE], TRUE) /\ pc' = "return"    \* value-test convergence
                    ELSE UNCHANGED sc /\ pc' = "loop"
            /\ UNCHANGED <<p, sp, ret, rstatus>>
Budget == pc = "loop" /\ Len(ev) >= MaxEvals /\ pc' = "return" /\ UNCHANGED <<ev, c, p, sc, sp, ret, rstatus>>
\* "ls": return cstate.valid() ? cstate : pstate;   "best": return state
Return == /\ pc = "return" /\ pc' = "done"
          /\ IF Family = "ls" /\ ~ev[c].valid THEN ret' = p /\ rstatus' = sp ELSE ret' = c /\ rstatus' = sc
          /\ UNCHANGED <<ev, c, p, sc, sp>>
Next == First \/ IterLS \/ IterBest \/ Budget \/ Return
Spec == Init /\ [][Next]_vars

Returned == pc = "done"
StatusInSet == Returned => rstatus \in {"converged", "max_iters", "failed"}
ValueIsOfReturnedPoint == Returned => ret \in DOMAIN ev
ConvergedIsTruthful == (Returned /\ Family = "ls" /\ rstatus = "converged") => ev[ret].gtest
FiniteUnlessFailed == (Returned /\ rstatus # "failed" /\ ev[1].valid) => ev[ret].valid
NoWorseThanStart == (Returned /\ Family = "best" /\ ev[1].valid) => ev[ret].rank <= ev[1].rank
BudgetRespected == Len(ev) <= MaxEvals + MaxTrials
=========================================================================================
