CONSTANTS
  Vals = {0, 1, 2}
  Pts = {0, 1}
  NF = 99
  MaxHist = 3
  Patiences = {1, 2, 3, 4}
SPECIFICATION RSpec
VIEW RObservable
INVARIANTS TypeOK GradientOfPoint ValueTestMeaning PatienceMonotone
CHECK_DEADLOCK FALSE
