SPECIFICATION WSpec
INVARIANTS GradientOfPoint
POSTCONDITION Accepted
CHECK_DEADLOCK FALSE
