--------------------------------------------- MODULE SolverStateWeak ---------------------------------------------
(* What property C02 itself demands of the best-state tracker - a weakening of the actions of SolverState.tla.               *)
(* SolverState.tla transcribes the code (ties keep the earlier point, the exact stopping test); C02 only says that the        *)
(* returned triple is honest (the value and the gradient belong to the returned point), finite, and never worse than the      *)
(* start. A recorded call that deviates from SolverState.tla is judged with THIS module: a deviation it accepts (ties taken    *)
(* over, another stopping rule, ...) is recorded in the evidence as a deviation from the transcription and is not a            *)
(* violation of C02; a deviation it rejects is one.                                                                            *)
EXTENDS Integers, Sequences, Json, IOUtils, TLC
TraceLog == ndJsonDeserialize(IOEnv.TRACE)
VARIABLES l, x, fx, g, stale
vars == <<l, x, fx, g, stale>>
Ev == TraceLog[l]
Is(e) == l <= Len(TraceLog) /\ Ev.e = e

After == <<Ev.x, Ev.fx>>
Given == <<Ev.p, Ev.v>>
Common == /\ l' = l + 1 /\ Ev.valid                          \* finite point, value, gradient
          /\ \A k \in DOMAIN Ev.vt : Ev.vt[k] >= 0
          /\ x' = Ev.x /\ fx' = Ev.fx /\ g' = <<Ev.g[1], Ev.g[2]>>

WReset == /\ Is("Reset") /\ Common
          /\ stale' = (g' # After)
\* update_if_better: the stored pair is the old one or the offered one, never a worse value, never a non-finite one; the returned flag says
\* which; the stored gradient follows the stored point when the caller handed one in
WOffer == /\ Is("Offer") /\ Common
          /\ IF Ev.nf THEN After = <<x, fx>> /\ ~Ev.ret /\ g' = g /\ stale' = stale
             ELSE /\ After \in {<<x, fx>>, Given}
                  /\ Ev.fx <= fx
                  /\ Ev.ret => After = Given
                  /\ ~Ev.ret => (After = <<x, fx>> /\ g' = g /\ stale' = stale)
                  /\ Ev.ret => IF Ev.wg THEN g' = Given /\ stale' = FALSE
                               ELSE g' = g /\ stale' = (stale \/ g # Given)
\* update: unconditional move to the given triple
WSet == /\ Is("Set") /\ Common /\ After = Given /\ g' = Given /\ stale' = FALSE /\ Ev.ret
WNext == WReset \/ WOffer \/ WSet
WInit == l = 1 /\ x = 0 /\ fx = 0 /\ g = <<0, 0>> /\ stale = FALSE
WSpec == WInit /\ [][WNext]_vars
\* the gradient belongs to the stored point unless a value-only offer was taken over since it was stored
GradientOfPoint == stale \/ g = <<x, fx>>
Accepted == LET d == TLCGet("stats").diameter IN
            IF d - 1 = Len(TraceLog) THEN TRUE ELSE PrintT(<<"REJECTED_AT", d>>) /\ FALSE
==================================================================================================================
