CONSTANTS
  Family = "ls"
  MaxEvals = 5
  MaxTrials = 2
  Ranks = {0, 1}
SPECIFICATION Spec
INVARIANTS StatusInSet ValueIsOfReturnedPoint ConvergedIsTruthful FiniteUnlessFailed NoWorseThanStart BudgetRespected
CHECK_DEADLOCK FALSE
