--------------------------------------------- MODULE SolverStateTrace ---------------------------------------------
(* Long random call histories of a real nano::solver_state_t (harness/state_driver.cpp, mode `random`), validated against  *)
(* the actions of SolverState.tla: every recorded call must be the Offer / Set action with the recorded arguments, and the  *)
(* whole observable state after it (point, value, gradient tag, returned flag, value_test for patiences 1..K) must be the   *)
(* specification's successor state. The design invariants are evaluated in every state of the recorded history.             *)
EXTENDS SolverState, Json, IOUtils, TLC
TraceLog == ndJsonDeserialize(IOEnv.TRACE)
VARIABLE l
Ev == TraceLog[l]
Is(e) == l <= Len(TraceLog) /\ Ev.e = e

TVals == -100000..100000
TPts == -100000..100000
TPatiences == 1..12

Observed == /\ x' = Ev.x /\ fx' = Ev.fx /\ better' = Ev.ret
            /\ g' = <<Ev.g[1], Ev.g[2]>>
            /\ \A k \in 1..Len(Ev.vt) : ValueTestOf(hist', k) = Ev.vt[k]

TReset == /\ Is("Reset") /\ l' = l + 1
          /\ x' = Ev.x /\ fx' = Ev.fx /\ hist' = <<>> /\ better' = FALSE
          /\ g' = <<Ev.x, Ev.fx>> /\ stale' = FALSE /\ offered' = {<<Ev.x, Ev.fx>>}
          /\ Ev.g = <<Ev.x, Ev.fx>> /\ Ev.valid
          /\ \A k \in 1..Len(Ev.vt) : Ev.vt[k] = MAXV
TOffer == /\ Is("Offer") /\ l' = l + 1
          /\ Offer(Ev.p, IF Ev.nf THEN NF ELSE Ev.v, Ev.wg)
          /\ Observed /\ Ev.valid
TSet == /\ Is("Set") /\ l' = l + 1
        /\ Set(Ev.p, Ev.v)
        /\ Observed /\ Ev.valid
TNext == TReset \/ TOffer \/ TSet
TInit == l = 1 /\ x = 0 /\ fx = 0 /\ hist = <<>> /\ better = FALSE /\ g = <<0, 0>> /\ stale = FALSE /\ offered = {<<0, 0>>}
TSpec == TInit /\ [][TNext]_<<vars, l>>
Accepted == LET d == TLCGet("stats").diameter IN
            IF d - 1 = Len(TraceLog) THEN TRUE ELSE PrintT(<<"REJECTED_AT", d>>) /\ FALSE
===================================================================================================================
