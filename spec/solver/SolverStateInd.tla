------------------------------------------- MODULE SolverStateInd -------------------------------------------
(* Unbounded strengthening of SolverState.tla for Apalache: arbitrary integer points and values, arbitrarily long call          *)
(* histories, any patience >= 1. The history sequence is replaced by what value_test reads from it: the number of recorded     *)
(* calls `n`, the index `lastImp` of the latest improving one (0 = none) and its size `lastDD`; the set of offered pairs by      *)
(* its smallest value `lo`. IndInv is inductive (Init => IndInv, IndInv /\ Next => IndInv') and implies the clauses of C02       *)
(* that rest on the tracker: the stored value is the smallest finite value handed in since the last unconditional move, and     *)
(* the stopping test is 0 exactly when the last `Patience` calls brought no strict improvement.                                  *)
EXTENDS Integers

CONSTANTS
    \* @type: Int;
    Patience

ASSUME Patience >= 1

VARIABLES
    \* @type: Int;
    x,
    \* @type: Int;
    fx,
    \* @type: Int;
    n,
    \* @type: Int;
    lastImp,
    \* @type: Int;
    lastDD,
    \* @type: Int;
    since,
    \* @type: Int;
    lo,
    \* @type: Bool;
    better

MAXV == 1000000000
CInit == Patience \in Nat /\ Patience >= 1

Abs(a) == IF a < 0 THEN -a ELSE a
Max(a, b) == IF a > b THEN a ELSE b

Init == /\ x \in Int /\ fx \in Int /\ n = 0 /\ lastImp = 0 /\ lastDD = 0 /\ since = 0 /\ lo = fx /\ better = FALSE

\* update_if_better with a finite value
Offer(p, v) ==
    LET df == fx - v
        dx == Abs(x - p)
    IN /\ n' = n + 1
       /\ better' = (df > 0)
       /\ IF df > 0
          THEN x' = p /\ fx' = v /\ lastImp' = n + 1 /\ lastDD' = Max(df, dx) /\ since' = 0
          ELSE UNCHANGED <<x, fx, lastImp, lastDD>> /\ since' = since + 1
       /\ lo' = IF v < lo THEN v ELSE lo
\* update_if_better with a non-finite value
OfferNF == /\ n' = n + 1 /\ better' = FALSE /\ since' = since + 1 /\ UNCHANGED <<x, fx, lastImp, lastDD, lo>>
\* update
Set(p, v) == x' = p /\ fx' = v /\ lo' = v /\ better' = TRUE /\ UNCHANGED <<n, lastImp, lastDD, since>>

Next == (\E p \in Int, v \in Int : Offer(p, v) \/ Set(p, v)) \/ OfferNF

\* value_test(k) as the code computes it, on the summary of the history
ValueTest(k) == IF lastImp = 0 THEN (IF n >= k THEN 0 ELSE MAXV)
                ELSE IF (lastImp - 1) + k >= n THEN lastDD
                ELSE 0

IndInv ==
    /\ n >= 0 /\ 0 <= lastImp /\ lastImp <= n /\ better \in BOOLEAN
    /\ since = n - lastImp                    \* calls since the latest strict improvement (all of them when there was none)
    /\ (lastImp > 0 => lastDD > 0)
    /\ (lastImp = 0 => lastDD = 0)
    /\ fx = lo                                \* the stored value is the smallest finite value handed in since the last unconditional move

IndInit == /\ x \in Int /\ fx \in Int /\ n \in Int /\ lastImp \in Int /\ lastDD \in Int /\ since \in Int /\ lo \in Int /\ better \in BOOLEAN
           /\ IndInv

Safety == /\ fx = lo
          /\ ((ValueTest(Patience) = 0) <=> (since >= Patience))
          /\ ValueTest(Patience) >= 0
=============================================================================================================
