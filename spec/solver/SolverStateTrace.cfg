CONSTANTS
  Vals <- TVals
  Pts <- TPts
  NF = 999999
  MaxHist = 100000
  Patiences <- TPatiences
SPECIFICATION TSpec
INVARIANTS BestTracked GradientOfPoint ValueTestMeaning PatienceMonotone
POSTCONDITION Accepted
CHECK_DEADLOCK FALSE
