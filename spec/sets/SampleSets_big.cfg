CONSTANTS
  N = 5
  G = 3
  MaxSteps = 3
SPECIFICATION Spec
INVARIANTS GroupsPartitionAssigned CountsAgree TrainTestPartition
PROPERTIES TestingAccumulates
CHECK_DEADLOCK FALSE
