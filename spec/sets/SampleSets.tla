----------------------------------- MODULE SampleSets -----------------------------------
(* Two small bookkeeping objects every ML component relies on, as state machines:                                             *)
(*  - cluster_t (include/nano/machine/cluster.h): samples -> group (-1 = unassigned); assign, indices(group), count(group),    *)
(*    loop(group), also the constructor from an index list (everything listed goes to group 0);                                *)
(*  - the testing marks of datasource_t (src/datasource.cpp): testing(range) accumulates, no_testing() resets,                  *)
(*    train_samples() / test_samples() partition the samples in increasing order.                                              *)
(* Used under C10 (weak learners split samples with cluster_t) and C08 (every dataset view selects samples through these).      *)
EXTENDS Integers, Sequences, FiniteSets, SequencesExt, TLC

CONSTANTS N,        \* number of samples
          G,        \* number of groups
          MaxSteps  \* bound on the history

VARIABLES grp,      \* cluster: sample -> -1..ng-1
          ng,       \* number of groups of the cluster (1 when built from an index list)
          testing,  \* datasource: sample -> BOOLEAN
          steps
vars == <<grp, ng, testing, steps>>
Samples == 0..(N - 1)

\* the initial cluster is either empty or built from an index list (a subset in any order and with repetitions: group 0)
Init == /\ \E fromList \in BOOLEAN, S \in SUBSET Samples :
              /\ (fromList \/ S = {}) /\ ng = (IF fromList THEN 1 ELSE G)
              /\ grp = [s \in Samples |-> IF s \in S THEN 0 ELSE -1]
        /\ testing = [s \in Samples |-> FALSE] /\ steps = 0
Assign(s, g) == /\ steps < MaxSteps /\ g < ng /\ grp' = [grp EXCEPT ![s] = g] /\ steps' = steps + 1 /\ UNCHANGED <<testing, ng>>
MarkTesting(b, e) == /\ steps < MaxSteps /\ b <= e /\ testing' = [s \in Samples |-> testing[s] \/ (b <= s /\ s < e)]
                     /\ steps' = steps + 1 /\ UNCHANGED <<grp, ng>>
NoTesting(dummy) == /\ steps < MaxSteps /\ testing' = [s \in Samples |-> FALSE] /\ steps' = steps + 1 /\ UNCHANGED <<grp, ng>>
Next == \/ \E s \in Samples, g \in 0..(G - 1) : Assign(s, g)
        \/ \E b \in 0..N, e \in 0..N : MarkTesting(b, e)
        \/ \E dummy \in {0} : NoTesting(dummy)
Spec == Init /\ [][Next]_vars

\* ---- observations (what the public accessors must return)
Sorted(S) == SetToSortSeq(S, <)
Indices(g) == Sorted({s \in Samples : grp[s] = g})
Count(g) == Cardinality({s \in Samples : grp[s] = g})
TrainSamples == Sorted({s \in Samples : ~testing[s]})
TestSamples == Sorted({s \in Samples : testing[s]})

\* ---- properties of the design
GroupsPartitionAssigned == /\ \A g, h \in 0..(G - 1) : g # h => ToSet(Indices(g)) \cap ToSet(Indices(h)) = {}
                           /\ UNION {ToSet(Indices(g)) : g \in 0..(G - 1)} = {s \in Samples : grp[s] >= 0}
CountsAgree == \A g \in 0..(G - 1) : Count(g) = Len(Indices(g))
TrainTestPartition == /\ ToSet(TrainSamples) \cap ToSet(TestSamples) = {}
                      /\ ToSet(TrainSamples) \cup ToSet(TestSamples) = Samples
                      /\ Len(TrainSamples) + Len(TestSamples) = N
TestingAccumulates == [][\A b \in 0..N, e \in 0..N : MarkTesting(b, e) => \A s \in Samples : testing[s] => testing'[s]]_vars
==========================================================================================
