CONSTANTS
  N = 4
  G = 2
  MaxSteps = 3
SPECIFICATION Spec
INVARIANTS GroupsPartitionAssigned CountsAgree TrainTestPartition
PROPERTIES TestingAccumulates
CHECK_DEADLOCK FALSE
