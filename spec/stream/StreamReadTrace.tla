--------------------------------- MODULE StreamReadTrace ---------------------------------
(* Validation of deserialisation runs of the real readers (harness/stream_driver.cpp).  For every serialised object the *)
(* driver reads back every strict prefix (and the full stream, and streams with one altered tensor payload byte) through *)
(* a tracing std::streambuf.  Two kinds of records:                                                                      *)
(*   Obj/Rd/Out : byte-level read requests of one run (small objects): replayed against the istream semantics of         *)
(*                StreamRead.tla; the outcome must be a rejection for a strict prefix;                                    *)
(*   Outcomes   : the outcome of every prefix length 0..full of one object (all objects) and of every payload corruption. *)
EXTENDS Integers, Sequences, FiniteSets, TLC, Json, IOUtils

TraceLog == ndJsonDeserialize(IOEnv.TRACE)
VARIABLES l, full, len, pos, failed, nobj
vars == <<l, full, len, pos, failed, nobj>>
Ev == TraceLog[l]
Is(e) == l <= Len(TraceLog) /\ Ev.e = e
OK == 0     \* outcome codes: 0 = success, 1 = failed stream state, 2 = exception

Init == l = 1 /\ full = -1 /\ len = -1 /\ pos = 0 /\ failed = FALSE /\ nobj = 0
\* a run: Obj{kind, full, len}
Obj == /\ Is("Obj") /\ l' = l + 1 /\ Ev.len \in 0..Ev.full
       /\ full' = Ev.full /\ len' = Ev.len /\ pos' = 0 /\ failed' = FALSE /\ nobj' = nobj + 1
\* one request to the stream buffer: at the current position, never delivering more than what is available;
\* after a short delivery the stream is failed and nothing more may be delivered (istream sentry)
Rd == /\ Is("Rd") /\ full >= 0 /\ l' = l + 1
      /\ Ev.pos = pos /\ Ev.req >= 0
      /\ Ev.got = (IF Ev.req <= len - pos THEN Ev.req ELSE len - pos)
      /\ ~failed                                  \* no request reaches the buffer once a read came back short
      /\ pos' = pos + Ev.got /\ failed' = (Ev.got < Ev.req) /\ UNCHANGED <<full, len, nobj>>
Out == /\ Is("Out") /\ full >= 0 /\ l' = l + 1
       /\ Ev.consumed = pos
       /\ (len < full => Ev.outcome # OK)                                   \* PrefixNeverAccepted
       /\ (len = full => (Ev.outcome = OK /\ pos = full /\ Ev.same))      \* FullAccepted, SuccessConsumesAll, round trip
       /\ (failed => Ev.outcome # OK)
       /\ full' = -1 /\ len' = -1 /\ pos' = 0 /\ failed' = FALSE /\ UNCHANGED nobj
\* all prefix lengths of one object at once: outcomes[k + 1] is the outcome of reading the first k bytes
Outcomes == /\ Is("Outcomes") /\ l' = l + 1 /\ UNCHANGED <<full, len, pos, failed>> /\ nobj' = nobj + 1
            /\ Len(Ev.outcomes) = Ev.full + 1
            /\ \A k \in 1..Ev.full : Ev.outcomes[k] # OK
            /\ Ev.outcomes[Ev.full + 1] = OK /\ Ev.same /\ Ev.consumedAll
\* every single-byte alteration of the tensor payload bytes of one stream: flips[k] is the outcome for the k-th payload byte
Flips == /\ Is("Flips") /\ l' = l + 1 /\ UNCHANGED <<full, len, pos, failed, nobj>>
         /\ \A k \in DOMAIN Ev.outcomes : Ev.outcomes[k] # OK
\* two elements of a tensor payload exchanged (unequal ones): as any other alteration of the payload
Swaps == /\ Is("Swaps") /\ l' = l + 1 /\ UNCHANGED <<full, len, pos, failed, nobj>>
         /\ \A k \in DOMAIN Ev.outcomes : Ev.outcomes[k] # OK
\* tensor streams of format version 0 (hand-built by the driver; what = "Flips" or "Swaps"): an altered payload is read only if the
\* altered content collides under the old content hash (collides[k] = 1, computed by the driver with the old hash function)
FlipsV0 == /\ Is("FlipsV0") /\ l' = l + 1 /\ UNCHANGED <<full, len, pos, failed, nobj>>
           /\ Len(Ev.outcomes) = Len(Ev.collides)
           /\ \A k \in DOMAIN Ev.outcomes : Ev.outcomes[k] = OK => Ev.collides[k] = 1
\* the (major, minor, patch) fields of a configurable object altered to a newer version: the read fails (what the code does) or - the
\* property does not say that unknown versions are refused - yields the identical object; never something else silently
VersionFlips == /\ Is("VersionFlips") /\ l' = l + 1 /\ UNCHANGED <<full, len, pos, failed, nobj>>
                /\ \A k \in DOMAIN Ev.outcomes : Ev.outcomes[k] = OK => Ev.same[k] = 1
\* header bytes: detection is not promised, only the absence of a crash (the driver survives to log the record)
HeaderFlips == /\ Is("HeaderFlips") /\ l' = l + 1 /\ UNCHANGED <<full, len, pos, failed, nobj>> /\ Ev.survived
Next == Obj \/ Rd \/ Out \/ Outcomes \/ Flips \/ HeaderFlips \/ Swaps \/ FlipsV0 \/ VersionFlips
Spec == Init /\ [][Next]_vars
Accepted == LET d == TLCGet("stats").diameter IN
            IF d - 1 = Len(TraceLog) THEN TRUE ELSE PrintT(<<"REJECTED_AT", d>>) /\ FALSE
==========================================================================================
