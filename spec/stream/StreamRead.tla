----------------------------------- MODULE StreamRead -----------------------------------
(* Binary deserialisation (include/nano/core/stream.h, include/nano/tensor/stream.h and the read() members built on     *)
(* them): a reader is a program of field reads over a std::istream.  istream semantics: a read of n bytes delivers       *)
(* min(n, available) bytes, a short read sets failbit, once failbit is set nothing more is delivered.  Members either    *)
(* propagate the stream (state checked by the caller at the end) or are wrapped in critical(!read(...)) which throws.     *)
(* A length field that was read short yields a garbage length (any value) for the fields that depend on it.               *)
(*                                                                                                                        *)
(* property C15 (second sentence): a strict prefix of a valid stream is never accepted; altered payload bytes are         *)
(* rejected by the stored hash.  Design-level reading: with a reader that mirrors the writer (Symmetric) this holds for   *)
(* every field program; a reader that skips a field the writer wrote (the typical regression) violates it.                *)
EXTENDS Integers, Sequences, TLC

CONSTANTS MaxFields,   \* maximal number of fields written
          Sizes,       \* possible field sizes in bytes
          Symmetric    \* BOOLEAN: the reader's program is the writer's; FALSE: the reader may stop one field early

VARIABLES prog,     \* writer's program: sequence of [size, checked, hashed]
          nread,    \* how many fields the reader's program has
          len,      \* number of bytes available (a prefix of the full stream)
          corrupt,  \* BOOLEAN: a payload byte of a hashed field was altered (full-length stream)
          pc,       \* index of the next field to read
          pos, failed, outcome
vars == <<prog, nread, len, corrupt, pc, pos, failed, outcome>>

Field == [size : Sizes, checked : BOOLEAN, hashed : BOOLEAN]
RECURSIVE Sum(_, _)
Sum(p, k) == IF k = 0 THEN 0 ELSE p[k].size + Sum(p, k - 1)
Full == Sum(prog, Len(prog))

Init == /\ prog \in UNION {[1..n -> Field] : n \in 1..MaxFields}
        /\ nread \in (IF Symmetric THEN {Len(prog)} ELSE {Len(prog), Len(prog) - 1})
        /\ len \in 0..Sum(prog, Len(prog)) /\ corrupt \in BOOLEAN
        /\ (corrupt => len = Sum(prog, Len(prog)) /\ \E i \in DOMAIN prog : prog[i].hashed)
        /\ pc = 1 /\ pos = 0 /\ failed = FALSE /\ outcome = "running"
\* one field: stream.read(n) (+ hash comparison for tensors) (+ critical(!...))
ReadField == /\ outcome = "running" /\ pc <= nread
             /\ LET f == prog[pc]
                    got == IF failed THEN 0 ELSE IF f.size <= len - pos THEN f.size ELSE len - pos
                    bad == failed \/ got < f.size \/ (f.hashed /\ corrupt)        \* short read or hash mismatch: failbit
                IN /\ pos' = pos + got /\ failed' = bad
                   /\ outcome' = IF bad /\ f.checked THEN "throw" ELSE "running"
             /\ pc' = pc + 1 /\ UNCHANGED <<prog, nread, len, corrupt>>
\* the caller looks at the stream state
Finish == /\ outcome = "running" /\ pc > nread
          /\ outcome' = IF failed THEN "fail" ELSE "ok"
          /\ UNCHANGED <<prog, nread, len, corrupt, pc, pos, failed>>
Next == ReadField \/ Finish
Spec == Init /\ [][Next]_vars

Done == outcome # "running"
PrefixNeverAccepted == (Done /\ len < Full) => outcome # "ok"
CorruptionRejected == (Done /\ corrupt) => outcome # "ok"
FullAccepted == (Done /\ len = Full /\ ~corrupt) => outcome = "ok"
SuccessConsumesAll == outcome = "ok" => pos = Full
NeverBeyondAvailable == pos <= len
========================================================================================
