CONSTANTS
  MaxFields = 4
  Sizes = {1, 2}
  Symmetric = TRUE
SPECIFICATION Spec
INVARIANTS PrefixNeverAccepted CorruptionRejected FullAccepted SuccessConsumesAll NeverBeyondAvailable
CHECK_DEADLOCK FALSE
