CONSTANTS
  MaxFields = 4
  Sizes = {1, 2}
  Symmetric = FALSE
SPECIFICATION Spec
INVARIANTS PrefixNeverAccepted CorruptionRejected FullAccepted SuccessConsumesAll NeverBeyondAvailable
CHECK_DEADLOCK FALSE
