// C16 conformance driver: performs every view operation on real tensors whose buffer holds its own flat indices and
// records (offset, dimensions, elements read through the view, where a write through the view arrives) for re-computation by TLC
// (TensorTrace.tla): partial-index views, slices, reshapes, views of views, gathers, storage conversions, integral, remove_if, stack.
//   tensor_driver <out.ndjson> <seed> <maxdim-rank4> <maxdim-rank5> <random-cases>
#include <algorithm>
#include <limits>
#include "trace.h"
#include <nano/tensor.h>
#include <nano/tensor/algorithm.h>
#include <nano/tensor/integral.h>
#include <nano/tensor/stack.h>

using namespace nano;

namespace
{
template <size_t trank>
std::vector<int64_t> vdims(const tensor_dims_t<trank>& dims)
{
    return std::vector<int64_t>(dims.begin(), dims.end());
}

// all elements of a view read by full indexing in lexicographic order (through operator()(i, j, ...))
template <class tview, size_t tdepth = 0, class... tidx>
void read_all(const tview& view, std::vector<int64_t>& out, int64_t& sum, tidx... idx)
{
    if constexpr (sizeof...(idx) == tview::rank())
    {
        const auto v = static_cast<int64_t>(view(idx...));
        out.push_back(v);
        sum += v % 1000;
    }
    else
    {
        for (tensor_size_t i = 0; i < view.template size<sizeof...(idx)>(); ++i)
        {
            read_all(view, out, sum, idx..., i);
        }
    }
}

template <class troot, class tview>
vt::J view_event(const char* e, const troot& root, const tview& view, bool always_full = false)
{
    std::vector<int64_t> elems;
    int64_t              sum = 0;
    read_all(view, elems, sum);
    const auto full = always_full || elems.size() <= 64;
    const auto off  = view.data() - root.data();
    vt::J      j(e);
    j.a("d", vdims(root.dims())).i("off", view.size() == 0 && view.data() == nullptr ? 0 : off).a("dims", vdims(view.dims())).i(
        "count", static_cast<int64_t>(elems.size()));
    j.b("inside", view.size() == 0 || (off >= 0 && off + view.size() <= root.size()));
    j.b("full", full);
    if (full)
    {
        j.a("elems", elems);
    }
    j.i("sum", sum);
    return j;
}

template <class tscalar, size_t trank>
auto make_root(const tensor_dims_t<trank>& dims)
{
    tensor_mem_t<tscalar, trank> root(dims);
    for (tensor_size_t i = 0; i < root.size(); ++i)
    {
        root(i) = static_cast<tscalar>(i);
    }
    return root;
}

// ---- writes through mutable views: the k-th element of the view (lexicographic order of its own indices) receives a marker that
// encodes k and differs from every flat index (negative for signed scalars, >= size for unsigned ones); the root is then scanned
// element by element: `wn` = number of root elements that changed, `wland[k]` = the flat position where marker k arrived.
template <class tscalar>
tscalar marker(const int64_t k, const int64_t size)
{
    if constexpr (std::is_unsigned_v<tscalar>)
    {
        return static_cast<tscalar>(size + k);
    }
    else
    {
        return static_cast<tscalar>(-(k + 1));
    }
}

template <class tscalar, class tview, class... tidx>
void write_all(tview& view, int64_t& k, const int64_t size, tidx... idx)
{
    if constexpr (sizeof...(idx) == tview::rank())
    {
        view(idx...) = marker<tscalar>(k++, size);
    }
    else
    {
        for (tensor_size_t i = 0; i < view.template size<sizeof...(idx)>(); ++i)
        {
            write_all<tscalar>(view, k, size, idx..., i);
        }
    }
}

template <class tscalar, class tview>
void write_view(tview view, const int64_t size)
{
    int64_t k = 0;
    if constexpr (is_eigen_v<tview>)
    {
        for (tensor_size_t r = 0; r < view.rows(); ++r)
        {
            for (tensor_size_t c = 0; c < view.cols(); ++c)
            {
                view(r, c) = marker<tscalar>(k++, size);
            }
        }
    }
    else
    {
        static_assert(!tview::resizable, "a view, not an owning copy");
        write_all<tscalar>(view, k, size);
    }
}

template <class tscalar, class troot, class tview>
void add_write(vt::J& j, troot& root, tview view, const int64_t count, const bool full)
{
    const auto size = static_cast<int64_t>(root.size());
    write_view<tscalar>(view, size);
    std::vector<int64_t> landing(static_cast<size_t>(count), -1);
    int64_t              wn  = 0;
    bool                 bad = false;
    for (tensor_size_t i = 0; i < size; ++i)
    {
        const tscalar v = root(i);
        if (v != static_cast<tscalar>(i))
        {
            ++wn;
            int64_t k = 0;
            if constexpr (std::is_unsigned_v<tscalar>)
            {
                k = static_cast<int64_t>(v) - size;
            }
            else
            {
                k = -static_cast<int64_t>(v) - 1;
            }
            if (k >= 0 && k < count && landing[static_cast<size_t>(k)] < 0)
            {
                landing[static_cast<size_t>(k)] = i;
            }
            else
            {
                bad = true;
            }
            root(i) = static_cast<tscalar>(i); // restore
        }
    }
    j.i("wn", wn);
    if (full)
    {
        j.a("wland", landing);
    }
    else
    {
        bool contig = !bad;
        for (size_t k = 0; contig && k + 1 < landing.size(); ++k)
        {
            contig = landing[k + 1] == landing[k] + 1;
        }
        j.i("wfirst", landing.empty() ? 0 : landing[0]).b("wcontig", contig);
    }
}

// a view read through its constant form and written through its mutable form
template <class tscalar, class troot, class tcview, class tmview>
vt::J rw_event(const char* e, troot& root, const tcview& cview, tmview mview)
{
    auto j = view_event(e, root, cview);
    add_write<tscalar>(j, root, mview, static_cast<int64_t>(cview.size()), cview.size() <= 64);
    return j;
}

// Eigen vector / matrix maps: elements in row-major order
template <class tscalar, class troot, class tcview, class tmview>
vt::J eigen_rw_event(const char* e, troot& root, const tcview& cview, tmview mview, const std::vector<int64_t>& vdims_)
{
    std::vector<int64_t> elems;
    int64_t              sum = 0;
    for (tensor_size_t r = 0; r < cview.rows(); ++r)
    {
        for (tensor_size_t c = 0; c < cview.cols(); ++c)
        {
            elems.push_back(static_cast<int64_t>(cview(r, c)));
            sum += static_cast<int64_t>(cview(r, c)) % 1000;
        }
    }
    const auto full = elems.size() <= 64;
    const auto off  = cview.size() == 0 && cview.data() == nullptr ? 0 : cview.data() - root.data();
    vt::J      j(e);
    j.a("d", vdims(root.dims())).i("off", off).a("dims", vdims_).i("count", cview.size());
    j.b("inside", cview.size() == 0 || (off >= 0 && off + cview.size() <= root.size())).b("full", full);
    if (full)
    {
        j.a("elems", elems);
    }
    j.i("sum", sum);
    add_write<tscalar>(j, root, mview, static_cast<int64_t>(cview.size()), full);
    return j;
}

// offsets of all index tuples in lexicographic order
template <class troot, class... tidx>
void offsets(const troot& root, std::vector<int64_t>& offs, tidx... idx)
{
    if constexpr (sizeof...(idx) == troot::rank())
    {
        offs.push_back(&root(idx...) - root.data());
    }
    else
    {
        for (tensor_size_t i = 0; i < root.template size<sizeof...(idx)>(); ++i)
        {
            offsets(root, offs, idx..., i);
        }
    }
}

// every valid prefix (partial index) of length 1..rank-1: tensor(prefix), vector(prefix), matrix(prefix of length rank-2)
template <class tscalar, class troot, class... tidx>
void prefixes(troot& root, const troot& croot, tidx... idx)
{
    constexpr auto n = sizeof...(idx);
    if constexpr (n >= 1 && n < troot::rank())
    {
        std::vector<int64_t> prefix{static_cast<int64_t>(idx)...};
        // NB: every view is read through the constant overload and written through the mutable overload of the same call
        vt::put(rw_event<tscalar>("Sub", root, croot.tensor(idx...), root.tensor(idx...)).s("kind", "tensor").a("prefix", prefix));
        {
            // Eigen vector map of the remaining dimensions
            const auto           vec = croot.vector(idx...);
            std::vector<int64_t> elems;
            int64_t              sum = 0;
            for (tensor_size_t i = 0; i < vec.size(); ++i)
            {
                elems.push_back(static_cast<int64_t>(vec(i)));
                sum += static_cast<int64_t>(vec(i)) % 1000;
            }
            const auto full = elems.size() <= 64;
            const auto off  = vec.data() - root.data();
            vt::J      j("Sub");
            j.a("d", vdims(root.dims())).i("off", off).a("dims", std::vector<int64_t>{static_cast<int64_t>(vec.size())}).i("count", vec.size());
            j.b("inside", vec.size() == 0 || (off >= 0 && off + vec.size() <= root.size())).b("full", full);
            if (full)
            {
                j.a("elems", elems);
            }
            j.i("sum", sum).s("kind", "vector").a("prefix", prefix);
            add_write<tscalar>(j, root, root.vector(idx...), static_cast<int64_t>(vec.size()), full);
            vt::put(j);
        }
        if constexpr (n + 2 == troot::rank())
        {
            const auto           mat = croot.matrix(idx...);
            std::vector<int64_t> elems;
            int64_t              sum = 0;
            for (tensor_size_t r = 0; r < mat.rows(); ++r)
            {
                for (tensor_size_t c = 0; c < mat.cols(); ++c)
                {
                    elems.push_back(static_cast<int64_t>(mat(r, c)));
                    sum += static_cast<int64_t>(mat(r, c)) % 1000;
                }
            }
            const auto full = elems.size() <= 64;
            const auto off  = mat.data() - root.data();
            vt::J      j("Sub");
            j.a("d", vdims(root.dims())).i("off", off).a("dims", std::vector<int64_t>{mat.rows(), mat.cols()}).i("count", mat.size());
            j.b("inside", mat.size() == 0 || (off >= 0 && off + mat.size() <= root.size())).b("full", full);
            if (full)
            {
                j.a("elems", elems);
            }
            j.i("sum", sum).s("kind", "matrix").a("prefix", prefix);
            add_write<tscalar>(j, root, root.matrix(idx...), static_cast<int64_t>(mat.size()), full);
            vt::put(j);
        }
    }
    if constexpr (n + 1 < troot::rank())
    {
        for (tensor_size_t i = 0; i < root.template size<n>(); ++i)
        {
            prefixes<tscalar>(root, croot, idx..., i);
        }
    }
}

template <class tin, class tout, size_t trank>
void integral_case(const tensor_dims_t<trank>& dims, vt::Rng& rng, int64_t magnitude, const char* types)
{
    tensor_mem_t<tin, trank>  input(dims);
    tensor_mem_t<tout, trank> output(dims);
    std::vector<int64_t>      in, out;
    for (tensor_size_t i = 0; i < input.size(); ++i)
    {
        input(i) = static_cast<tin>(std::is_unsigned_v<tin> ? rng.range(0, magnitude) : rng.range(-magnitude, magnitude));
        in.push_back(static_cast<int64_t>(input(i)));
    }
    integral(input, output);
    for (tensor_size_t i = 0; i < output.size(); ++i)
    {
        out.push_back(static_cast<int64_t>(output(i)));
    }
    vt::put(vt::J("Integral").s("types", types).a("d", vdims(dims)).a("input", in).a("output", out));
}

template <class tscalar, size_t trank>
void shape_case(const tensor_dims_t<trank>& dims, vt::Rng& rng, bool exhaustive)
{
    // the buffer holds its own flat indices, which identify the elements a view addresses: one-byte scalars cannot hold more than 127
    if constexpr (sizeof(tscalar) == 1)
    {
        if (::nano::size(dims) > 127)
        {
            shape_case<int16_t, trank>(dims, rng, exhaustive);
            return;
        }
    }
    auto        root  = make_root<tscalar, trank>(dims);
    const auto& croot = root;

    if (exhaustive)
    {
        std::vector<int64_t> offs;
        offsets(croot, offs);
        vt::put(vt::J("Offsets").a("d", vdims(dims)).a("offs", offs).s("type", typeid(tscalar).name()));
        prefixes<tscalar>(root, croot);
    }
    // slices [b, e) along the first axis
    const auto n0 = dims[0];
    for (tensor_size_t b = 0; b <= n0; ++b)
    {
        for (tensor_size_t e = b; e <= n0; ++e)
        {
            if (exhaustive || rng.coin(1, std::max<int>(1, static_cast<int>(n0 * n0 / 16))))
            {
                // alternately through slice(begin, end) and slice(range); read through the constant, written through the mutable overload
                static int64_t islice = 0;
                if ((islice++) % 2 == 0)
                {
                    vt::put(rw_event<tscalar>("Slice", root, croot.slice(b, e), root.slice(b, e)).i("b", b).i("en", e).s("via", "begin,end"));
                }
                else
                {
                    const auto range = make_range(b, e);
                    vt::put(rw_event<tscalar>("Slice", root, croot.slice(range), root.slice(range)).i("b", b).i("en", e).s("via", "range"));
                }
            }
        }
    }
    // reshapes: to rank 1, 2, 3, 4 with explicit dimensions and one inferred dimension at every position
    // NB: an inferred dimension next to a zero-sized one is ambiguous (0/0): not a valid access
    const auto size = root.size();
    const auto reshape = [&](auto... sizes)
    {
        vt::put(rw_event<tscalar>("Reshape", root, croot.reshape(sizes...), root.reshape(sizes...)).a("nd", std::vector<int64_t>{sizes...}));
    };
    reshape(size);
    reshape(tensor_size_t{-1});
    for (tensor_size_t a = 1; a <= std::max<tensor_size_t>(size, 1) && a <= 64; ++a)
    {
        if (size % a != 0)
        {
            continue;
        }
        reshape(a, size / a);
        reshape(a, tensor_size_t{-1});
        reshape(tensor_size_t{-1}, a);
        const auto rest = size / a;
        for (tensor_size_t b = 1; b <= std::max<tensor_size_t>(rest, 1) && b <= 16; ++b)
        {
            if (rest % b != 0)
            {
                continue;
            }
            const auto c = rest / b;
            static int64_t iform = 0; // the position of the inferred dimension rotates over the records
            if (exhaustive || rng.coin(1, 3))
            {
                reshape(a, b, c);
                if (c != 0)
                {
                    reshape(a, tensor_size_t{-1}, c);
                }
                if ((iform++) % 2 == 0 || c == 0)
                {
                    reshape(a, b, tensor_size_t{-1});
                }
                else
                {
                    reshape(tensor_size_t{-1}, b, c);
                }
            }
            // rank 4: every factorisation of small tensors, a sample of the larger ones
            for (tensor_size_t c4 = 1; c4 <= std::max<tensor_size_t>(c, 1) && c4 <= 8; ++c4)
            {
                if (c % c4 != 0 || !(size <= 24 ? exhaustive : rng.coin(1, exhaustive ? 12 : 30)))
                {
                    continue;
                }
                const auto e4 = c / c4;
                switch (e4 != 0 ? (iform++) % 5 : (iform++) % 2)
                {
                case 0: reshape(a, b, c4, e4); break;
                case 1: reshape(a, b, c4, tensor_size_t{-1}); break;
                case 2: reshape(tensor_size_t{-1}, b, c4, e4); break;
                case 3: reshape(a, tensor_size_t{-1}, c4, e4); break;
                default: reshape(a, b, tensor_size_t{-1}, e4); break;
                }
            }
        }
    }
    // a zero-sized dimension in the leading positions of the target (the loops above start at 1)
    if (size == 0)
    {
        reshape(tensor_size_t{0}, tensor_size_t{3});
        reshape(tensor_size_t{2}, tensor_size_t{0}, tensor_size_t{5}, tensor_size_t{1});
        reshape(tensor_size_t{0}, tensor_size_t{0}, tensor_size_t{0}, tensor_size_t{0});
    }
    // views of views: a slice of a map, a slice of a slice, a reshape of a slice, a sub-tensor of a slice, a reshape / slice / sub-tensor of
    // a sub-tensor, a slice of a reshape ... (`ops`: [0, b, e] = slice, [1, i...] = tensor(i...), [2, sizes...] = reshape, [3, i...] =
    // vector(i...), [4, i...] = matrix(i...)); read through the constant chain, written through the mutable chain
    for (int rep = 0; rep < (exhaustive ? 1 : 3); ++rep)
    {
        using ops_t   = std::vector<std::vector<int64_t>>;
        const auto b  = rng.range(0, n0), e = rng.range(b, n0);
        const auto b2 = rng.range(0, e - b), e2 = rng.range(b2, e - b);
        tensor_map_t<tscalar, trank>  map  = root;
        tensor_cmap_t<tscalar, trank> cmap = croot;
        vt::put(rw_event<tscalar>("Chain", root, cmap.slice(b, e), map.slice(b, e)).aa("ops", ops_t{{0, b, e}}));
        vt::put(rw_event<tscalar>("Chain", root, croot.slice(b, e).slice(b2, e2), root.slice(b, e).slice(b2, e2)).aa("ops", ops_t{{0, b, e}, {0, b2, e2}}));
        vt::put(rw_event<tscalar>("Chain", root, cmap.slice(b, e).reshape(-1), map.slice(make_range(b, e)).reshape(-1)).aa("ops", ops_t{{0, b, e}, {2, -1}}));
        {
            const auto bs = rng.range(0, size), es = rng.range(bs, size);
            vt::put(rw_event<tscalar>("Chain", root, croot.reshape(-1).slice(bs, es), root.reshape(-1).slice(bs, es)).aa("ops", ops_t{{2, -1}, {0, bs, es}}));
            if (es > bs)
            {
                vt::put(rw_event<tscalar>("Chain", root, croot.reshape(-1).slice(bs, es).reshape(1, -1, 1), root.reshape(-1).slice(bs, es).reshape(1, -1, 1)).aa(
                    "ops", ops_t{{2, -1}, {0, bs, es}, {2, 1, -1, 1}}));
                const auto i = rng.range(0, es - bs - 1);
                vt::put(rw_event<tscalar>("Chain", root, croot.reshape(-1).slice(bs, es).reshape(-1, 1).tensor(i), root.reshape(-1).slice(bs, es).reshape(-1, 1).tensor(i)).aa(
                    "ops", ops_t{{2, -1}, {0, bs, es}, {2, -1, 1}, {1, i}}));
            }
        }
        if constexpr (trank > 1)
        {
            if (e > b)
            {
                const auto i = rng.range(0, e - b - 1);
                vt::put(rw_event<tscalar>("Chain", root, croot.slice(b, e).tensor(i), root.slice(b, e).tensor(i)).aa("ops", ops_t{{0, b, e}, {1, i}}));
                vt::put(rw_event<tscalar>("Chain", root, cmap.slice(b, e).reshape(e - b, -1), map.slice(b, e).reshape(e - b, -1)).aa("ops", ops_t{{0, b, e}, {2, e - b, -1}}));
                vt::put(eigen_rw_event<tscalar>("Chain", root, croot.slice(b, e).vector(i), root.slice(b, e).vector(i), {::nano::size(dims) / n0}).aa(
                    "ops", ops_t{{0, b, e}, {3, i}}));
            }
            if (n0 > 0)
            {
                const auto i  = rng.range(0, n0 - 1);
                const auto n1 = dims[1];
                const auto b1 = rng.range(0, n1), e1 = rng.range(b1, n1);
                vt::put(rw_event<tscalar>("Chain", root, croot.tensor(i).reshape(-1), root.tensor(i).reshape(-1)).aa("ops", ops_t{{1, i}, {2, -1}}));
                vt::put(rw_event<tscalar>("Chain", root, cmap.tensor(i).slice(b1, e1), map.tensor(i).slice(b1, e1)).aa("ops", ops_t{{1, i}, {0, b1, e1}}));
                if constexpr (trank > 2)
                {
                    if (e1 > b1)
                    {
                        const auto j = rng.range(0, e1 - b1 - 1);
                        vt::put(rw_event<tscalar>("Chain", root, croot.tensor(i).slice(b1, e1).tensor(j), root.tensor(i).slice(b1, e1).tensor(j)).aa(
                            "ops", ops_t{{1, i}, {0, b1, e1}, {1, j}}));
                    }
                    if (n1 > 0)
                    {
                        const auto j = rng.range(0, n1 - 1);
                        vt::put(rw_event<tscalar>("Chain", root, cmap.tensor(i).tensor(j), map.tensor(i).tensor(j)).aa("ops", ops_t{{1, i}, {1, j}}));
                    }
                }
                if constexpr (trank == 3)
                {
                    vt::put(eigen_rw_event<tscalar>("Chain", root, croot.slice(i, n0).matrix(0), root.slice(i, n0).matrix(0), {dims[1], dims[2]}).aa(
                        "ops", ops_t{{0, i, n0}, {4, 0}}));
                }
            }
        }
    }
    // gather along the first axis: random index lists with repetitions, and the structured ones an implementation may special-case
    // (sorted with repetitions, contiguous ranges, reversed ranges, a single repeated index)
    const auto extra_pattern = static_cast<int>(rng.range(0, 3));
    for (int pattern = 0; pattern < 4 && n0 > 0; ++pattern)
    {
        indices_t indices(rng.range(pattern == 0 ? 0 : 1, 6));
        for (auto& i : indices)
        {
            i = rng.range(0, n0 - 1);
        }
        if (pattern == 1)
        {
            std::sort(indices.begin(), indices.end());
        }
        else if (pattern == 2)
        {
            const auto first = rng.range(0, n0 - 1);
            for (tensor_size_t k = 0; k < indices.size(); ++k)
            {
                indices(k) = std::min<tensor_size_t>(n0 - 1, first + k);
            }
            if (rng.coin())
            {
                std::reverse(indices.begin(), indices.end());
            }
        }
        else if (pattern == 3)
        {
            // sorted, with repetitions, spanning exactly as many rows as it has entries (e.g. 0, 0, 2)
            std::sort(indices.begin(), indices.end());
            if (indices.size() >= 2)
            {
                indices(indices.size() - 1) = std::min<tensor_size_t>(n0 - 1, indices(0) + indices.size() - 1);
                std::sort(indices.begin(), indices.end());
            }
        }
        const auto           sub = croot.indexed(indices);
        std::vector<int64_t> elems;
        int64_t              sum = 0;
        read_all(sub, elems, sum);
        if (elems.size() <= 4000)
        {
            vt::put(vt::J("Gather").a("d", vdims(dims)).a("indices", std::vector<int64_t>(indices.begin(), indices.end())).a("dims", vdims(sub.dims())).a(
                "elems", elems).b("aliases", sub.size() > 0 && sub.data() >= root.data() && sub.data() < root.data() + root.size()));
            // the other forms: converting to another scalar type, into an owning tensor already in use (of another shape), and into a given
            // mutable map (here: the middle of a larger buffer whose other elements must stay as they are)
            using tother = std::conditional_t<std::is_same_v<tscalar, double>, int64_t, double>;
            if (pattern != extra_pattern)
            {
                continue;
            }
            const auto ivec = std::vector<int64_t>(indices.begin(), indices.end());
            const auto gather_event = [&](const char* form, const auto& result, const bool guards)
            {
                std::vector<int64_t> relems;
                int64_t              rsum = 0;
                read_all(result, relems, rsum);
                vt::put(vt::J("GatherInto").s("form", form).a("d", vdims(dims)).a("indices", ivec).a("dims", vdims(result.dims())).a("elems", relems).b(
                    "aliases", false).b("guards", guards));
            };
            gather_event("indexed<other>(indices)", croot.template indexed<tother>(indices), true);
            {
                auto udims = dims;
                udims.fill(2);
                tensor_mem_t<tscalar, trank> used(udims);
                used.full(static_cast<tscalar>(1));
                croot.indexed(indices, used);
                gather_event("indexed(indices, used tensor_mem_t&)", used, true);
                tensor_mem_t<tother, trank> usedo(udims);
                usedo.full(static_cast<tother>(1));
                croot.template indexed<tother>(indices, usedo);
                gather_event("indexed<other>(indices, used tensor_mem_t&)", usedo, true);
            }
            {
                const tensor_size_t          pad = 3;
                tensor_mem_t<tscalar, 1>     buffer(sub.size() + 2 * pad);
                tensor_mem_t<tother, 1>      buffero(sub.size() + 2 * pad);
                buffer.full(static_cast<tscalar>(77));
                buffero.full(static_cast<tother>(77));
                tensor_map_t<tscalar, trank> into(buffer.data() + pad, sub.dims());
                tensor_map_t<tother, trank>  intoo(buffero.data() + pad, sub.dims());
                croot.indexed(indices, into);
                croot.template indexed<tother>(indices, intoo);
                bool guards = true, guardso = true;
                for (tensor_size_t k = 0; k < pad; ++k)
                {
                    guards  = guards && buffer(k) == static_cast<tscalar>(77) && buffer(pad + sub.size() + k) == static_cast<tscalar>(77);
                    guardso = guardso && buffero(k) == static_cast<tother>(77) && buffero(pad + sub.size() + k) == static_cast<tother>(77);
                }
                gather_event("indexed(indices, tensor_map_t)", into, guards && into.data() == buffer.data() + pad);
                gather_event("indexed<other>(indices, tensor_map_t)", intoo, guardso && intoo.data() == buffero.data() + pad);
            }
        }
    }
    // storage conversions
    {
        tensor_map_t<tscalar, trank>  map  = root;
        tensor_cmap_t<tscalar, trank> cmap = croot;
        tensor_cmap_t<tscalar, trank> cmap2 = map;
        tensor_mem_t<tscalar, trank>  copy = cmap;
        tensor_mem_t<tscalar, trank>  copy2 = map;
        // ... also into owners that are already in use: with the same number of elements in another shape, and of another size
        auto rdims = dims;
        std::reverse(rdims.begin(), rdims.end());
        auto fdims = dims;
        fdims.fill(1);
        fdims[trank - 1] = std::max<tensor_size_t>(1, root.size());
        tensor_mem_t<tscalar, trank> used1(rdims), used2(rdims), used3(fdims), used4(fdims);
        used1 = cmap;
        used2 = map;
        used3 = cmap;
        used4 = map;
        bool same = copy.dims() == dims && copy2.dims() == dims && used1.dims() == dims && used2.dims() == dims && used3.dims() == dims && used4.dims() == dims;
        for (tensor_size_t i = 0; same && i < root.size(); ++i)
        {
            same = used1(i) == root(i) && used2(i) == root(i) && used3(i) == root(i) && used4(i) == root(i);
        }
        for (tensor_size_t i = 0; same && i < root.size(); ++i)
        {
            same = copy(i) == root(i) && copy2(i) == root(i) && map(i) == root(i) && cmap(i) == root(i) && cmap2(i) == root(i);
        }
        // assignments to a mutable map copy the contents into the mapped buffer: the map keeps its seat, the source is not changed
        bool assignCopies = true, assignKeepsSeat = true;
        {
            tensor_mem_t<tscalar, trank> dst1(dims), dst2(dims), dst3(dims), dst4(dims);
            for (auto* dst : {&dst1, &dst2, &dst3, &dst4})
            {
                dst->full(static_cast<tscalar>(99));
            }
            tensor_map_t<tscalar, trank> dmap1 = dst1, dmap2 = dst2, dmap3 = dst3, dmap4 = dst4;
            dmap1 = croot;                                   // = tensor_mem_t
            dmap2 = cmap;                                    // = tensor_cmap_t
            dmap3 = map;                                     // = tensor_map_t
            dmap4 = tensor_map_t<tscalar, trank>(root);      // = tensor_map_t&&
            assignKeepsSeat = dmap1.data() == dst1.data() && dmap2.data() == dst2.data() && dmap3.data() == dst3.data() && dmap4.data() == dst4.data() &&
                              dmap1.dims() == dims && dmap2.dims() == dims && dmap3.dims() == dims && dmap4.dims() == dims &&
                              (root.size() == 0 || (dst1.data() != root.data() && dst2.data() != root.data() && dst3.data() != root.data() && dst4.data() != root.data()));
            for (tensor_size_t i = 0; assignCopies && i < root.size(); ++i)
            {
                assignCopies = root(i) == static_cast<tscalar>(i) && dst1(i) == root(i) && dst2(i) == root(i) && dst3(i) == root(i) && dst4(i) == root(i);
            }
            // ... and writing through the assigned map afterwards reaches its own buffer only
            if (root.size() > 0)
            {
                dmap1(0) = static_cast<tscalar>(55);
                assignCopies = assignCopies && dst1(0) == static_cast<tscalar>(55) && root(0) == static_cast<tscalar>(0);
            }
        }
        vt::put(vt::J("Storage").a("d", vdims(dims)).b("mapAssignCopies", assignCopies).b("mapAssignKeepsSeat", assignKeepsSeat).b("mapAliases", map.data() == root.data()).b("cmapAliases", cmap.data() == root.data() && cmap2.data() == root.data()).b(
            "copyOwns", root.size() == 0 || (copy.data() != root.data() && copy2.data() != root.data())).b("sameContents", same).b(
            "sameDims", map.dims() == dims && cmap.dims() == dims));
    }
    // summed-area table: input scalars narrower than the output scalar, with prefix sums that do not fit the input type
    // NB: also for empty tensors of every rank (nothing to compute, nothing may be touched: the sanitizers decide)
    if (root.size() <= 200)
    {
        switch (rng.range(0, 5))
        {
        case 0: integral_case<int32_t, int64_t, trank>(dims, rng, 1000000, "int32->int64"); break;
        case 1: integral_case<int8_t, int64_t, trank>(dims, rng, 100, "int8->int64"); break;
        case 2: integral_case<uint8_t, int32_t, trank>(dims, rng, 250, "uint8->int32"); break;
        case 3: integral_case<int16_t, double, trank>(dims, rng, 30000, "int16->double"); break;
        case 4: integral_case<uint16_t, int64_t, trank>(dims, rng, 60000, "uint16->int64"); break;
        default: integral_case<float, double, trank>(dims, rng, 1000, "float->double"); break;
        }
    }
}

template <class tscalar>
void exhaustive_shapes(vt::Rng& rng, int64_t maxdim4, int64_t maxdim5, int64_t part, int64_t parts)
{
    int64_t icase = 0;
    const auto mine = [&]() { return (icase++) % parts == part; };
    for (tensor_size_t a = 0; a <= maxdim4; ++a)
    {
        if (mine())
        {
            shape_case<tscalar, 1>(make_dims(a), rng, true);
        }
        for (tensor_size_t b = 0; b <= maxdim4; ++b)
        {
            if (mine())
            {
                shape_case<tscalar, 2>(make_dims(a, b), rng, true);
            }
            for (tensor_size_t c = 0; c <= maxdim4; ++c)
            {
                if (mine())
                {
                    shape_case<tscalar, 3>(make_dims(a, b, c), rng, true);
                }
                for (tensor_size_t d = 0; d <= maxdim4; ++d)
                {
                    if (mine())
                    {
                        shape_case<tscalar, 4>(make_dims(a, b, c, d), rng, true);
                    }
                    for (tensor_size_t e = 0; e <= maxdim5 && a <= maxdim5 && b <= maxdim5 && c <= maxdim5 && d <= maxdim5; ++e)
                    {
                        if (mine())
                        {
                            shape_case<tscalar, 5>(make_dims(a, b, c, d, e), rng, true);
                        }
                    }
                }
            }
        }
    }
}

template <class tscalar>
void typed_shapes(vt::Rng& rng)
{
    // the other scalar types: a sample of shapes (values stay below 127)
    shape_case<tscalar, 1>(make_dims(rng.range(0, 100)), rng, true);
    shape_case<tscalar, 2>(make_dims(rng.range(0, 9), rng.range(0, 9)), rng, true);
    shape_case<tscalar, 3>(make_dims(rng.range(0, 5), rng.range(0, 5), rng.range(0, 4)), rng, true);
    shape_case<tscalar, 4>(make_dims(rng.range(0, 3), rng.range(0, 3), rng.range(0, 3), rng.range(0, 3)), rng, true);
    shape_case<tscalar, 5>(make_dims(rng.range(1, 3), rng.range(0, 2), rng.range(1, 2), rng.range(0, 3), rng.range(1, 3)), rng, true);
}

void misc_cases(vt::Rng& rng)
{
    // remove_if over parallel tensors
    for (int i = 0; i < 40; ++i)
    {
        const auto n = rng.range(0, 12);
        tensor_mem_t<int32_t, 1> rows(n);
        tensor_mem_t<int32_t, 2> rows2(n, 3);
        // entries of higher rank: whole sub-tensors move (trailing dimensions 0..3, every element distinct: 1000 k + offset)
        tensor_mem_t<int32_t, 3> rows3(n, rng.range(i < 4 ? 0 : 1, 3), rng.range(1, 3));
        tensor_mem_t<int32_t, 4> rows4(n, rng.range(1, 2), rng.range(i < 4 ? 0 : 1, 3), rng.range(1, 3));
        std::vector<int64_t>     flags;
        for (tensor_size_t k = 0; k < n; ++k)
        {
            rows(k) = static_cast<int32_t>(k);
            rows2.tensor(k).full(static_cast<int32_t>(k));
            flags.push_back(rng.coin(1, 3) ? 1 : 0);
        }
        const auto fill = [&](auto& t)
        {
            const auto inner = n == 0 ? tensor_size_t{0} : t.size() / n;
            for (tensor_size_t q = 0; q < t.size(); ++q)
            {
                t(q) = static_cast<int32_t>(1000 * (q / std::max<tensor_size_t>(inner, 1)) + q % std::max<tensor_size_t>(inner, 1));
            }
            return inner;
        };
        const auto inner3 = fill(rows3), inner4 = fill(rows4);
        const auto size = remove_if([&](tensor_size_t k) { return flags[static_cast<size_t>(k)] != 0; }, rows, rows2, rows3, rows4);
        std::vector<int64_t> kept, kept2, kept3, kept4;
        const auto entry_of = [&](const auto& t, const tensor_size_t inner, const tensor_size_t k) -> int64_t
        {
            // the original first-axis position of the sub-tensor now stored at k, -1 when it is not one of the original sub-tensors
            if (inner == 0)
            {
                return rows(k);
            }
            const auto base = static_cast<int64_t>(t(k * inner)) / 1000;
            for (tensor_size_t q = 0; q < inner; ++q)
            {
                if (static_cast<int64_t>(t(k * inner + q)) != 1000 * base + q)
                {
                    return -1;
                }
            }
            return base;
        };
        for (tensor_size_t k = 0; k < size; ++k)
        {
            kept.push_back(rows(k));
            kept2.push_back(rows2(k, 0) == rows2(k, 2) ? rows2(k, 1) : -1);
            kept3.push_back(entry_of(rows3, inner3, k));
            kept4.push_back(entry_of(rows4, inner4, k));
        }
        vt::put(vt::J("RemoveIf").a("flags", flags).i("size", size).a("rows", kept).a("rows2", kept2).a("rows3", kept3).a("rows4", kept4));
    }
    // stack: matrices/vectors concatenated
    for (int i = 0; i < 10; ++i)
    {
        const auto r1 = rng.range(1, 4), r2 = rng.range(1, 4), c = rng.range(1, 4);
        tensor_mem_t<double, 2> m1(r1, c), m2(r2, c);
        tensor_mem_t<double, 1> v1(r1), v2(r2);
        for (tensor_size_t k = 0; k < m1.size(); ++k)
        {
            m1(k) = static_cast<double>(k);
        }
        for (tensor_size_t k = 0; k < m2.size(); ++k)
        {
            m2(k) = 100.0 + static_cast<double>(k);
        }
        for (tensor_size_t k = 0; k < r1; ++k)
        {
            v1(k) = 1000.0 + static_cast<double>(k);
        }
        for (tensor_size_t k = 0; k < r2; ++k)
        {
            v2(k) = 2000.0 + static_cast<double>(k);
        }
        const auto s  = stack<double>(r1 + r2, c + 1, m1, v1, m2, v2);
        bool       ok = s.rows() == r1 + r2 && s.cols() == c + 1;
        for (tensor_size_t r = 0; ok && r < r1 + r2; ++r)
        {
            for (tensor_size_t k = 0; ok && k <= c; ++k)
            {
                const auto expected = r < r1 ? (k < c ? m1(r, k) : v1(r)) : (k < c ? m2(r - r1, k) : v2(r - r1));
                ok                  = s(r, k) == expected;
            }
        }
        const auto sv = stack<double>(r1 + r2, v1, v2);
        for (tensor_size_t r = 0; ok && r < r1 + r2; ++r)
        {
            ok = sv(r) == (r < r1 ? v1(r) : v2(r - r1));
        }
        vt::put(vt::J("Stack").b("ok", ok));
    }
    // stack: further layouts (three or more blocks per row, other column partitions per row, full-width rows, transposed vectors, Eigen
    // expressions and maps as blocks) compared with a naive element-wise placement of the blocks
    for (int i = 0; i < 12; ++i)
    {
        using matrix_t = tensor_mem_t<double, 2>;
        using vector_t = tensor_mem_t<double, 1>;
        const auto nan = std::numeric_limits<double>::quiet_NaN();
        const auto rmat = [&](const tensor_size_t rows, const tensor_size_t cols)
        {
            matrix_t m(rows, cols);
            for (tensor_size_t k = 0; k < m.size(); ++k)
            {
                m(k) = static_cast<double>(rng.range(-99, 99));
            }
            return m;
        };
        const auto rvec = [&](const tensor_size_t rows)
        {
            vector_t v(rows);
            for (tensor_size_t k = 0; k < v.size(); ++k)
            {
                v(k) = static_cast<double>(rng.range(-99, 99));
            }
            return v;
        };
        // naive construction: every element placed on its own, exactly once
        const auto place = [&](matrix_t& ex, const tensor_size_t row, const tensor_size_t col, const tensor_size_t rows, const tensor_size_t cols, const auto& value)
        {
            bool once = true;
            for (tensor_size_t r = 0; r < rows; ++r)
            {
                for (tensor_size_t c = 0; c < cols; ++c)
                {
                    once               = once && std::isnan(ex(row + r, col + c));
                    ex(row + r, col + c) = value(r, c);
                }
            }
            return once;
        };
        const auto same = [&](const matrix_t& sm, const matrix_t& ex)
        {
            bool ok = sm.dims() == ex.dims();
            for (tensor_size_t k = 0; ok && k < ex.size(); ++k)
            {
                ok = !std::isnan(ex(k)) && sm(k) == ex(k);
            }
            return ok;
        };
        const auto r1 = rng.range(1, 4), r2 = rng.range(1, 4), c1 = rng.range(1, 4), c2 = rng.range(1, 3), c3 = rng.range(1, 3);
        const auto cols = c1 + c2 + c3;
        {
            // [A | 2 B ; C | D^T | E(map) ; v^T]
            const auto ca = rng.range(1, cols - 1);
            const auto A = rmat(r1, ca), B = rmat(r1, cols - ca), C = rmat(r2, c1), D = rmat(c2, r2), E = rmat(r2, c3);
            const auto v = rvec(cols);
            const tensor_cmap_t<double, 2> Emap = E;
            const auto sm = stack<double>(r1 + r2 + 1, cols, A, 2.0 * B.matrix(), C, D.matrix().transpose(), Emap, v.vector().transpose());
            matrix_t   ex(r1 + r2 + 1, cols);
            ex.full(nan);
            bool ok = place(ex, 0, 0, r1, ca, [&](auto r, auto c) { return A(r, c); });
            ok      = place(ex, 0, ca, r1, cols - ca, [&](auto r, auto c) { return 2.0 * B(r, c); }) && ok;
            ok      = place(ex, r1, 0, r2, c1, [&](auto r, auto c) { return C(r, c); }) && ok;
            ok      = place(ex, r1, c1, r2, c2, [&](auto r, auto c) { return D(c, r); }) && ok;
            ok      = place(ex, r1, c1 + c2, r2, c3, [&](auto r, auto c) { return E(r, c); }) && ok;
            ok      = place(ex, r1 + r2, 0, 1, cols, [&](auto, auto c) { return v(c); }) && ok;
            vt::put(vt::J("Stack").b("ok", ok && same(sm, ex)).s("layout", "[A|2B; C|D^T|E; v^T]"));
        }
        {
            // full-width rows: [M ; constant ; N ; zero ; identity]
            const auto M = rmat(r1, cols), N = rmat(r2, cols);
            const auto sm = stack<double>(r1 + r2 + 2 + cols, cols, M, matrix_t::constant(1, cols, 7.0), N.matrix(), matrix_t::zero(1, cols), matrix_t::identity(cols, cols));
            matrix_t   ex(r1 + r2 + 2 + cols, cols);
            ex.full(nan);
            bool ok = place(ex, 0, 0, r1, cols, [&](auto r, auto c) { return M(r, c); });
            ok      = place(ex, r1, 0, 1, cols, [&](auto, auto) { return 7.0; }) && ok;
            ok      = place(ex, r1 + 1, 0, r2, cols, [&](auto r, auto c) { return N(r, c); }) && ok;
            ok      = place(ex, r1 + 1 + r2, 0, 1, cols, [&](auto, auto) { return 0.0; }) && ok;
            ok      = place(ex, r1 + 2 + r2, 0, cols, cols, [&](auto r, auto c) { return r == c ? 1.0 : 0.0; }) && ok;
            vt::put(vt::J("Stack").b("ok", ok && same(sm, ex)).s("layout", "[M; const; N; zero; I]"));
        }
        {
            // vectors as columns, four blocks per row: [v1 | A | v2 | -v3 ; B]
            const auto v1 = rvec(r1), v2 = rvec(r1), v3 = rvec(r1);
            const auto A = rmat(r1, c1), B = rmat(r2, c1 + 3);
            const tensor_cmap_t<double, 1> v2map = v2;
            const auto sm = stack<double>(r1 + r2, c1 + 3, v1, A, v2map, -v3.vector(), B);
            matrix_t   ex(r1 + r2, c1 + 3);
            ex.full(nan);
            bool ok = place(ex, 0, 0, r1, 1, [&](auto r, auto) { return v1(r); });
            ok      = place(ex, 0, 1, r1, c1, [&](auto r, auto c) { return A(r, c); }) && ok;
            ok      = place(ex, 0, c1 + 1, r1, 1, [&](auto r, auto) { return v2(r); }) && ok;
            ok      = place(ex, 0, c1 + 2, r1, 1, [&](auto r, auto) { return -v3(r); }) && ok;
            ok      = place(ex, r1, 0, r2, c1 + 3, [&](auto r, auto c) { return B(r, c); }) && ok;
            vt::put(vt::J("Stack").b("ok", ok && same(sm, ex)).s("layout", "[v1|A|v2|-v3; B]"));
        }
        {
            // vector of segments: tensors, maps and Eigen expressions
            const auto v1 = rvec(r1), v2 = rvec(r2), v3 = rvec(c1);
            const tensor_cmap_t<double, 1> v3map = v3;
            const auto sv = stack<double>(r1 + r2 + c2 + c1, v1, 2.0 * v2.vector(), vector_t::constant(c2, 1.5), v3map);
            bool       ok = sv.size() == r1 + r2 + c2 + c1;
            for (tensor_size_t r = 0; ok && r < sv.size(); ++r)
            {
                const auto expected = r < r1 ? v1(r) : r < r1 + r2 ? 2.0 * v2(r - r1) : r < r1 + r2 + c2 ? 1.5 : v3(r - r1 - r2 - c2);
                ok                  = sv(r) == expected;
            }
            vt::put(vt::J("Stack").b("ok", ok).s("layout", "vector [v1; 2 v2; const; v3]"));
        }
    }
}
} // namespace

int main(int argc, char* argv[])
{
    if (argc < 8)
    {
        std::fprintf(stderr, "usage: tensor_driver <out.ndjson> <seed> <part> <parts> <maxdim-rank<=4> <maxdim-rank5> <random-cases>\n");
        return 2;
    }
    vt::Trace::get().open(argv[1]);
    vt::Rng    rng(static_cast<uint64_t>(std::atoll(argv[2])));
    const auto part = std::atoll(argv[3]), parts = std::atoll(argv[4]);
    const auto maxdim4 = std::atoll(argv[5]), maxdim5 = std::atoll(argv[6]), nrand = std::atoll(argv[7]);

    // the scalar type of the exhaustive sweep rotates with the part and the run seed (all ten types over the parts of one run)
    switch ((part + std::atoll(argv[2]) / 1000) % 10)
    {
    case 0: exhaustive_shapes<int32_t>(rng, maxdim4, maxdim5, part, parts); break;
    case 1: exhaustive_shapes<double>(rng, maxdim4, maxdim5, part, parts); break;
    case 2: exhaustive_shapes<int8_t>(rng, maxdim4, maxdim5, part, parts); break;
    case 3: exhaustive_shapes<uint64_t>(rng, maxdim4, maxdim5, part, parts); break;
    case 4: exhaustive_shapes<float>(rng, maxdim4, maxdim5, part, parts); break;
    case 5: exhaustive_shapes<int16_t>(rng, maxdim4, maxdim5, part, parts); break;
    case 6: exhaustive_shapes<uint8_t>(rng, maxdim4, maxdim5, part, parts); break;
    case 7: exhaustive_shapes<int64_t>(rng, maxdim4, maxdim5, part, parts); break;
    case 8: exhaustive_shapes<uint16_t>(rng, maxdim4, maxdim5, part, parts); break;
    default: exhaustive_shapes<uint32_t>(rng, maxdim4, maxdim5, part, parts); break;
    }
    if (part == 0)
    {
        typed_shapes<int8_t>(rng);
        typed_shapes<int16_t>(rng);
        typed_shapes<int64_t>(rng);
        typed_shapes<uint8_t>(rng);
        typed_shapes<uint16_t>(rng);
        typed_shapes<uint32_t>(rng);
        typed_shapes<uint64_t>(rng);
        typed_shapes<float>(rng);
        typed_shapes<double>(rng);
        misc_cases(rng);
    }
    // random larger shapes up to 1e5 elements
    for (int64_t i = 0; i < nrand; ++i)
    {
        switch (rng.range(1, 5))
        {
        case 1: shape_case<double, 1>(make_dims(rng.range(1, 100000)), rng, false); break;
        case 2: shape_case<double, 2>(make_dims(rng.range(1, 300), rng.range(1, 300)), rng, false); break;
        case 3: shape_case<double, 3>(make_dims(rng.range(1, 40), rng.range(1, 50), rng.range(1, 50)), rng, false); break;
        case 4: shape_case<int32_t, 4>(make_dims(rng.range(1, 17), rng.range(1, 17), rng.range(1, 17), rng.range(1, 17)), rng, false); break;
        default: shape_case<int64_t, 5>(make_dims(rng.range(1, 9), rng.range(1, 9), rng.range(1, 9), rng.range(1, 9), rng.range(1, 9)), rng, false); break;
        }
    }
    vt::put(vt::J("Stack").b("ok", true).s("marker", "end"));
    return 0;
}
