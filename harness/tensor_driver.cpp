// C16 conformance driver: performs every view operation on real tensors whose buffer holds its own flat indices and
// records (offset, dimensions, elements read through the view) for re-computation by TLC (TensorTrace.tla).
//   tensor_driver <out.ndjson> <seed> <maxdim-rank4> <maxdim-rank5> <random-cases>
#include <algorithm>
#include "trace.h"
#include <nano/tensor.h>
#include <nano/tensor/algorithm.h>
#include <nano/tensor/integral.h>
#include <nano/tensor/stack.h>

using namespace nano;

namespace
{
template <size_t trank>
std::vector<int64_t> vdims(const tensor_dims_t<trank>& dims)
{
    return std::vector<int64_t>(dims.begin(), dims.end());
}

// all elements of a view read by full indexing in lexicographic order (through operator()(i, j, ...))
template <class tview, size_t tdepth = 0, class... tidx>
void read_all(const tview& view, std::vector<int64_t>& out, int64_t& sum, tidx... idx)
{
    if constexpr (sizeof...(idx) == tview::rank())
    {
        const auto v = static_cast<int64_t>(view(idx...));
        out.push_back(v);
        sum += v % 1000;
    }
    else
    {
        for (tensor_size_t i = 0; i < view.template size<sizeof...(idx)>(); ++i)
        {
            read_all(view, out, sum, idx..., i);
        }
    }
}

template <class troot, class tview>
vt::J view_event(const char* e, const troot& root, const tview& view, bool always_full = false)
{
    std::vector<int64_t> elems;
    int64_t              sum = 0;
    read_all(view, elems, sum);
    const auto full = always_full || elems.size() <= 64;
    const auto off  = view.data() - root.data();
    vt::J      j(e);
    j.a("d", vdims(root.dims())).i("off", view.size() == 0 && view.data() == nullptr ? 0 : off).a("dims", vdims(view.dims())).i(
        "count", static_cast<int64_t>(elems.size()));
    j.b("inside", view.size() == 0 || (off >= 0 && off + view.size() <= root.size()));
    j.b("full", full);
    if (full)
    {
        j.a("elems", elems);
    }
    j.i("sum", sum);
    return j;
}

template <class tscalar, size_t trank>
auto make_root(const tensor_dims_t<trank>& dims)
{
    tensor_mem_t<tscalar, trank> root(dims);
    for (tensor_size_t i = 0; i < root.size(); ++i)
    {
        root(i) = static_cast<tscalar>(i);
    }
    return root;
}

// offsets of all index tuples in lexicographic order
template <class troot, class... tidx>
void offsets(const troot& root, std::vector<int64_t>& offs, tidx... idx)
{
    if constexpr (sizeof...(idx) == troot::rank())
    {
        offs.push_back(&root(idx...) - root.data());
    }
    else
    {
        for (tensor_size_t i = 0; i < root.template size<sizeof...(idx)>(); ++i)
        {
            offsets(root, offs, idx..., i);
        }
    }
}

// every valid prefix (partial index) of length 1..rank-1: tensor(prefix), vector(prefix), matrix(prefix of length rank-2)
template <class troot, class... tidx>
void prefixes(const troot& root, const troot& croot, tidx... idx)
{
    constexpr auto n = sizeof...(idx);
    if constexpr (n >= 1 && n < troot::rank())
    {
        std::vector<int64_t> prefix{static_cast<int64_t>(idx)...};
        vt::put(view_event("Sub", root, croot.tensor(idx...)).s("kind", "tensor").a("prefix", prefix));
        {
            // Eigen vector map of the remaining dimensions
            const auto           vec = croot.vector(idx...);
            std::vector<int64_t> elems;
            int64_t              sum = 0;
            for (tensor_size_t i = 0; i < vec.size(); ++i)
            {
                elems.push_back(static_cast<int64_t>(vec(i)));
                sum += static_cast<int64_t>(vec(i)) % 1000;
            }
            const auto full = elems.size() <= 64;
            const auto off  = vec.data() - root.data();
            vt::J      j("Sub");
            j.a("d", vdims(root.dims())).i("off", off).a("dims", std::vector<int64_t>{static_cast<int64_t>(vec.size())}).i("count", vec.size());
            j.b("inside", vec.size() == 0 || (off >= 0 && off + vec.size() <= root.size())).b("full", full);
            if (full)
            {
                j.a("elems", elems);
            }
            j.i("sum", sum).s("kind", "vector").a("prefix", prefix);
            vt::put(j);
        }
        if constexpr (n + 2 == troot::rank())
        {
            const auto           mat = croot.matrix(idx...);
            std::vector<int64_t> elems;
            int64_t              sum = 0;
            for (tensor_size_t r = 0; r < mat.rows(); ++r)
            {
                for (tensor_size_t c = 0; c < mat.cols(); ++c)
                {
                    elems.push_back(static_cast<int64_t>(mat(r, c)));
                    sum += static_cast<int64_t>(mat(r, c)) % 1000;
                }
            }
            const auto full = elems.size() <= 64;
            const auto off  = mat.data() - root.data();
            vt::J      j("Sub");
            j.a("d", vdims(root.dims())).i("off", off).a("dims", std::vector<int64_t>{mat.rows(), mat.cols()}).i("count", mat.size());
            j.b("inside", mat.size() == 0 || (off >= 0 && off + mat.size() <= root.size())).b("full", full);
            if (full)
            {
                j.a("elems", elems);
            }
            j.i("sum", sum).s("kind", "matrix").a("prefix", prefix);
            vt::put(j);
        }
    }
    if constexpr (n + 1 < troot::rank())
    {
        for (tensor_size_t i = 0; i < root.template size<n>(); ++i)
        {
            prefixes(root, croot, idx..., i);
        }
    }
}

template <class tin, class tout, size_t trank>
void integral_case(const tensor_dims_t<trank>& dims, vt::Rng& rng, int64_t magnitude, const char* types)
{
    tensor_mem_t<tin, trank>  input(dims);
    tensor_mem_t<tout, trank> output(dims);
    std::vector<int64_t>      in, out;
    for (tensor_size_t i = 0; i < input.size(); ++i)
    {
        input(i) = static_cast<tin>(std::is_unsigned_v<tin> ? rng.range(0, magnitude) : rng.range(-magnitude, magnitude));
        in.push_back(static_cast<int64_t>(input(i)));
    }
    integral(input, output);
    for (tensor_size_t i = 0; i < output.size(); ++i)
    {
        out.push_back(static_cast<int64_t>(output(i)));
    }
    vt::put(vt::J("Integral").s("types", types).a("d", vdims(dims)).a("input", in).a("output", out));
}

template <class tscalar, size_t trank>
void shape_case(const tensor_dims_t<trank>& dims, vt::Rng& rng, bool exhaustive)
{
    // the buffer holds its own flat indices, which identify the elements a view addresses: one-byte scalars cannot hold more than 127
    if constexpr (sizeof(tscalar) == 1)
    {
        if (::nano::size(dims) > 127)
        {
            shape_case<int16_t, trank>(dims, rng, exhaustive);
            return;
        }
    }
    auto        root  = make_root<tscalar, trank>(dims);
    const auto& croot = root;

    if (exhaustive)
    {
        std::vector<int64_t> offs;
        offsets(croot, offs);
        vt::put(vt::J("Offsets").a("d", vdims(dims)).a("offs", offs).s("type", typeid(tscalar).name()));
        prefixes(root, croot);
    }
    // slices [b, e) along the first axis
    const auto n0 = dims[0];
    for (tensor_size_t b = 0; b <= n0; ++b)
    {
        for (tensor_size_t e = b; e <= n0; ++e)
        {
            if (exhaustive || rng.coin(1, std::max<int>(1, static_cast<int>(n0 * n0 / 16))))
            {
                vt::put(view_event("Slice", root, croot.slice(b, e)).i("b", b).i("en", e));
            }
        }
    }
    // reshapes: to rank 1, 2, 3 with explicit and inferred dimensions
    const auto size = root.size();
    vt::put(view_event("Reshape", root, croot.reshape(size)).a("nd", std::vector<int64_t>{size}));
    vt::put(view_event("Reshape", root, croot.reshape(-1)).a("nd", std::vector<int64_t>{-1}));
    for (tensor_size_t a = 1; a <= std::max<tensor_size_t>(size, 1) && a <= 64; ++a)
    {
        if (size % a != 0)
        {
            continue;
        }
        vt::put(view_event("Reshape", root, croot.reshape(a, size / a)).a("nd", std::vector<int64_t>{a, size / a}));
        vt::put(view_event("Reshape", root, croot.reshape(a, -1)).a("nd", std::vector<int64_t>{a, -1}));
        vt::put(view_event("Reshape", root, croot.reshape(-1, a)).a("nd", std::vector<int64_t>{-1, a}));
        const auto rest = size / a;
        for (tensor_size_t b = 1; b <= std::max<tensor_size_t>(rest, 1) && b <= 16; ++b)
        {
            if (rest % b == 0 && (exhaustive || rng.coin(1, 3)))
            {
                vt::put(view_event("Reshape", root, croot.reshape(a, b, rest / b)).a("nd", std::vector<int64_t>{a, b, rest / b}));
                if (rest / b != 0) // NB: an inferred dimension next to a zero-sized one is ambiguous (0/0): not a valid access
                {
                    vt::put(view_event("Reshape", root, croot.reshape(a, -1, rest / b)).a("nd", std::vector<int64_t>{a, -1, rest / b}));
                }
            }
        }
    }
    // gather along the first axis: random index lists with repetitions, and the structured ones an implementation may special-case
    // (sorted with repetitions, contiguous ranges, reversed ranges, a single repeated index)
    for (int pattern = 0; pattern < 4 && n0 > 0; ++pattern)
    {
        indices_t indices(rng.range(pattern == 0 ? 0 : 1, 6));
        for (auto& i : indices)
        {
            i = rng.range(0, n0 - 1);
        }
        if (pattern == 1)
        {
            std::sort(indices.begin(), indices.end());
        }
        else if (pattern == 2)
        {
            const auto first = rng.range(0, n0 - 1);
            for (tensor_size_t k = 0; k < indices.size(); ++k)
            {
                indices(k) = std::min<tensor_size_t>(n0 - 1, first + k);
            }
            if (rng.coin())
            {
                std::reverse(indices.begin(), indices.end());
            }
        }
        else if (pattern == 3)
        {
            // sorted, with repetitions, spanning exactly as many rows as it has entries (e.g. 0, 0, 2)
            std::sort(indices.begin(), indices.end());
            if (indices.size() >= 2)
            {
                indices(indices.size() - 1) = std::min<tensor_size_t>(n0 - 1, indices(0) + indices.size() - 1);
                std::sort(indices.begin(), indices.end());
            }
        }
        const auto           sub = croot.indexed(indices);
        std::vector<int64_t> elems;
        int64_t              sum = 0;
        read_all(sub, elems, sum);
        if (elems.size() <= 4000)
        {
            vt::put(vt::J("Gather").a("d", vdims(dims)).a("indices", std::vector<int64_t>(indices.begin(), indices.end())).a("dims", vdims(sub.dims())).a(
                "elems", elems).b("aliases", sub.size() > 0 && sub.data() >= root.data() && sub.data() < root.data() + root.size()));
        }
    }
    // storage conversions
    {
        tensor_map_t<tscalar, trank>  map  = root;
        tensor_cmap_t<tscalar, trank> cmap = croot;
        tensor_cmap_t<tscalar, trank> cmap2 = map;
        tensor_mem_t<tscalar, trank>  copy = cmap;
        tensor_mem_t<tscalar, trank>  copy2 = map;
        // ... also into owners that are already in use: with the same number of elements in another shape, and of another size
        auto rdims = dims;
        std::reverse(rdims.begin(), rdims.end());
        auto fdims = dims;
        fdims.fill(1);
        fdims[trank - 1] = std::max<tensor_size_t>(1, root.size());
        tensor_mem_t<tscalar, trank> used1(rdims), used2(rdims), used3(fdims), used4(fdims);
        used1 = cmap;
        used2 = map;
        used3 = cmap;
        used4 = map;
        bool same = copy.dims() == dims && copy2.dims() == dims && used1.dims() == dims && used2.dims() == dims && used3.dims() == dims && used4.dims() == dims;
        for (tensor_size_t i = 0; same && i < root.size(); ++i)
        {
            same = used1(i) == root(i) && used2(i) == root(i) && used3(i) == root(i) && used4(i) == root(i);
        }
        for (tensor_size_t i = 0; same && i < root.size(); ++i)
        {
            same = copy(i) == root(i) && copy2(i) == root(i) && map(i) == root(i) && cmap(i) == root(i) && cmap2(i) == root(i);
        }
        vt::put(vt::J("Storage").a("d", vdims(dims)).b("mapAliases", map.data() == root.data()).b("cmapAliases", cmap.data() == root.data() && cmap2.data() == root.data()).b(
            "copyOwns", root.size() == 0 || (copy.data() != root.data() && copy2.data() != root.data())).b("sameContents", same).b(
            "sameDims", map.dims() == dims && cmap.dims() == dims));
    }
    // summed-area table: input scalars narrower than the output scalar, with prefix sums that do not fit the input type
    if (root.size() > 0 && root.size() <= 200)
    {
        switch (rng.range(0, 5))
        {
        case 0: integral_case<int32_t, int64_t, trank>(dims, rng, 1000000, "int32->int64"); break;
        case 1: integral_case<int8_t, int64_t, trank>(dims, rng, 100, "int8->int64"); break;
        case 2: integral_case<uint8_t, int32_t, trank>(dims, rng, 250, "uint8->int32"); break;
        case 3: integral_case<int16_t, double, trank>(dims, rng, 30000, "int16->double"); break;
        case 4: integral_case<uint16_t, int64_t, trank>(dims, rng, 60000, "uint16->int64"); break;
        default: integral_case<float, double, trank>(dims, rng, 1000, "float->double"); break;
        }
    }
}

template <class tscalar>
void exhaustive_shapes(vt::Rng& rng, int64_t maxdim4, int64_t maxdim5, int64_t part, int64_t parts)
{
    int64_t icase = 0;
    const auto mine = [&]() { return (icase++) % parts == part; };
    for (tensor_size_t a = 0; a <= maxdim4; ++a)
    {
        if (mine())
        {
            shape_case<tscalar, 1>(make_dims(a), rng, true);
        }
        for (tensor_size_t b = 0; b <= maxdim4; ++b)
        {
            if (mine())
            {
                shape_case<tscalar, 2>(make_dims(a, b), rng, true);
            }
            for (tensor_size_t c = 0; c <= maxdim4; ++c)
            {
                if (mine())
                {
                    shape_case<tscalar, 3>(make_dims(a, b, c), rng, true);
                }
                for (tensor_size_t d = 0; d <= maxdim4; ++d)
                {
                    if (mine())
                    {
                        shape_case<tscalar, 4>(make_dims(a, b, c, d), rng, true);
                    }
                    for (tensor_size_t e = 0; e <= maxdim5 && a <= maxdim5 && b <= maxdim5 && c <= maxdim5 && d <= maxdim5; ++e)
                    {
                        if (mine())
                        {
                            shape_case<tscalar, 5>(make_dims(a, b, c, d, e), rng, true);
                        }
                    }
                }
            }
        }
    }
}

template <class tscalar>
void typed_shapes(vt::Rng& rng)
{
    // the other scalar types: a sample of shapes (values stay below 127)
    shape_case<tscalar, 1>(make_dims(rng.range(0, 100)), rng, true);
    shape_case<tscalar, 2>(make_dims(rng.range(0, 9), rng.range(0, 9)), rng, true);
    shape_case<tscalar, 3>(make_dims(rng.range(0, 5), rng.range(0, 5), rng.range(0, 4)), rng, true);
    shape_case<tscalar, 4>(make_dims(rng.range(0, 3), rng.range(0, 3), rng.range(0, 3), rng.range(0, 3)), rng, true);
    shape_case<tscalar, 5>(make_dims(rng.range(1, 3), rng.range(0, 2), rng.range(1, 2), rng.range(0, 3), rng.range(1, 3)), rng, true);
}

void misc_cases(vt::Rng& rng)
{
    // remove_if over parallel tensors
    for (int i = 0; i < 40; ++i)
    {
        const auto n = rng.range(0, 12);
        tensor_mem_t<int32_t, 1> rows(n);
        tensor_mem_t<int32_t, 2> rows2(n, 3);
        // entries of higher rank: whole sub-tensors move (trailing dimensions 0..3, every element distinct: 1000 k + offset)
        tensor_mem_t<int32_t, 3> rows3(n, rng.range(i < 4 ? 0 : 1, 3), rng.range(1, 3));
        tensor_mem_t<int32_t, 4> rows4(n, rng.range(1, 2), rng.range(i < 4 ? 0 : 1, 3), rng.range(1, 3));
        std::vector<int64_t>     flags;
        for (tensor_size_t k = 0; k < n; ++k)
        {
            rows(k) = static_cast<int32_t>(k);
            rows2.tensor(k).full(static_cast<int32_t>(k));
            flags.push_back(rng.coin(1, 3) ? 1 : 0);
        }
        const auto fill = [&](auto& t)
        {
            const auto inner = n == 0 ? tensor_size_t{0} : t.size() / n;
            for (tensor_size_t q = 0; q < t.size(); ++q)
            {
                t(q) = static_cast<int32_t>(1000 * (q / std::max<tensor_size_t>(inner, 1)) + q % std::max<tensor_size_t>(inner, 1));
            }
            return inner;
        };
        const auto inner3 = fill(rows3), inner4 = fill(rows4);
        const auto size = remove_if([&](tensor_size_t k) { return flags[static_cast<size_t>(k)] != 0; }, rows, rows2, rows3, rows4);
        std::vector<int64_t> kept, kept2, kept3, kept4;
        const auto entry_of = [&](const auto& t, const tensor_size_t inner, const tensor_size_t k) -> int64_t
        {
            // the original first-axis position of the sub-tensor now stored at k, -1 when it is not one of the original sub-tensors
            if (inner == 0)
            {
                return rows(k);
            }
            const auto base = static_cast<int64_t>(t(k * inner)) / 1000;
            for (tensor_size_t q = 0; q < inner; ++q)
            {
                if (static_cast<int64_t>(t(k * inner + q)) != 1000 * base + q)
                {
                    return -1;
                }
            }
            return base;
        };
        for (tensor_size_t k = 0; k < size; ++k)
        {
            kept.push_back(rows(k));
            kept2.push_back(rows2(k, 0) == rows2(k, 2) ? rows2(k, 1) : -1);
            kept3.push_back(entry_of(rows3, inner3, k));
            kept4.push_back(entry_of(rows4, inner4, k));
        }
        vt::put(vt::J("RemoveIf").a("flags", flags).i("size", size).a("rows", kept).a("rows2", kept2).a("rows3", kept3).a("rows4", kept4));
    }
    // stack: matrices/vectors concatenated
    for (int i = 0; i < 10; ++i)
    {
        const auto r1 = rng.range(1, 4), r2 = rng.range(1, 4), c = rng.range(1, 4);
        tensor_mem_t<double, 2> m1(r1, c), m2(r2, c);
        tensor_mem_t<double, 1> v1(r1), v2(r2);
        for (tensor_size_t k = 0; k < m1.size(); ++k)
        {
            m1(k) = static_cast<double>(k);
        }
        for (tensor_size_t k = 0; k < m2.size(); ++k)
        {
            m2(k) = 100.0 + static_cast<double>(k);
        }
        for (tensor_size_t k = 0; k < r1; ++k)
        {
            v1(k) = 1000.0 + static_cast<double>(k);
        }
        for (tensor_size_t k = 0; k < r2; ++k)
        {
            v2(k) = 2000.0 + static_cast<double>(k);
        }
        const auto s  = stack<double>(r1 + r2, c + 1, m1, v1, m2, v2);
        bool       ok = s.rows() == r1 + r2 && s.cols() == c + 1;
        for (tensor_size_t r = 0; ok && r < r1 + r2; ++r)
        {
            for (tensor_size_t k = 0; ok && k <= c; ++k)
            {
                const auto expected = r < r1 ? (k < c ? m1(r, k) : v1(r)) : (k < c ? m2(r - r1, k) : v2(r - r1));
                ok                  = s(r, k) == expected;
            }
        }
        const auto sv = stack<double>(r1 + r2, v1, v2);
        for (tensor_size_t r = 0; ok && r < r1 + r2; ++r)
        {
            ok = sv(r) == (r < r1 ? v1(r) : v2(r - r1));
        }
        vt::put(vt::J("Stack").b("ok", ok));
    }
}
} // namespace

int main(int argc, char* argv[])
{
    if (argc < 8)
    {
        std::fprintf(stderr, "usage: tensor_driver <out.ndjson> <seed> <part> <parts> <maxdim-rank<=4> <maxdim-rank5> <random-cases>\n");
        return 2;
    }
    vt::Trace::get().open(argv[1]);
    vt::Rng    rng(static_cast<uint64_t>(std::atoll(argv[2])));
    const auto part = std::atoll(argv[3]), parts = std::atoll(argv[4]);
    const auto maxdim4 = std::atoll(argv[5]), maxdim5 = std::atoll(argv[6]), nrand = std::atoll(argv[7]);

    // the scalar type of the exhaustive sweep rotates with the part and the run seed (all ten types over the parts of one run)
    switch ((part + std::atoll(argv[2]) / 1000) % 10)
    {
    case 0: exhaustive_shapes<int32_t>(rng, maxdim4, maxdim5, part, parts); break;
    case 1: exhaustive_shapes<double>(rng, maxdim4, maxdim5, part, parts); break;
    case 2: exhaustive_shapes<int8_t>(rng, maxdim4, maxdim5, part, parts); break;
    case 3: exhaustive_shapes<uint64_t>(rng, maxdim4, maxdim5, part, parts); break;
    case 4: exhaustive_shapes<float>(rng, maxdim4, maxdim5, part, parts); break;
    case 5: exhaustive_shapes<int16_t>(rng, maxdim4, maxdim5, part, parts); break;
    case 6: exhaustive_shapes<uint8_t>(rng, maxdim4, maxdim5, part, parts); break;
    case 7: exhaustive_shapes<int64_t>(rng, maxdim4, maxdim5, part, parts); break;
    case 8: exhaustive_shapes<uint16_t>(rng, maxdim4, maxdim5, part, parts); break;
    default: exhaustive_shapes<uint32_t>(rng, maxdim4, maxdim5, part, parts); break;
    }
    if (part == 0)
    {
        typed_shapes<int8_t>(rng);
        typed_shapes<int16_t>(rng);
        typed_shapes<int64_t>(rng);
        typed_shapes<uint8_t>(rng);
        typed_shapes<uint16_t>(rng);
        typed_shapes<uint32_t>(rng);
        typed_shapes<uint64_t>(rng);
        typed_shapes<float>(rng);
        typed_shapes<double>(rng);
        misc_cases(rng);
    }
    // random larger shapes up to 1e5 elements
    for (int64_t i = 0; i < nrand; ++i)
    {
        switch (rng.range(1, 5))
        {
        case 1: shape_case<double, 1>(make_dims(rng.range(1, 100000)), rng, false); break;
        case 2: shape_case<double, 2>(make_dims(rng.range(1, 300), rng.range(1, 300)), rng, false); break;
        case 3: shape_case<double, 3>(make_dims(rng.range(1, 40), rng.range(1, 50), rng.range(1, 50)), rng, false); break;
        case 4: shape_case<int32_t, 4>(make_dims(rng.range(1, 17), rng.range(1, 17), rng.range(1, 17), rng.range(1, 17)), rng, false); break;
        default: shape_case<int64_t, 5>(make_dims(rng.range(1, 9), rng.range(1, 9), rng.range(1, 9), rng.range(1, 9), rng.range(1, 9)), rng, false); break;
        }
    }
    vt::put(vt::J("Stack").b("ok", true).s("marker", "end"));
    return 0;
}
