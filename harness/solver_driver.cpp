// C01 / C02 conformance driver: runs the registered solvers on registered and random objectives wrapped in a counting
// function and records the contract events (Start / Evals / Eval / Iter / Ret) for MinimizerTrace.tla.
//   solver_driver <out.ndjson> <seed> <sweep-runs> <truthfulness-runs> <quadratic-runs>
#include "counting.h"
#include "objectives.h"
#include <atomic>
#include <chrono>
#include <nano/core/verif.h>
#include <nano/lsearch0.h>
#include <nano/lsearchk.h>
#include <nano/solver.h>
#include <thread>

using namespace nano;

namespace
{
std::atomic<int64_t> g_started_ms{0};
std::atomic<int64_t> g_case{0};

int64_t now_ms()
{
    return std::chrono::duration_cast<std::chrono::milliseconds>(std::chrono::steady_clock::now().time_since_epoch()).count();
}

void watchdog(int64_t limit_ms)
{
    while (true)
    {
        std::this_thread::sleep_for(std::chrono::milliseconds(250));
        const auto started = g_started_ms.load();
        if (started > 0 && now_ms() - started > limit_ms)
        {
            vt::put(vt::J("Timeout").i("case", g_case.load()));
            _exit(0);
        }
    }
}

using vt::quadratic_t;
using vt::maxlin_t;
using vt::quad_info_t;
using vt::make_quadratic;
using vt::make_maxlin;
using vt::random_x0;

// draw some of the parameters of a solver (or of a line-search object) from their declared domains, sometimes the closed ends of these
// domains (e.g. gsample's miu0 = 0, lsearch_beta = 0, theta = 1, sgm::power in {0.5, 1}); returns true if anything was changed
bool shake(configurable_t& solver, vt::Rng& rng, const int den = 3)
{
    bool changed = false;
    const auto closed = [](const LEorLT& comp) { return std::holds_alternative<LE_t>(comp); };
    for (const auto& param0 : solver.parameters())
    {
        const auto& name = param0.name();
        if (name == "solver::epsilon" || name == "solver::max_evals" || name == "lsearch0::epsilon" || name == "lsearchk::tolerance" || !rng.coin(1, den))
        {
            continue;
        }
        auto& param = solver.parameter(name);
        std::visit(overloaded{[&](const parameter_t::irange_t& r)
                              {
                                  auto lo = r.m_min + (closed(r.m_mincomp) ? 0 : 1);
                                  auto hi = r.m_max - (closed(r.m_maxcomp) ? 0 : 1);
                                  // keep the sizes the property talks about (bundle 2..100) and run times sane
                                  hi = std::min<int64_t>(hi, std::max<int64_t>(lo, std::min<int64_t>(100, 4 * std::max<int64_t>(1, r.m_value))));
                                  if (name == "lsearchk::max_iterations")
                                  {
                                      // the whole domain [1, 10000]: with a handful of iterations the line searches fail routinely (a failed
                                      // search must then leave the solver at a point that is not worse than the current one)
                                      param = rng.coin() ? rng.pick(std::vector<int64_t>{1, 2, 3, 5, 10, 19, 20, 40, 128, 1000, 10000}) : rng.range(1, 200);
                                  }
                                  else
                                  {
                                      param = rng.coin(1, 5) ? (rng.coin() ? lo : hi) : rng.range(lo, hi);
                                  }
                                  changed = true;
                              },
                              [&](const parameter_t::frange_t& r)
                              {
                                  // a closed end of the domain (if there is one)
                                  if ((closed(r.m_mincomp) || closed(r.m_maxcomp)) && rng.coin(1, 4))
                                  {
                                      const auto use_min = closed(r.m_mincomp) && (!closed(r.m_maxcomp) || rng.coin());
                                      param   = use_min ? r.m_min : r.m_max;
                                      changed = true;
                                      return;
                                  }
                                  const auto t = rng.uniform(0.05, 0.95);
                                  const auto v = rng.coin() ? r.m_value + t * (std::min(r.m_max, 4.0 * std::fabs(r.m_value) + 1e-3) - r.m_value)
                                                            : r.m_value + t * (std::max(r.m_min, r.m_value / 4.0) - r.m_value);
                                  if (std::isfinite(v) && v > r.m_min && v < r.m_max)
                                  {
                                      param   = v;
                                      changed = true;
                                  }
                              },
                              [&](const parameter_t::fprange_t& r)
                              {
                                  auto v1 = r.m_value1 + rng.uniform(0.1, 0.9) * (r.m_min - r.m_value1) * 0.5;
                                  auto v2 = r.m_value2 + rng.uniform(0.1, 0.9) * (std::min(r.m_max, 10.0 * r.m_value2) - r.m_value2) * 0.5;
                                  if (closed(r.m_valcomp) && rng.coin(1, 4))
                                  {
                                      v1 = v2 = rng.uniform(v1, v2); // both values equal where the domain allows it
                                      param   = std::make_tuple(v1, v2);
                                      changed = true;
                                      return;
                                  }
                                  if (std::isfinite(v1) && std::isfinite(v2) && r.m_min < v1 && v1 < v2 && v2 < r.m_max)
                                  {
                                      param   = std::make_tuple(v1, v2);
                                      changed = true;
                                  }
                              },
                              [&](const parameter_t::enum_t& e)
                              {
                                  param   = e.m_domain[static_cast<size_t>(rng.range(0, static_cast<int64_t>(e.m_domain.size()) - 1))];
                                  changed = true;
                              },
                              [&](const auto&) {}},
                   param0.storage());
    }
    return changed;
}

// line-search objects with their own parameters drawn from their domains, handed over through solver_t::lsearch0 / lsearchk(const object&)
// (lsearchk::max_iterations, lsearch0::*, the interpolation modes ... are otherwise always at their defaults); empty id = keep the kind
void configure_lsearch(solver_t& solver, vt::Rng& rng, const std::string& ls0_id, const std::string& lsk_id)
{
    auto ls0 = ls0_id.empty() ? solver.lsearch0().clone() : lsearch0_t::all().get(ls0_id);
    auto lsk = lsk_id.empty() ? solver.lsearchk().clone() : lsearchk_t::all().get(lsk_id);
    shake(*ls0, rng, 2);
    shake(*lsk, rng, 2);
    solver.lsearch0(*ls0);
    solver.lsearchk(*lsk);
}

struct run_cfg_t
{
    bool   budget{true};  // default line-search related settings: the budget clause applies
    bool   quad{false};   // the C01 convergence clause applies
    int    precalls{0};   // evaluations made through the counting wrapper BEFORE minimize(): they do not belong to the run
    double eps{1e-8};
    const quad_info_t* qinfo{nullptr};
};

void run(const solver_t& solver, const function_t& inner, const vector_t& x0, const run_cfg_t& rc, int64_t icase, const std::string& desc)
{
    vt::counting_function_t function(inner);
    vt::capture_stream_t    stream(function);
    const auto              logger    = make_stream_logger(stream);
    const auto              max_evals = solver.parameter("solver::max_evals").value<int64_t>();
    const auto              ls        = solver.type() == solver_type::line_search;
    const auto              n         = inner.size();

    // the wrapper is not always fresh (solver_t::minimize must report the evaluations of THIS run only): the wrapper's own log and the
    // logger lines are read from the call of minimize() on
    for (int k = 0; k < rc.precalls; ++k)
    {
        vector_t g(n);
        (k % 2 == 0) ? function.vgrad(x0, g) : function.vgrad(x0);
    }
    function.reset();
    stream.clear();

    g_case.store(icase);
    g_started_ms.store(now_ms());
    solver_state_t state;
    bool           threw = false;
    std::string    what;
    try
    {
        state = solver.minimize(function, x0, logger);
    }
    catch (const std::exception& e)
    {
        threw = true;
        what  = e.what();
    }
    g_started_ms.store(0);

    const auto& evals = function.evals();
    vt::put(vt::J("Reset").i("case", icase).s("desc", desc));
    if (threw || evals.empty())
    {
        vt::put(vt::J("Abort").s("why", "minimize threw: " + what));
        return;
    }
    const auto& first   = evals.front();
    const auto  startOK = std::isfinite(first.f) && std::fabs(first.f) < 1e8 && first.grad && vt::all_finite(first.g) && first.g.lpNorm<Eigen::Infinity>() < 1e8;
    if (!std::isfinite(first.f))
    {
        return; // the property is about starting points with a finite value
    }
    const auto id     = solver.type_id();
    const auto inClass = ls ? inner.smooth() : (id == "rqb" ? inner.convex() : true);

    // which evaluation is the returned point?
    int64_t rid = 0;
    bool    fxEq = false, gxEq = false;
    for (size_t i = evals.size(); i-- > 0;)
    {
        const auto& e = evals[i];
        if (vt::same_bits(e.x, state.x()))
        {
            const auto feq = vt::same_bits(e.f, state.fx());
            const auto geq = e.grad && vt::same_bits(e.g, state.gx());
            if (rid == 0 || (feq && !fxEq) || (feq && geq && !gxEq))
            {
                rid  = static_cast<int64_t>(i) + 1;
                fxEq = feq;
                gxEq = geq;
            }
            if (fxEq && (gxEq || !ls))
            {
                break;
            }
        }
    }
    // ranks of the start and returned values
    const auto rank_of = [&](double f) -> int64_t
    {
        if (!std::isfinite(f))
        {
            return 99;
        }
        const auto fret = rid > 0 ? evals[static_cast<size_t>(rid - 1)].f : first.f;
        const auto lo   = std::min(first.f, std::isfinite(fret) ? fret : first.f);
        return f == lo ? 0 : 1;
    };
    const auto gtest_of = [&](const vt::eval_t& e) { return e.grad && vt::gradient_test(e) < rc.eps; };

    vt::put(vt::J("Start").s("solver", id).b("ls", ls).i("n", n).i("maxEvals", std::min<int64_t>(max_evals, 2000000000)).b("budget", rc.budget).b(
        "inClass", inClass).b("startOK", startOK).b("quad", rc.quad));
    size_t  iiter = 0;
    int64_t run_count = 0, run_grad = 0;
    const auto& iters = stream.iters();
    const auto flush  = [&]()
    {
        if (run_count > 0)
        {
            vt::put(vt::J("Evals").i("count", run_count).i("ngrad", run_grad));
            run_count = run_grad = 0;
        }
    };
    for (size_t i = 0; i < evals.size(); ++i)
    {
        while (iiter < iters.size() && iters[iiter].after == static_cast<int64_t>(i))
        {
            flush();
            vt::put(vt::J("Iter").i("fcalls", iters[iiter].fcalls).i("gcalls", iters[iiter].gcalls));
            ++iiter;
        }
        const auto& e = evals[i];
        if (i == 0 || static_cast<int64_t>(i) + 1 == rid)
        {
            flush();
            vt::put(vt::J("Eval").i("id", static_cast<int64_t>(i) + 1).b("grad", e.grad).b("finite", std::isfinite(e.f) && (!e.grad || vt::all_finite(e.g))).i(
                "frank", rank_of(e.f)).b("gtest", gtest_of(e)));
        }
        else
        {
            ++run_count;
            run_grad += e.grad ? 1 : 0;
        }
    }
    flush();
    while (iiter < iters.size())
    {
        vt::put(vt::J("Iter").i("fcalls", iters[iiter].fcalls).i("gcalls", iters[iiter].gcalls));
        ++iiter;
    }
    const auto status = state.status() == solver_status::converged ? "converged" : state.status() == solver_status::failed ? "failed" : "max_iters";
    const auto uses_cgdescent = ls && solver.lsearchk().type_id() == "cgdescent";
    const auto allowOK = uses_cgdescent && std::isfinite(state.fx()) && state.fx() <= first.f + 5e-4 * (1.0 + std::fabs(first.f));
    bool       accOK   = true;
    if (rc.quad && rc.qinfo != nullptr)
    {
        const auto err   = (state.x() - rc.qinfo->xstar).lpNorm<2>();
        const auto bound = std::sqrt(static_cast<double>(n)) * rc.eps * std::max(1.0, std::fabs(state.fx())) / rc.qinfo->lambda_min;
        accOK            = err <= bound;
    }
    vt::put(vt::J("Ret")
                .s("status", status)
                .i("id", rid)
                .b("fxEq", fxEq)
                .b("gxEq", gxEq)
                .i("fcalls", state.fcalls())
                .i("gcalls", state.gcalls())
                .b("dimOK", state.x().size() == n && state.gx().size() == n)
                .b("finite", std::isfinite(state.fx()) && vt::all_finite(state.x()))
                .b("allowOK", allowOK)
                .b("accOK", accOK));
}
} // namespace

int main(int argc, char* argv[])
{
    if (argc < 6)
    {
        std::fprintf(stderr, "usage: solver_driver <out.ndjson> <seed> <sweep-runs> <truthfulness-runs> <quadratic-runs>\n");
        return 2;
    }
    vt::Trace::get().open(argv[1]);
    const auto seed = static_cast<uint64_t>(std::atoll(argv[2]));
    vt::Rng    rng(seed);
    const auto nsweep = std::atoll(argv[3]), ntruth = std::atoll(argv[4]), nquad = std::atoll(argv[5]);
    std::thread(watchdog, 300000).detach();
    verif::set_default_seed(static_cast<int64_t>(seed % 100000));

    function_t::config_t config;
    config.m_min_dims = 1;
    config.m_max_dims = 32;
    config.m_summands = 20;
    const auto functions = function_t::make(config);
    config.m_smoothness  = smoothness::yes;
    const auto smooth_functions = function_t::make(config);
    // (function_t::make only instantiates dims 1, 2, 3, 4, 8, 16, 32: add every other dimension up to 32, with other summand counts)
    auto functions_x = function_t::make(config);
    functions_x.clear();
    for (const auto& fid : function_t::all().ids())
    {
        for (int k = 0; k < 2; ++k)
        {
            const auto proto = function_t::all().get(fid);
            try
            {
                auto f = proto->make(rng.range(1, 32), rng.range(5, 40));
                if (f)
                {
                    functions_x.push_back(std::move(f));
                }
            }
            catch (const std::exception&)
            {
            }
        }
    }
    const auto solver_ids       = solver_t::all().ids();
    const auto ls0_ids          = lsearch0_t::all().ids();
    const auto lsk_ids          = lsearchk_t::all().ids();
    int64_t    icase            = 0;

    // (a) C02: every solver on registered / random objectives with random budgets and parameters
    for (int64_t i = 0; i < nsweep; ++i)
    {
        const auto& id     = solver_ids[static_cast<size_t>((i + static_cast<int64_t>(seed)) % static_cast<int64_t>(solver_ids.size()))];
        auto        solver = solver_t::all().get(id);
        const auto  eps    = std::pow(10.0, rng.uniform(-10.0, -2.0));
        const auto  evals  = rng.coin(1, 4) ? rng.pick(std::vector<int64_t>{10, 11, 5000}) : static_cast<int64_t>(std::pow(10.0, rng.uniform(1.0, 3.699)));
        solver->parameter("solver::epsilon")   = eps;
        solver->parameter("solver::max_evals") = evals;
        run_cfg_t rc;
        rc.eps    = eps;
        rc.budget = !(rng.coin(1, 3) && shake(*solver, rng));
        std::string lsdesc;
        if (solver->type() == solver_type::line_search && rng.coin(1, 4))
        {
            // configured line-search objects (of the solver's own kinds, or of any other kind)
            const auto other = rng.coin(1, 3);
            configure_lsearch(*solver, rng, other ? rng.pick(ls0_ids) : std::string(), other ? rng.pick(lsk_ids) : std::string());
            rc.budget = false;
            lsdesc    = " (configured line search " + solver->lsearch0().type_id() + "/" + solver->lsearchk().type_id() + ")";
        }
        rc.precalls = rng.coin(1, 4) ? static_cast<int>(rng.range(1, 5)) : 0;
        std::unique_ptr<function_t> own;
        const function_t*           function = nullptr;
        const auto                  kind     = rng.range(0, 9);
        quad_info_t                 qinfo;
        if (kind == 0)
        {
            own      = make_quadratic(rng, rng.range(1, 16), qinfo);
            function = own.get();
        }
        else if (kind == 1)
        {
            own      = make_maxlin(rng, rng.range(1, 12));
            function = own.get();
        }
        else
        {
            const auto& pool = (rng.coin() && !functions_x.empty()) ? functions_x : functions;
            function = pool[static_cast<size_t>(rng.range(0, static_cast<int64_t>(pool.size()) - 1))].get();
        }
        const auto radius = std::pow(10.0, rng.uniform(-3.0, 1.0));
        run(*solver, *function, random_x0(rng, function->size(), radius), rc, icase++,
            id + " on " + function->name() + " evals=" + std::to_string(evals) + (rc.budget ? "" : " (shaken parameters)") + lsdesc);
    }
    // (b) C01 truthfulness: line-search solvers x lsearch0 x lsearchk x tolerances x epsilon on smooth functions
    std::vector<std::string> ls_ids;
    for (const auto& id : solver_ids)
    {
        if (solver_t::all().get(id)->type() == solver_type::line_search)
        {
            ls_ids.push_back(id);
        }
    }
    for (int64_t i = 0; i < ntruth; ++i)
    {
        const auto& id     = ls_ids[static_cast<size_t>((i + static_cast<int64_t>(seed)) % static_cast<int64_t>(ls_ids.size()))];
        auto        solver = solver_t::all().get(id);
        const auto  eps    = std::pow(10.0, rng.uniform(-12.0, -2.0));
        solver->parameter("solver::epsilon")   = eps;
        solver->parameter("solver::max_evals") = rng.pick(std::vector<int64_t>{30, 100, 300, 1000, 3000});
        const auto ls0 = rng.pick(ls0_ids), lsk = rng.pick(lsk_ids);
        // the solver's own parameters (lbfgs::history, quasi::initialization, sr1::r, cgd::orthotest, cgdN::eta ...) anywhere in their domains:
        // a `converged` status must be truthful for any of them
        const auto shaken = rng.coin() && shake(*solver, rng, 2);
        const auto configured = rng.coin();
        if (configured)
        {
            configure_lsearch(*solver, rng, ls0, lsk);
        }
        else
        {
            solver->lsearch0(ls0);
            solver->lsearchk(lsk);
        }
        // (c1, c2) anywhere in the parameter domain 0 < c1 < c2 < 1: mostly log-uniform small c1, sometimes c1 close to 1 or c2 close to c1 / 1
        const auto c1 = rng.coin(1, 5) ? rng.uniform(0.3, 0.98) : std::pow(10.0, rng.uniform(-8.0, -0.5));
        const auto c2 = c1 + (1.0 - c1) * (rng.coin(1, 5) ? rng.pick(std::vector<double>{1e-3, 0.999}) : rng.uniform(0.05, 0.95));
        solver->parameter("solver::tolerance") = std::make_tuple(c1, c2);
        run_cfg_t rc;
        rc.eps      = eps;
        rc.budget   = false;
        rc.precalls = rng.coin(1, 4) ? static_cast<int>(rng.range(1, 5)) : 0;
        const function_t* pfunction = smooth_functions[static_cast<size_t>(rng.range(0, static_cast<int64_t>(smooth_functions.size()) - 1))].get();
        for (int tries = 0; tries < 8 && rng.coin(); ++tries)
        {
            const auto& candidate = *functions_x[static_cast<size_t>(rng.range(0, static_cast<int64_t>(functions_x.size()) - 1))];
            if (candidate.smooth())
            {
                pfunction = &candidate;
                break;
            }
        }
        const auto& function = *pfunction;
        run(*solver, function, random_x0(rng, function.size(), std::pow(10.0, rng.uniform(-2.0, 1.0))), rc, icase++,
            id + "/" + ls0 + "/" + lsk + " on " + function.name() + (shaken ? " (shaken parameters)" : "") + (configured ? " (configured line search)" : ""));
    }
    // (c) C01 convergence: lbfgs / bfgs on well-conditioned quadratics at epsilon = 1e-8
    for (int64_t i = 0; i < nquad; ++i)
    {
        auto solver = solver_t::all().get(i % 2 == 0 ? "lbfgs" : "bfgs");
        solver->parameter("solver::epsilon")   = 1e-8;
        solver->parameter("solver::max_evals") = 5000;
        if (i % 2 == 1 && rng.coin())
        {
            // BFGS with the other initialisation of the inverse Hessian
            const auto e = std::get<parameter_t::enum_t>(solver->parameter("solver::quasi::initialization").storage());
            solver->parameter("solver::quasi::initialization") = e.m_domain[static_cast<size_t>(rng.range(0, static_cast<int64_t>(e.m_domain.size()) - 1))];
        }
        quad_info_t qinfo;
        const auto  hard     = static_cast<int>(rng.pick(std::vector<int64_t>{0, 0, 0, 1, 2, 3}));
        const auto  function = make_quadratic(rng, hard == 3 ? 16 : (rng.coin(1, 3) ? rng.range(13, 16) : rng.range(1, 16)), qinfo, hard);
        run_cfg_t   rc;
        rc.eps      = 1e-8;
        rc.quad     = true;
        rc.qinfo    = &qinfo;
        rc.precalls = rng.coin(1, 4) ? static_cast<int>(rng.range(1, 5)) : 0;
        auto x0 = random_x0(rng, function->size(), 10.0);
        if (hard == 3)
        {
            for (tensor_size_t k = 0; k < x0.size(); ++k)
            {
                x0(k) = rng.coin() ? -10.0 : 10.0; // a corner of the start box
            }
        }
        run(*solver, *function, x0, rc, icase++, solver->type_id() + " on quadratic");
    }
    vt::put(vt::J("Reset").i("case", -1).s("desc", "end"));
    return 0;
}
