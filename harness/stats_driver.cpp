// C20 conformance driver: records calls of percentile / median / histogram_t / ml::store_stats on the exact lattice
// (values multiples of 1/4, logged in units of 1/64) for re-computation by TLC (OrderStatsTrace.tla).
//   stats_driver <out.ndjson> <seed> <exhaustive-maxlen> <random-cases>
#include "trace.h"
#include <nano/core/histogram.h>
#include <nano/core/stats.h>
#include <nano/machine/stats.h>

using namespace nano;

namespace
{
constexpr double  Unit = 64.0;
constexpr int64_t Nan  = -2000000000;

int64_t lat(double x, double scale = Unit)
{
    if (std::isnan(x))
    {
        return Nan;
    }
    int64_t out = 0;
    if (!vt::to_lattice(x, scale, out))
    {
        vt::put(vt::J("Inexact").s("what", std::to_string(x)));
        return Nan + 1;
    }
    return out;
}

template <class tvalue>
std::vector<int64_t> lats(const std::vector<tvalue>& xs)
{
    std::vector<int64_t> out;
    for (const auto x : xs)
    {
        out.push_back(lat(static_cast<double>(x)));
    }
    return out;
}

template <class tvalue>
void pct_case(const std::vector<tvalue>& values, int64_t p8)
{
    const double p = static_cast<double>(p8) / 8.0;
    {
        auto copy = values;
        const auto out = percentile(copy.begin(), copy.end(), p);
        vt::put(vt::J("Pct").s("variant", "unsorted").a("vals", lats(values)).i("p8", p8).i("out2", lat(out, 2 * Unit)));
    }
    {
        auto copy = values;
        std::sort(copy.begin(), copy.end());
        const auto out = percentile_sorted(copy.begin(), copy.end(), p);
        vt::put(vt::J("Pct").s("variant", "sorted").a("vals", lats(values)).i("p8", p8).i("out2", lat(out, 2 * Unit)));
    }
    if (p8 == 400)
    {
        auto copy = values;
        const auto out = median(copy.begin(), copy.end());
        vt::put(vt::J("Pct").s("variant", "median").a("vals", lats(values)).i("p8", 400).i("out2", lat(out, 2 * Unit)));
        std::sort(copy.begin(), copy.end());
        const auto outs = median_sorted(copy.begin(), copy.end());
        vt::put(vt::J("Pct").s("variant", "median_sorted").a("vals", lats(values)).i("p8", 400).i("out2", lat(outs, 2 * Unit)));
    }
}

template <class tvalue>
void hist_case(const std::vector<tvalue>& values, const std::string& ctor, const std::vector<double>& args, const std::vector<double>& queries)
{
    auto                      copy = values;
    tensor_mem_t<scalar_t, 1> targs(static_cast<tensor_size_t>(args.size()));
    for (size_t i = 0; i < args.size(); ++i)
    {
        targs(static_cast<tensor_size_t>(i)) = args[i];
    }
    histogram_t h;
    std::vector<int64_t> largs;
    if (ctor == "thresholds")
    {
        h     = histogram_t::make_from_thresholds(copy.begin(), copy.end(), targs);
        largs = lats(args);
    }
    else if (ctor == "ratios")
    {
        h = histogram_t::make_from_ratios(copy.begin(), copy.end(), targs);
        for (const auto a : args)
        {
            largs.push_back(lat(a, 8.0));
        }
    }
    else if (ctor == "percentiles")
    {
        h = histogram_t::make_from_percentiles(copy.begin(), copy.end(), targs);
        for (const auto a : args)
        {
            largs.push_back(lat(a, 8.0));
        }
    }
    else
    {
        h = histogram_t::make_from_exponents(copy.begin(), copy.end(), 2.0);
    }
    std::vector<int64_t> thr, counts, sums, medians2, lq, bins, lv;
    for (const auto v : values)
    {
        lv.push_back(lat(static_cast<double>(v)));
    }
    for (tensor_size_t i = 0; i < h.thresholds().size(); ++i)
    {
        thr.push_back(lat(h.thresholds()(i)));
    }
    for (tensor_size_t b = 0; b < h.bins(); ++b)
    {
        counts.push_back(h.count(b));
        sums.push_back(std::isnan(h.mean(b)) ? Nan : lat(h.mean(b) * static_cast<double>(h.count(b))));
        medians2.push_back(lat(h.median(b), 2 * Unit));
    }
    for (const auto q : queries)
    {
        lq.push_back(lat(q));
        bins.push_back(h.bin(q));
    }
    // integer queries go through the integer overload of bin()
    for (const auto q : queries)
    {
        if (q == std::floor(q) && std::fabs(q) < 1e6)
        {
            lq.push_back(lat(q));
            bins.push_back(h.bin(static_cast<int64_t>(q)));
        }
    }
    vt::put(vt::J("Hist").s("ctor", ctor).a("vals", lv).a("args", largs).a("thr", thr).a("counts", counts).a("sums", sums).a("medians2", medians2).a(
        "queries", lq).a("bins", bins));
}

void stats_case(const std::vector<double>& values)
{
    tensor1d_t v(static_cast<tensor_size_t>(values.size())), out(12);
    for (size_t i = 0; i < values.size(); ++i)
    {
        v(static_cast<tensor_size_t>(i)) = values[i];
    }
    ml::store_stats(v.tensor(), out.tensor());
    const auto           s = ml::load_stats(out.tensor());
    std::vector<int64_t> pers2{lat(s.m_per01, 2 * Unit), lat(s.m_per05, 2 * Unit), lat(s.m_per10, 2 * Unit), lat(s.m_per20, 2 * Unit),
                               lat(s.m_per50, 2 * Unit), lat(s.m_per80, 2 * Unit), lat(s.m_per90, 2 * Unit), lat(s.m_per95, 2 * Unit),
                               lat(s.m_per99, 2 * Unit)};
    vt::put(vt::J("Stats").a("vals", lats(values)).i("sum", lat(s.m_mean * s.m_count)).i("count", static_cast<int64_t>(s.m_count)).a("pers2", pers2));
}
} // namespace

int main(int argc, char* argv[])
{
    if (argc < 5)
    {
        std::fprintf(stderr, "usage: stats_driver <out.ndjson> <seed> <exhaustive-maxlen> <random-cases> [sweep-lo sweep-hi]\n");
        return 2;
    }
    vt::Trace::get().open(argv[1]);
    vt::Rng    rng(static_cast<uint64_t>(std::atoll(argv[2])));
    const auto maxlen = std::atoll(argv[3]);
    const auto nrand  = std::atoll(argv[4]);

    // exhaustive: all lists of length <= maxlen over 5 lattice values x percentages x (<=2 thresholds) x all lattice queries
    const std::vector<double> alphabet{-0.5, 0.0, 0.25, 0.75, 1.0};
    const std::vector<double> thralpha{-0.4375, 0.0, 0.5, 0.75, 1.25};
    std::vector<double>       queries;
    for (double q = -1.0; q <= 1.5; q += 0.125)
    {
        queries.push_back(q);
    }
    for (int64_t len = 1; len <= maxlen; ++len)
    {
        int64_t total = 1;
        for (int64_t i = 0; i < len; ++i)
        {
            total *= static_cast<int64_t>(alphabet.size());
        }
        for (int64_t code = 0; code < total; ++code)
        {
            std::vector<double> values;
            for (int64_t i = 0, c = code; i < len; ++i, c /= 5)
            {
                values.push_back(alphabet[static_cast<size_t>(c % 5)]);
            }
            for (const auto p8 : {0, 8, 100, 200, 264, 400, 536, 600, 700, 792, 800})
            {
                pct_case(values, p8);
            }
            for (size_t a = 0; a < thralpha.size(); ++a)
            {
                hist_case(values, "thresholds", {thralpha[a]}, queries);
                for (size_t b = a; b < thralpha.size(); ++b)
                {
                    hist_case(values, "thresholds", {thralpha[b], thralpha[a]}, queries);
                }
            }
            hist_case(values, "ratios", {0.25, 0.5}, queries);
            hist_case(values, "percentiles", {25.0, 62.5}, queries);
            stats_case(values);
        }
    }
    // random: lists of 1..500 values with ties and negatives, 1..20 thresholds incl. duplicates and out-of-range
    for (int64_t i = 0; i < nrand; ++i)
    {
        const auto          n     = rng.coin(1, 4) ? rng.range(1, 500) : rng.range(1, 40);
        const auto          range = rng.pick(std::vector<int64_t>{2, 8, 40, 400});
        std::vector<double> values;
        std::vector<int64_t> ivalues;
        for (int64_t k = 0; k < n; ++k)
        {
            values.push_back(static_cast<double>(rng.range(-range, range)) / 4.0);
            ivalues.push_back(rng.range(-range, range));
        }
        pct_case(values, rng.range(0, 800));
        pct_case(values, rng.pick(std::vector<int64_t>{0, 400, 800}));
        pct_case(ivalues, 8 * rng.range(0, 100)); // integer lists (the result is a real number: midpoints)
        pct_case(ivalues, rng.pick(std::vector<int64_t>{0, 400, 800}));
        const auto          nthr = rng.range(1, 20);
        std::vector<double> thr, qs;
        for (int64_t k = 0; k < nthr; ++k)
        {
            thr.push_back(rng.coin(1, 5) && !thr.empty() ? thr.back() : static_cast<double>(rng.range(-range * 20, range * 20)) / 64.0);
        }
        for (int64_t k = 0; k < 12; ++k)
        {
            qs.push_back(static_cast<double>(rng.range(-range * 20, range * 20)) / 64.0);
        }
        for (const auto t : thr)
        {
            qs.push_back(t);
            qs.push_back(t + 1.0 / 64.0);
            qs.push_back(t - 1.0 / 64.0);
        }
        qs.push_back(static_cast<double>(range) * 10.0);
        qs.push_back(-static_cast<double>(range) * 10.0);
        hist_case(values, "thresholds", thr, qs);
        hist_case(ivalues, "thresholds", thr, qs);
        std::vector<double> ratios, percentiles;
        for (int64_t k = 0, m = rng.range(1, 7); k < m; ++k)
        {
            ratios.push_back(static_cast<double>(rng.range(1, 7)) / 8.0);
            percentiles.push_back(static_cast<double>(rng.range(1, 799)) / 8.0);
        }
        hist_case(values, "ratios", ratios, qs);
        hist_case(values, "percentiles", percentiles, qs);
        hist_case(ivalues, "ratios", ratios, qs);
        hist_case(ivalues, "percentiles", percentiles, qs);
        if (rng.coin(1, 3))
        {
            // the ends of the ratio / percentile ranges as arguments
            hist_case(values, "ratios", {0.0, 0.5, 1.0}, qs);
            hist_case(values, "percentiles", {0.0, 50.0, 100.0}, qs);
        }
        // exponents with base 2 on values that are not zero
        std::vector<double> pvalues;
        for (const auto v : values)
        {
            pvalues.push_back(v == 0.0 ? 0.25 : v);
        }
        hist_case(pvalues, "exponents", {}, qs);
        stats_case(values);
    }
    // integer percentages whose position p (n - 1) / 100 is integral: the percentile is exactly one element of the sorted list (a position
    // computed one ulp off would return the midpoint of two neighbours); distinct values so that neighbours differ
    const auto sweep_lo = argc > 6 ? std::atoll(argv[5]) : 1, sweep_hi = argc > 6 ? std::atoll(argv[6]) : 0;
    for (int64_t n = sweep_lo; n <= sweep_hi; ++n)
    {
        std::vector<double> values;
        for (int64_t k = 0; k < n; ++k)
        {
            values.push_back(static_cast<double>(2 * k - n) / 4.0 * static_cast<double>(1 + (k % 3)));
        }
        for (size_t i = values.size(); i > 1; --i)
        {
            std::swap(values[i - 1], values[static_cast<size_t>(rng.range(0, static_cast<int64_t>(i) - 1))]);
        }
        for (int64_t p = 0; p <= 100; ++p)
        {
            if ((p * (n - 1)) % 100 == 0 || rng.coin(1, 25))
            {
                pct_case(values, 8 * p);
            }
        }
    }
    vt::put(vt::J("Pct").s("variant", "end-marker").a("vals", std::vector<int64_t>{0}).i("p8", 0).i("out2", 0));
    return 0;
}
