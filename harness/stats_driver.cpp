// C20 conformance driver: records calls of percentile / median / histogram_t / ml::store_stats on the exact lattice
// (values multiples of 1/4, logged in units of 1/64) for re-computation by TLC (OrderStatsTrace.tla).
//   stats_driver <out.ndjson> <seed> <exhaustive-maxlen> <random-cases>
#include "trace.h"
#include <nano/core/histogram.h>
#include <nano/core/stats.h>
#include <nano/machine/stats.h>

using namespace nano;

namespace
{
constexpr double  Unit = 64.0;
constexpr int64_t Nan  = -2000000000;

int64_t lat(double x, double scale = Unit)
{
    if (std::isnan(x))
    {
        return Nan;
    }
    int64_t out = 0;
    if (!vt::to_lattice(x, scale, out))
    {
        vt::put(vt::J("Inexact").s("what", std::to_string(x)));
        return Nan + 1;
    }
    return out;
}

template <class tvalue>
std::vector<int64_t> lats(const std::vector<tvalue>& xs)
{
    std::vector<int64_t> out;
    for (const auto x : xs)
    {
        out.push_back(lat(static_cast<double>(x)));
    }
    return out;
}

template <class tvalue>
void pct_case(const std::vector<tvalue>& values, int64_t p8)
{
    const double p = static_cast<double>(p8) / 8.0;
    {
        auto copy = values;
        const auto out = percentile(copy.begin(), copy.end(), p);
        vt::put(vt::J("Pct").s("variant", "unsorted").a("vals", lats(values)).i("p8", p8).i("out2", lat(out, 2 * Unit)));
    }
    {
        auto copy = values;
        std::sort(copy.begin(), copy.end());
        const auto out = percentile_sorted(copy.begin(), copy.end(), p);
        vt::put(vt::J("Pct").s("variant", "sorted").a("vals", lats(values)).i("p8", p8).i("out2", lat(out, 2 * Unit)));
    }
    if (p8 == 400)
    {
        auto copy = values;
        const auto out = median(copy.begin(), copy.end());
        vt::put(vt::J("Pct").s("variant", "median").a("vals", lats(values)).i("p8", 400).i("out2", lat(out, 2 * Unit)));
        std::sort(copy.begin(), copy.end());
        const auto outs = median_sorted(copy.begin(), copy.end());
        vt::put(vt::J("Pct").s("variant", "median_sorted").a("vals", lats(values)).i("p8", 400).i("out2", lat(outs, 2 * Unit)));
    }
}

// the vector accessors agree with the per-bin getters
bool same_or_nan(const double a, const double b)
{
    return (std::isnan(a) && std::isnan(b)) || a == b;
}

bool vectors_ok(const histogram_t& h)
{
    auto ok = h.counts().size() == h.bins() && h.means().size() == h.bins() && h.medians().size() == h.bins() && h.thresholds().size() + 1 == h.bins();
    for (tensor_size_t b = 0; ok && b < h.bins(); ++b)
    {
        ok = h.counts()(b) == h.count(b) && same_or_nan(h.means()(b), h.mean(b)) && same_or_nan(h.medians()(b), h.median(b));
    }
    return ok;
}

// `equidistant` > 0: the overloads taking the number of bins (ratios, percentiles), `args` are then the ratios / percentages that the
// documentation defines (k / bins resp. 100 k / bins, k = 1..bins-1) for re-computation by TLC; exponents: base `base` and `epsilon`
template <class tvalue>
void hist_case(const std::vector<tvalue>& values, const std::string& ctor, const std::vector<double>& args, const std::vector<double>& queries,
               const tensor_size_t equidistant = 0, const double base = 2.0, const double epsilon = 0.0)
{
    auto                      copy = values;
    tensor_mem_t<scalar_t, 1> targs(static_cast<tensor_size_t>(args.size()));
    for (size_t i = 0; i < args.size(); ++i)
    {
        targs(static_cast<tensor_size_t>(i)) = args[i];
    }
    histogram_t h;
    std::vector<int64_t> largs;
    if (ctor == "thresholds")
    {
        h     = histogram_t::make_from_thresholds(copy.begin(), copy.end(), targs);
        largs = lats(args);
    }
    else if (ctor == "ratios")
    {
        h = equidistant > 0 ? histogram_t::make_from_ratios(copy.begin(), copy.end(), equidistant) : histogram_t::make_from_ratios(copy.begin(), copy.end(), targs);
        for (const auto a : args)
        {
            largs.push_back(lat(a, 8.0));
        }
    }
    else if (ctor == "percentiles")
    {
        h = equidistant > 0 ? histogram_t::make_from_percentiles(copy.begin(), copy.end(), equidistant) :
                              histogram_t::make_from_percentiles(copy.begin(), copy.end(), targs);
        for (const auto a : args)
        {
            largs.push_back(lat(a, 8.0));
        }
    }
    else
    {
        h = epsilon > 0.0 ? histogram_t::make_from_exponents(copy.begin(), copy.end(), base, epsilon) : histogram_t::make_from_exponents(copy.begin(), copy.end(), base);
    }
    std::vector<int64_t> thr, counts, sums, medians2, lq, bins, lv;
    for (const auto v : values)
    {
        lv.push_back(lat(static_cast<double>(v)));
    }
    for (tensor_size_t i = 0; i < h.thresholds().size(); ++i)
    {
        thr.push_back(lat(h.thresholds()(i)));
    }
    for (tensor_size_t b = 0; b < h.bins(); ++b)
    {
        counts.push_back(h.count(b));
        sums.push_back(std::isnan(h.mean(b)) ? Nan : lat(h.mean(b) * static_cast<double>(h.count(b))));
        medians2.push_back(lat(h.median(b), 2 * Unit));
    }
    for (const auto q : queries)
    {
        lq.push_back(lat(q));
        bins.push_back(h.bin(q));
    }
    // integer queries go through the integer overload of bin()
    for (const auto q : queries)
    {
        if (q == std::floor(q) && std::fabs(q) < 1e6)
        {
            lq.push_back(lat(q));
            bins.push_back(h.bin(static_cast<int64_t>(q)));
        }
    }
    vt::put(vt::J("Hist").s("ctor", ctor).a("vals", lv).a("args", largs).a("thr", thr).a("counts", counts).a("sums", sums).a("medians2", medians2).a(
        "queries", lq).a("bins", bins).i("equidistant", equidistant).b("vecOK", vectors_ok(h)));
}

// ---- real-valued oracle (environment predicates): thresholds that are not on the lattice (equidistant ratios / percentiles for any number of
// bins, exponents with any base and epsilon incl. values at and below epsilon): the clauses of the property relative to the reported
// thresholds are decided by the driver with a naive re-computation
struct histf_t
{
    bool sumOK{true}, partOK{true}, binOK{true}, vecOK{true}, sortedOK{true};
};

int64_t bin_of(const std::vector<double>& thr, const double v)
{
    int64_t bin = 0;
    for (const auto t : thr)
    {
        bin += t <= v ? 1 : 0; // the counting rule: a value goes to the right of every threshold it reaches
    }
    return bin;
}

histf_t check_hist(const histogram_t& h, std::vector<double> values, std::vector<double> queries)
{
    histf_t out;
    std::sort(values.begin(), values.end());
    std::vector<double> thr;
    for (tensor_size_t i = 0; i < h.thresholds().size(); ++i)
    {
        thr.push_back(h.thresholds()(i));
        out.sortedOK = out.sortedOK && (i == 0 || h.thresholds()(i - 1) <= h.thresholds()(i));
    }
    out.vecOK = vectors_ok(h);
    if (h.bins() != static_cast<tensor_size_t>(thr.size()) + 1)
    {
        out.partOK = false;
        return out;
    }
    tensor_size_t total = 0;
    for (tensor_size_t b = 0; b < h.bins(); ++b)
    {
        std::vector<double> in;
        long double         sum = 0, big = 0;
        for (const auto v : values)
        {
            if (bin_of(thr, v) == b)
            {
                in.push_back(v);
                sum += v;
                big = std::max<long double>(big, std::fabs(v));
            }
        }
        total += h.count(b);
        out.partOK = out.partOK && h.count(b) == static_cast<tensor_size_t>(in.size());
        if (in.empty())
        {
            out.partOK = out.partOK && std::isnan(h.mean(b)) && std::isnan(h.median(b));
        }
        else
        {
            const auto n   = in.size();
            const auto med = (static_cast<long double>(in[(n - 1) / 2]) + static_cast<long double>(in[n / 2])) / 2; // position 50 (n - 1) / 100
            const auto tol = 1e-12L * std::max<long double>(big, 1e-300L);
            out.partOK     = out.partOK && std::fabs(h.mean(b) - sum / n) <= tol && std::fabs(h.median(b) - med) <= tol;
        }
    }
    out.sumOK = total == static_cast<tensor_size_t>(values.size());
    // queries: given ones, every threshold and its neighbours, every value, far away
    for (const auto t : thr)
    {
        queries.push_back(t);
        queries.push_back(std::nextafter(t, std::numeric_limits<double>::infinity()));
        queries.push_back(std::nextafter(t, -std::numeric_limits<double>::infinity()));
    }
    queries.insert(queries.end(), values.begin(), values.end());
    queries.push_back(1e300);
    queries.push_back(-1e300);
    queries.push_back(0.0);
    for (const auto q : queries)
    {
        out.binOK = out.binOK && h.bin(q) == bin_of(thr, q);
    }
    return out;
}

void put_histf(const std::string& ctor, const int64_t n, const histogram_t& h, const histf_t& r, const bool thrOK)
{
    vt::put(vt::J("HistF").s("ctor", ctor).i("n", n).i("bins", h.bins()).b("thrOK", thrOK).b("sortedOK", r.sortedOK).b("sumOK", r.sumOK).b("partOK", r.partOK).b(
        "binOK", r.binOK).b("vecOK", r.vecOK));
}

// the overloads taking the number of bins, for any number of bins: thresholds at the ratios k / bins of the range resp. at the percentages
// 100 k / bins (k = 1..bins-1), as the documentation defines them
template <class tvalue>
void equidistant_case(const std::vector<tvalue>& values, const tensor_size_t bins, const std::vector<double>& queries)
{
    std::vector<double> sorted;
    for (const auto v : values)
    {
        sorted.push_back(static_cast<double>(v));
    }
    std::sort(sorted.begin(), sorted.end());
    const auto n = static_cast<int64_t>(sorted.size());
    const auto lo = sorted.front(), hi = sorted.back();
    const auto scale = std::max({std::fabs(lo), std::fabs(hi), 1e-300});
    {
        const auto ratios = make_equidistant_ratios(bins);
        auto       copy = values;
        const auto h    = histogram_t::make_from_ratios(copy.begin(), copy.end(), bins);
        auto       copy2 = values;
        const auto h2    = histogram_t::make_from_ratios(copy2.begin(), copy2.end(), ratios); // the explicit version with the same ratios
        auto       thrOK = ratios.size() == bins - 1 && h.thresholds().size() == bins - 1 && h2.thresholds().size() == bins - 1;
        for (tensor_size_t k = 1; thrOK && k < bins; ++k)
        {
            const auto ratio = static_cast<double>(k) / static_cast<double>(bins);
            thrOK = std::fabs(ratios(k - 1) - ratio) <= 1e-12 && std::fabs(h.thresholds()(k - 1) - (lo + ratio * (hi - lo))) <= 1e-12 * scale &&
                    std::fabs(h.thresholds()(k - 1) - h2.thresholds()(k - 1)) <= 1e-12 * scale;
        }
        put_histf("ratios", n, h, check_hist(h, sorted, queries), thrOK);
    }
    {
        const auto percentages = make_equidistant_percentiles(bins);
        auto       copy = values;
        const auto h    = histogram_t::make_from_percentiles(copy.begin(), copy.end(), bins);
        auto       thrOK = percentages.size() == bins - 1 && h.thresholds().size() == bins - 1;
        for (tensor_size_t k = 1; thrOK && k < bins; ++k)
        {
            const auto p = 100.0 * static_cast<double>(k) / static_cast<double>(bins);
            thrOK        = std::fabs(percentages(k - 1) - p) <= 1e-10;
            // the value(s) at position p (n - 1) / 100 of the sorted list; when that position is an integer up to the rounding of p (which
            // is not a dyadic number in general) the element itself or the mid-point with either neighbour
            const long double position = static_cast<long double>(k) * static_cast<long double>(n - 1) / static_cast<long double>(bins);
            const auto        near     = std::llround(position);
            const auto        mid      = [&](const int64_t a, const int64_t b)
            { return (sorted[static_cast<size_t>(std::clamp<int64_t>(a, 0, n - 1))] + sorted[static_cast<size_t>(std::clamp<int64_t>(b, 0, n - 1))]) / 2; };
            std::vector<double> accepted;
            if (std::fabs(position - static_cast<long double>(near)) <= 1e-9L)
            {
                accepted = {mid(near, near), mid(near - 1, near), mid(near, near + 1)};
            }
            else
            {
                accepted = {mid(static_cast<int64_t>(std::floor(position)), static_cast<int64_t>(std::ceil(position)))};
            }
            const auto got = h.thresholds()(k - 1);
            thrOK = thrOK && std::any_of(accepted.begin(), accepted.end(), [&](const double a) { return std::fabs(got - a) <= 1e-12 * scale; });
        }
        put_histf("percentiles", n, h, check_hist(h, sorted, queries), thrOK);
    }
}

// thresholds derived from exponents, for any base and epsilon (values at and below epsilon are clamped to it)
void exponents_case(const std::vector<double>& values, const double base, const double epsilon, const std::vector<double>& queries)
{
    auto       copy = values;
    const auto h    = epsilon > 0.0 ? histogram_t::make_from_exponents(copy.begin(), copy.end(), base, epsilon) : histogram_t::make_from_exponents(copy.begin(), copy.end(), base);
    // (how the thresholds are derived is not documented: the clauses relative to the reported thresholds apply)
    put_histf("exponents", static_cast<int64_t>(values.size()), h, check_hist(h, values, queries), h.thresholds().size() >= 1);
}

void stats_case(const std::vector<double>& values)
{
    tensor1d_t v(static_cast<tensor_size_t>(values.size())), out(12);
    for (size_t i = 0; i < values.size(); ++i)
    {
        v(static_cast<tensor_size_t>(i)) = values[i];
    }
    ml::store_stats(v.tensor(), out.tensor());
    const auto           s = ml::load_stats(out.tensor());
    std::vector<int64_t> pers2{lat(s.m_per01, 2 * Unit), lat(s.m_per05, 2 * Unit), lat(s.m_per10, 2 * Unit), lat(s.m_per20, 2 * Unit),
                               lat(s.m_per50, 2 * Unit), lat(s.m_per80, 2 * Unit), lat(s.m_per90, 2 * Unit), lat(s.m_per95, 2 * Unit),
                               lat(s.m_per99, 2 * Unit)};
    vt::put(vt::J("Stats").a("vals", lats(values)).i("sum", lat(s.m_mean * s.m_count)).i("count", static_cast<int64_t>(s.m_count)).a("pers2", pers2));
}
} // namespace

int main(int argc, char* argv[])
{
    if (argc < 5)
    {
        std::fprintf(stderr, "usage: stats_driver <out.ndjson> <seed> <exhaustive-maxlen> <random-cases> [sweep-lo sweep-hi]\n");
        return 2;
    }
    vt::Trace::get().open(argv[1]);
    vt::Rng    rng(static_cast<uint64_t>(std::atoll(argv[2])));
    const auto maxlen = std::atoll(argv[3]);
    const auto nrand  = std::atoll(argv[4]);

    // exhaustive: all lists of length <= maxlen over 5 lattice values x percentages x (<=2 thresholds) x all lattice queries
    const std::vector<double> alphabet{-0.5, 0.0, 0.25, 0.75, 1.0};
    const std::vector<double> thralpha{-0.4375, 0.0, 0.5, 0.75, 1.25};
    std::vector<double>       queries;
    for (double q = -1.0; q <= 1.5; q += 0.125)
    {
        queries.push_back(q);
    }
    for (int64_t len = 1; len <= maxlen; ++len)
    {
        int64_t total = 1;
        for (int64_t i = 0; i < len; ++i)
        {
            total *= static_cast<int64_t>(alphabet.size());
        }
        for (int64_t code = 0; code < total; ++code)
        {
            std::vector<double> values;
            for (int64_t i = 0, c = code; i < len; ++i, c /= 5)
            {
                values.push_back(alphabet[static_cast<size_t>(c % 5)]);
            }
            for (const auto p8 : {0, 8, 100, 200, 264, 400, 536, 600, 700, 792, 800})
            {
                pct_case(values, p8);
            }
            for (size_t a = 0; a < thralpha.size(); ++a)
            {
                hist_case(values, "thresholds", {thralpha[a]}, queries);
                for (size_t b = a; b < thralpha.size(); ++b)
                {
                    hist_case(values, "thresholds", {thralpha[b], thralpha[a]}, queries);
                }
            }
            hist_case(values, "ratios", {0.25, 0.5}, queries);
            hist_case(values, "percentiles", {25.0, 62.5}, queries);
            // the overloads taking the number of bins: equidistant ratios / percentages
            hist_case(values, "ratios", {0.25, 0.5, 0.75}, queries, 4);
            hist_case(values, "percentiles", {20.0, 40.0, 60.0, 80.0}, queries, 5);
            stats_case(values);
        }
    }
    // random: lists of 1..500 values with ties and negatives, 1..20 thresholds incl. duplicates and out-of-range
    for (int64_t i = 0; i < nrand; ++i)
    {
        const auto          n     = rng.coin(1, 4) ? rng.range(1, 500) : rng.range(1, 40);
        const auto          range = rng.pick(std::vector<int64_t>{2, 8, 40, 400});
        std::vector<double> values;
        std::vector<int64_t> ivalues;
        for (int64_t k = 0; k < n; ++k)
        {
            values.push_back(static_cast<double>(rng.range(-range, range)) / 4.0);
            ivalues.push_back(rng.range(-range, range));
        }
        pct_case(values, rng.range(0, 800));
        pct_case(values, rng.pick(std::vector<int64_t>{0, 400, 800}));
        pct_case(ivalues, 8 * rng.range(0, 100)); // integer lists (the result is a real number: midpoints)
        pct_case(ivalues, rng.pick(std::vector<int64_t>{0, 400, 800}));
        const auto          nthr = rng.range(1, 20);
        std::vector<double> thr, qs;
        for (int64_t k = 0; k < nthr; ++k)
        {
            thr.push_back(rng.coin(1, 5) && !thr.empty() ? thr.back() : static_cast<double>(rng.range(-range * 20, range * 20)) / 64.0);
        }
        for (int64_t k = 0; k < 12; ++k)
        {
            qs.push_back(static_cast<double>(rng.range(-range * 20, range * 20)) / 64.0);
        }
        for (const auto t : thr)
        {
            qs.push_back(t);
            qs.push_back(t + 1.0 / 64.0);
            qs.push_back(t - 1.0 / 64.0);
        }
        qs.push_back(static_cast<double>(range) * 10.0);
        qs.push_back(-static_cast<double>(range) * 10.0);
        hist_case(values, "thresholds", thr, qs);
        hist_case(ivalues, "thresholds", thr, qs);
        std::vector<double> ratios, percentiles;
        for (int64_t k = 0, m = rng.range(1, 7); k < m; ++k)
        {
            ratios.push_back(static_cast<double>(rng.range(1, 7)) / 8.0);
            percentiles.push_back(static_cast<double>(rng.range(1, 799)) / 8.0);
        }
        hist_case(values, "ratios", ratios, qs);
        hist_case(values, "percentiles", percentiles, qs);
        hist_case(ivalues, "ratios", ratios, qs);
        hist_case(ivalues, "percentiles", percentiles, qs);
        if (rng.coin(1, 3))
        {
            // the ends of the ratio / percentile ranges as arguments
            hist_case(values, "ratios", {0.0, 0.5, 1.0}, qs);
            hist_case(values, "percentiles", {0.0, 50.0, 100.0}, qs);
        }
        // exponents with base 2 on values that are not zero
        std::vector<double> pvalues;
        for (const auto v : values)
        {
            pvalues.push_back(v == 0.0 ? 0.25 : v);
        }
        hist_case(pvalues, "exponents", {}, qs);
        // the overloads taking the number of bins, with numbers of bins that keep the thresholds on the lattice (re-computed by TLC) ...
        {
            // (many bins on short lists only: the re-computation by TLC is cubic)
            const auto rbins = rng.pick(std::vector<tensor_size_t>{2, 4, 8});
            const auto pbins = n > 60 ? rng.pick(std::vector<tensor_size_t>{2, 4, 5, 8, 10}) : rng.pick(std::vector<tensor_size_t>{2, 4, 5, 8, 10, 16, 20, 25, 32, 40, 50});
            std::vector<double> eratios, epercentages;
            for (tensor_size_t k = 1; k < rbins; ++k)
            {
                eratios.push_back(static_cast<double>(k) / static_cast<double>(rbins));
            }
            for (tensor_size_t k = 1; k < pbins; ++k)
            {
                epercentages.push_back(100.0 * static_cast<double>(k) / static_cast<double>(pbins));
            }
            if (rng.coin())
            {
                hist_case(values, "ratios", eratios, qs, rbins);
                hist_case(ivalues, "percentiles", epercentages, qs, pbins);
            }
            else
            {
                hist_case(ivalues, "ratios", eratios, qs, rbins);
                hist_case(values, "percentiles", epercentages, qs, pbins);
            }
        }
        // ... and with any number of bins, on lattice and on real values (decided by the driver)
        {
            std::vector<double> rvalues;
            const auto          magnitude = std::pow(10.0, rng.uniform(-3.0, 3.0));
            for (int64_t k = 0; k < n; ++k)
            {
                rvalues.push_back(rng.coin(1, 6) && k > 0 ? rvalues.back() : magnitude * rng.uniform(-1.0, 1.0));
            }
            equidistant_case(values, rng.range(2, 20), qs);
            equidistant_case(ivalues, rng.range(2, 20), qs);
            equidistant_case(rvalues, rng.range(2, 20), qs);
            // exponents: other bases, values at and below epsilon (zeros, tiny values of both signs), the default and other values of epsilon
            const auto base    = rng.pick(std::vector<double>{2.0, 3.0, 10.0, 1.5, 2.718281828459045, 1.01 + rng.uniform(0.0, 4.0)});
            const auto epsilon = rng.pick(std::vector<double>{0.0, 0.0, 1e-12, 1e-3, 0.25, 1.0, 7.0});
            const auto eps     = epsilon > 0.0 ? epsilon : std::numeric_limits<double>::epsilon();
            auto       evalues = rng.coin() ? rvalues : values;
            for (auto& v : evalues)
            {
                switch (rng.range(0, 11))
                {
                case 0: v = 0.0; break;
                case 1: v = rng.coin() ? eps : -eps; break;
                case 2: v = (rng.coin() ? 1.0 : -1.0) * eps * rng.uniform(0.0, 1.0); break;
                case 3: v = (rng.coin() ? 1.0 : -1.0) * eps * (1.0 + rng.uniform(0.0, 1.0)); break;
                default: break;
                }
            }
            exponents_case(evalues, base, epsilon, qs);
            // ... and on the lattice (re-computed by TLC): bases whose powers from epsilon on are multiples of 1/64, whatever way the
            // exponent of a power of the base is rounded
            const auto [lbase, lepsilon] = rng.pick(std::vector<std::pair<double, double>>{{2.0, 0.0625}, {4.0, 0.25}, {8.0, 1.0}, {16.0, 1.0}, {3.0, 1.0}, {10.0, 1.0}});
            std::vector<double> lvalues;
            for (const auto v : values)
            {
                // values at and below epsilon (zero included), of both signs, besides the others
                lvalues.push_back(rng.coin(1, 4) ? (rng.coin() ? 1.0 : -1.0) * lepsilon * static_cast<double>(rng.range(0, 4)) / 4.0 : v);
            }
            hist_case(lvalues, "exponents", {}, qs, 0, lbase, lepsilon);
        }
        stats_case(values);
    }
    // integer percentages whose position p (n - 1) / 100 is integral: the percentile is exactly one element of the sorted list (a position
    // computed one ulp off would return the midpoint of two neighbours); distinct values so that neighbours differ
    const auto sweep_lo = argc > 6 ? std::atoll(argv[5]) : 1, sweep_hi = argc > 6 ? std::atoll(argv[6]) : 0;
    for (int64_t n = sweep_lo; n <= sweep_hi; ++n)
    {
        std::vector<double> values;
        for (int64_t k = 0; k < n; ++k)
        {
            values.push_back(static_cast<double>(2 * k - n) / 4.0 * static_cast<double>(1 + (k % 3)));
        }
        for (size_t i = values.size(); i > 1; --i)
        {
            std::swap(values[i - 1], values[static_cast<size_t>(rng.range(0, static_cast<int64_t>(i) - 1))]);
        }
        for (int64_t p = 0; p <= 100; ++p)
        {
            if ((p * (n - 1)) % 100 == 0 || rng.coin(1, 25))
            {
                pct_case(values, 8 * p);
            }
        }
    }
    vt::put(vt::J("Pct").s("variant", "end-marker").a("vals", std::vector<int64_t>{0}).i("p8", 0).i("out2", 0));
    return 0;
}
