// C13 (neighbourhood enumeration) replay driver: the real nano::combinatorial_iterator_t against Combinatorial.tla.
//   combinatorial_driver run <plan.txt> <out.ndjson> : one line `C c1 .. cd` per count vector; the iterator is walked with the loop the
//        tuners use (`for (; it; ++it)`), the sequence of (index(), *it) is recorded, then `++it` is called once more on the exhausted iterator
//   combinatorial_driver hang <d> : one `++it` on the count vector (1, .., 1) of d dimensions (the caller applies a timeout)
#include "trace.h"
#include <fstream>
#include <nano/core/combinatorial.h>
#include <nano/tuner/util.h>
#include <sstream>

using namespace nano;

namespace
{
template <class tindex>
void walk(const std::vector<int64_t>& counts, const char* type)
{
    tensor_mem_t<tindex, 1> cs(static_cast<tensor_size_t>(counts.size()));
    for (size_t i = 0; i < counts.size(); ++i)
    {
        cs(static_cast<tensor_size_t>(i)) = static_cast<tindex>(counts[i]);
    }
    auto                              it = combinatorial_iterator_t<tindex>{cs};
    std::vector<std::vector<int64_t>> seq;
    const auto record = [&]()
    {
        std::vector<int64_t> row{static_cast<int64_t>(it.index())};
        for (const auto v : *it)
        {
            row.push_back(static_cast<int64_t>(v));
        }
        return row;
    };
    const auto size  = static_cast<int64_t>(it.size());
    int64_t    guard = 0;
    for (; it && guard <= size + 2; ++it, ++guard)
    {
        seq.push_back(record());
    }
    const auto end_index = static_cast<int64_t>(it.index());
    ++it;
    vt::put(vt::J("Iter").s("type", type).a("counts", counts).i("size", size).aa("seq", seq).i("end", end_index).i("after", static_cast<int64_t>(it.index()))
                .b("valid_after", static_cast<bool>(it)));
}
} // namespace

int main(int argc, char* argv[])
{
    if (argc >= 4 && std::string(argv[1]) == "run")
    {
        vt::Trace::get().open(argv[3]);
        std::ifstream in(argv[2]);
        std::string   line;
        int64_t       n = 0;
        while (std::getline(in, line))
        {
            std::istringstream   s(line);
            char                 c = 0;
            std::vector<int64_t> counts;
            s >> c;
            for (int64_t v = 0; s >> v;)
            {
                counts.push_back(v);
            }
            if (c != 'C' || counts.empty())
            {
                continue;
            }
            walk<tensor_size_t>(counts, "int64");
            walk<int32_t>(counts, "int32");
            walk<uint8_t>(counts, "uint8");
            ++n;
        }
        vt::put(vt::J("Summary").i("vectors", n).i("case", -1));
        return 0;
    }
    if (argc >= 3 && std::string(argv[1]) == "neigh")
    {
        // nano::local_search over every centre of small index grids: the candidate points the tuners hand to evaluate()
        vt::Trace::get().open(argv[2]);
        const std::vector<tensor_size_t> sizes{1, 3, 5};
        int64_t                          n = 0;
        for (tensor_size_t d = 1; d <= 3; ++d)
        {
            auto counts = make_full_tensor<tensor_size_t>(make_dims(d), 3);
            for (auto is = combinatorial_iterator_t<tensor_size_t>{counts}; is; ++is)
            {
                igrid_t min_igrid(d), max_igrid(d), dims(d);
                for (tensor_size_t k = 0; k < d; ++k)
                {
                    dims(k)      = sizes[static_cast<size_t>((*is)(k))];
                    min_igrid(k) = 0;
                    max_igrid(k) = dims(k) - 1;
                }
                // NB: the centres are enumerated by hand - the library's odometer does not return on the count vector (1, .., 1), DESIGN 9.8
                int64_t total = 1;
                for (tensor_size_t k = 0; k < d; ++k)
                {
                    total *= dims(k);
                }
                for (int64_t code = 0; code < total; ++code)
                {
                    igrid_t src(d);
                    auto    r = code;
                    for (tensor_size_t k = 0; k < d; ++k)
                    {
                        src(k) = r % dims(k);
                        r /= dims(k);
                    }
                    for (const tensor_size_t radius : {tensor_size_t{1}, tensor_size_t{2}, tensor_size_t{4}})
                    {
                        const auto                        igrids = local_search(min_igrid, max_igrid, src, radius);
                        std::vector<std::vector<int64_t>> pts;
                        for (const auto& igrid : igrids)
                        {
                            pts.emplace_back(igrid.begin(), igrid.end());
                        }
                        vt::put(vt::J("Neigh").a("dims", std::vector<int64_t>(dims.begin(), dims.end())).a("src", std::vector<int64_t>(src.begin(), src.end()))
                                    .i("radius", radius).aa("pts", pts));
                        ++n;
                    }
                }
            }
        }
        vt::put(vt::J("Summary").i("vectors", n).i("case", -1));
        return 0;
    }
    if (argc >= 3 && std::string(argv[1]) == "hang")
    {
        const auto d  = static_cast<tensor_size_t>(std::atoi(argv[2]));
        auto       it = combinatorial_iterator_t<tensor_size_t>{make_full_tensor<tensor_size_t>(make_dims(d), 1)};
        ++it;
        std::printf("returned index=%d\n", static_cast<int>(it.index()));
        return 0;
    }
    std::fprintf(stderr, "usage: combinatorial_driver run <plan> <out> | hang <d>\n");
    return 2;
}
