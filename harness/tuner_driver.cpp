// C13 conformance driver: (a) both tuners on random/adversarial landscapes with a recording callback, (b) ml::tune with
// a recording model callback under varying pool sizes and schedule perturbation.
//   tuner_driver <out.ndjson> <seed> <tuner-cases> <tune-cases>
#include <numeric>
#include "trace.h"
#include <any>
#include <atomic>
#include <map>
#include <mutex>
#include <set>
#include <streambuf>
#include <nano/core/verif.h>
#include <nano/machine/tune.h>
#include <nano/splitter.h>
#include <nano/tuner.h>
#include <nano/tuner/space.h>

using namespace nano;

namespace
{
param_spaces_t make_spaces(vt::Rng& rng, int64_t d, std::vector<int64_t>& dims, int64_t maxsize)
{
    param_spaces_t spaces;
    for (int64_t i = 0; i < d; ++i)
    {
        const auto n   = (maxsize >= 17 && rng.coin(1, 3)) ? rng.range(17, maxsize) : rng.range(2, maxsize); // large grids: small budgets bite
        const auto log = rng.coin();
        tensor1d_t values(n);
        for (tensor_size_t k = 0; k < n; ++k)
        {
            values(k) = log ? std::pow(10.0, -3.0 + 6.0 * static_cast<double>(k) / static_cast<double>(n)) : (0.5 + static_cast<double>(k) * 0.25);
        }
        spaces.emplace_back("p" + std::to_string(i), log ? param_space_t::type::log10 : param_space_t::type::linear, values);
        dims.push_back(n);
    }
    return spaces;
}

bool to_grid(const param_spaces_t& spaces, const tensor2d_t& params, tensor_size_t row, std::vector<int64_t>& igrid)
{
    igrid.clear();
    for (size_t i = 0; i < spaces.size(); ++i)
    {
        const auto& values = spaces[i].values();
        int64_t     found  = -1;
        for (tensor_size_t k = 0; k < values.size(); ++k)
        {
            if (values(k) == params(row, static_cast<tensor_size_t>(i)))
            {
                found = k;
            }
        }
        if (found < 0)
        {
            return false;
        }
        igrid.push_back(found);
    }
    return true;
}

void tuner_case(vt::Rng& rng, int64_t icase)
{
    const auto           d = rng.range(1, 3);
    std::vector<int64_t> dims;
    const auto           spaces    = make_spaces(rng, d, dims, 31);
    const auto           id        = rng.coin() ? "local-search" : "surrogate";
    auto                 tuner     = tuner_t::all().get(id);
    const auto           max_evals = rng.pick(std::vector<int64_t>{10, 10, 12, 20, 35, 60, 100, 1000});
    tuner->parameter("tuner::max_evals") = max_evals;

    // landscape: integer values (ties on purpose), optionally one non-finite point
    const auto kind = rng.range(0, 4);
    std::vector<int64_t> corner;
    for (const auto n : dims)
    {
        corner.push_back(rng.coin() ? 0 : n - 1);
    }
    const auto bad_on = rng.coin(1, 4);
    std::vector<int64_t> bad;
    for (const auto n : dims)
    {
        // the non-finite point: near the centre (visited early), at a corner, or anywhere
        const auto where = rng.range(0, 2);
        bad.push_back(where == 0 ? std::clamp<int64_t>(n / 2 + rng.range(-1, 1), 0, n - 1) : where == 1 ? (rng.coin() ? 0 : n - 1) : rng.range(0, n - 1));
    }
    const auto salt = rng.next();
    // values: small integers, an affine image of them (negative, non-integer), the same scaled to 1e-17 or spaced one ulp apart around
    // 0.75 (comparisons of evaluations must be exact comparisons of doubles, whatever their magnitude or distance)
    const auto vmode       = rng.range(0, 5);
    const auto F    = [&](const std::vector<int64_t>& p) -> double
    {
        if (bad_on && p == bad)
        {
            return (salt % 3 == 0) ? std::nan("") : ((salt % 3 == 1) ? HUGE_VAL : -HUGE_VAL);
        }
        int64_t h = 0, dist = 0, bowl = 0;
        for (size_t i = 0; i < p.size(); ++i)
        {
            h    = h * 31 + p[i] + static_cast<int64_t>(salt % 1000);
            dist += std::abs(p[i] - corner[i]);
            bowl += (p[i] - dims[i] / 3) * (p[i] - dims[i] / 3);
        }
        const auto affine = [&](const double v)
        { return vmode == 3 ? (0.375 * v - 1.25) : vmode == 4 ? (1e-17 * v) : vmode == 5 ? (0.75 + v * 1.1102230246251565e-16) : v; };
        switch (kind)
        {
        case 0: return affine(static_cast<double>((h * 2654435761LL >> 7) % 4));                  // random with many ties
        case 1: return affine(7.0);                                                                // plateau
        case 2: return affine(static_cast<double>(dist));                                          // minimum at a corner
        case 3: return affine(static_cast<double>(bowl));                                          // convex bowl
        default: return affine(static_cast<double>(std::min<int64_t>(dist, 2)));                   // plateau with a well at a corner
        }
    };

    vt::put(vt::J("Reset").i("case", icase).s("tuner", id).i("kind", kind));
    vt::put(vt::J("Grid").a("dims", dims).i("maxEvals", max_evals));
    std::map<std::vector<int64_t>, double> given;
    const auto callback = [&](const tensor2d_t& params)
    {
        tensor1d_t                        values(params.size<0>());
        std::vector<std::vector<int64_t>> pts;
        bool                              nonfinite = false;
        for (tensor_size_t row = 0; row < params.size<0>(); ++row)
        {
            std::vector<int64_t> igrid;
            if (!to_grid(spaces, params, row, igrid))
            {
                vt::put(vt::J("OffGrid").i("row", row));
                values(row) = 0.0;
                continue;
            }
            values(row) = F(igrid);
            nonfinite   = nonfinite || !std::isfinite(values(row));
            given[igrid] = values(row);
            pts.push_back(igrid);
        }
        vt::put(vt::J("Batch").aa("pts", pts).b("nonfinite", nonfinite));
        return values;
    };
    try
    {
        const auto steps = tuner->optimize(spaces, callback, make_null_logger());
        std::vector<std::vector<int64_t>> pts;
        std::vector<double>               values;
        bool                              match = true;
        for (const auto& step : steps)
        {
            std::vector<int64_t> igrid(step.m_igrid.begin(), step.m_igrid.end());
            pts.push_back(igrid);
            values.push_back(step.m_value);
            const auto it = given.find(igrid);
            match         = match && it != given.end() && it->second == step.m_value;
            for (size_t i = 0; i < spaces.size(); ++i)
            {
                match = match && step.m_param(static_cast<tensor_size_t>(i)) == spaces[i].values()(igrid[i]);
            }
        }
        auto sorted = values;
        std::sort(sorted.begin(), sorted.end());
        sorted.erase(std::unique(sorted.begin(), sorted.end()), sorted.end());
        std::vector<int64_t> ranks;
        for (const auto v : values)
        {
            ranks.push_back(std::lower_bound(sorted.begin(), sorted.end(), v) - sorted.begin());
        }
        vt::put(vt::J("Return").aa("pts", pts).a("ranks", ranks).b("valuesMatch", match));
    }
    catch (const std::exception&)
    {
        vt::put(vt::J("Threw"));
    }
}

// what the model callback returns as its "model" (and later receives back as the warm start of another trial): its identity
struct payload_t
{
    int64_t             code{0};
    std::vector<double> params;
    int64_t             fold{-1};
};

// a stream that only notes WHEN something is written to it: ml::tune reports every finished batch of trials through the logger of
// the fit parameters (and nothing is written while a batch runs), so the numbers of finished callbacks seen at the writes are the
// batch boundaries. Only the oracle of the warm-start clause uses them; when they cannot be read off, that clause is not demanded.
class mark_buffer_t final : public std::streambuf
{
public:
    mark_buffer_t(const std::atomic<int64_t>& done, std::set<int64_t>& marks)
        : m_done(done)
        , m_marks(marks)
    {
    }

protected:
    int_type overflow(int_type c) override
    {
        m_marks.insert(m_done.load());
        return traits_type::not_eof(c);
    }

    std::streamsize xsputn(const char*, std::streamsize n) override
    {
        m_marks.insert(m_done.load());
        return n;
    }

private:
    const std::atomic<int64_t>& m_done;
    std::set<int64_t>&          m_marks;
};

void tune_case(vt::Rng& rng, int64_t icase)
{
    const auto n     = rng.range(12, 40);
    const auto folds = rng.range(2, std::min<int64_t>(10, n));
    auto splitter    = splitter_t::all().get(rng.coin(1, 3) ? "random" : "k-fold");
    splitter->parameter("splitter::folds") = folds;
    splitter->parameter("splitter::seed")  = rng.range(0, 1024);
    const auto id = rng.coin() ? "local-search" : "surrogate";
    auto tuner    = tuner_t::all().get(id);
    tuner->parameter("tuner::max_evals") = rng.coin(1, 4) ? rng.pick(std::vector<int64_t>{30, 60}) : rng.range(10, 16);
    auto fit_params = ml::params_t{}.splitter(*splitter).tuner(*tuner);

    std::vector<int64_t> dims;
    const auto           d      = rng.coin(1, 6) ? 3 : rng.range(0, 2);
    const auto           spaces = make_spaces(rng, d, dims, rng.coin(1, 3) ? 31 : 5);
    const auto           samples = arange(0, n);
    auto                 splits  = fit_params.splitter().split(samples);
    // the callback recognises its fold by the (training, validation) index sets: they must be pairwise different
    for (size_t a = 0; a < splits.size(); ++a)
    {
        for (size_t b = a + 1; b < splits.size(); ++b)
        {
            if (splits[a] == splits[b])
            {
                splitter = splitter_t::all().get("k-fold");
                splitter->parameter("splitter::folds") = folds;
                fit_params.splitter(*splitter);
                splits = fit_params.splitter().split(samples);
                a = b = splits.size();
            }
        }
    }
    // common multiple of the validation sizes: the mean over folds of the per-fold mean errors as an exact integer score
    int64_t L = 1;
    for (const auto& split : splits)
    {
        L = std::lcm(L, static_cast<int64_t>(split.second.size()));
    }

    const auto threads = rng.pick(std::vector<int64_t>{1, 2, 3, 4, 8, 16});
    verif::set_max_threads(static_cast<size_t>(threads));
    verif::set_sched(rng.coin(2, 3) ? rng.range(0, 1 << 20) : -1);

    struct call_t
    {
        std::vector<double> params;
        int64_t             fold;
        bool                splitOK;
        int64_t             code;
        int64_t             sum;
        int64_t             nvalid;
        int64_t             start, end;      // logical clock at entry / exit
        bool                warm, warmTyped; // a warm start was received / it is a payload of this driver
        payload_t           from;            // the received warm start
    };
    std::mutex           mutex;
    std::vector<call_t>  calls;
    std::atomic<int64_t> clock{0}, done{0};
    std::set<int64_t>    marks;
    mark_buffer_t        mark_buffer(done, marks);
    std::ostream         mark_stream(&mark_buffer);
    fit_params.logger(make_stream_logger(mark_stream));
    const auto          salt = rng.next() % 97;
    const auto          centre_min = rng.coin(1, 3);

    const auto callback = [&](const indices_t& train, const indices_t& valid, tensor1d_cmap_t params, const std::any& warm, const logger_t&)
    {
        call_t call;
        call.start     = clock++;
        call.warm      = warm.has_value();
        call.warmTyped = false;
        if (const auto* from = std::any_cast<payload_t>(&warm); from != nullptr)
        {
            call.warmTyped = true;
            call.from      = *from;
        }
        call.params.assign(params.begin(), params.end());
        call.fold    = -1;
        call.splitOK = false;
        for (size_t f = 0; f < splits.size(); ++f)
        {
            if (splits[f].first == train && splits[f].second == valid)
            {
                call.fold    = static_cast<int64_t>(f);
                call.splitOK = true;
            }
        }
        NANO_VERIF_YIELD(40);
        // integer-valued results: errors of the validation part decide the optimum
        int64_t h = static_cast<int64_t>(salt);
        for (const auto p : call.params)
        {
            h = (h * 131 + static_cast<int64_t>(std::llround(p * 1000.0))) % 1009;
        }
        // few distinct levels: ties between trials; sometimes the strict minimum sits at the grid centre - the first point a tuner tries
        bool at_centre = centre_min && !call.params.empty();
        for (size_t a = 0; a < call.params.size() && at_centre; ++a)
        {
            const auto& values = spaces[a].values();
            at_centre          = call.params[a] == values(values.size() / 2);
        }
        const auto base = at_centre ? 0 : (centre_min ? 1 + (h % 3) : (h % 3));
        const auto m = valid.size();
        tensor2d_t tr(2, train.size()), vd(2, m);
        call.nvalid = m;
        call.code = (h * 16 + call.fold) % 100000;
        tr.full(static_cast<scalar_t>(call.code));
        call.sum = 0;
        for (tensor_size_t i = 0; i < m; ++i)
        {
            const auto e = base + ((call.fold + i) % 2);
            vd(0, i)     = static_cast<scalar_t>(e);
            vd(1, i)     = static_cast<scalar_t>(call.code);
            call.sum += e;
        }
        call.end = clock++;
        {
            const std::scoped_lock lock(mutex);
            calls.push_back(call);
        }
        ++done;
        return std::make_tuple(std::move(tr), std::move(vd), std::any{payload_t{call.code, call.params, call.fold}});
    };

    vt::put(vt::J("Reset").i("case", icase).s("tuner", id).i("threads", threads));
    vt::put(vt::J("Tune").i("folds", folds).i("n", n).i("dims", d));
    try
    {
        const auto result = ml::tune("verif", samples, fit_params, spaces, callback);
        // resolve the trial of every callback invocation from the parameter values registered in the result
        const auto trial_of = [&](const std::vector<double>& params) -> int64_t
        {
            int64_t found = -1, count = 0;
            for (tensor_size_t t = 0; t < result.trials(); ++t)
            {
                const auto p = result.params(t);
                if (p.size() == static_cast<tensor_size_t>(params.size()) && std::equal(p.begin(), p.end(), params.begin()))
                {
                    found = t;
                    ++count;
                }
            }
            return count == 1 ? found : -1;
        };
        std::map<std::pair<int64_t, int64_t>, call_t> byslot;
        for (const auto& call : calls)
        {
            byslot[{trial_of(call.params), call.fold}] = call;
        }
        // the batches of trials (trials are numbered in the order they were added): read off the logger marks when they are consistent
        std::vector<int64_t> bounds; // numbers of trials after every batch
        auto                 batches_known = !marks.empty() && *marks.rbegin() == result.trials() * result.folds();
        for (const auto mark : marks)
        {
            batches_known = batches_known && mark % result.folds() == 0;
            if (mark > 0)
            {
                bounds.push_back(mark / result.folds());
            }
        }
        const auto distance = [&](const int64_t a, const int64_t b)
        {
            long double d2 = 0;
            const auto  pa = result.params(a), pb = result.params(b);
            for (tensor_size_t i = 0; i < pa.size(); ++i)
            {
                d2 += static_cast<long double>(pa(i) - pb(i)) * static_cast<long double>(pa(i) - pb(i));
            }
            return std::sqrt(d2);
        };
        int64_t nwarm = 0;
        for (const auto& call : calls)
        {
            const auto trial = trial_of(call.params);
            // the warm start handed to the callback: nothing, or what a FINISHED callback of the same fold returned (a model that
            // is still being fitted - or one of another fold - is no model to start from, whatever the schedule)
            const auto source = (call.warm && call.warmTyped) ? trial_of(call.from.params) : int64_t{-1};
            const auto its    = byslot.find({source, call.fold});
            auto       warmFinished = !call.warm;
            if (call.warm && call.warmTyped && source >= 0 && call.from.fold == call.fold && its != byslot.end())
            {
                warmFinished = its->second.end < call.start && its->second.code == call.from.code;
            }
            // ... and, batch-wise: nothing in the first batch, afterwards the model of a trial of the EARLIER batches that is closest
            // in the hyper-parameter space (Euclidean distance; any of the closest when there are ties)
            auto    warmClosest = true;
            int64_t batch0      = -1; // number of trials of the earlier batches
            if (batches_known && trial >= 0)
            {
                batch0 = 0;
                for (const auto bound : bounds)
                {
                    batch0 = bound <= trial ? bound : batch0;
                }
                if (batch0 == 0)
                {
                    warmClosest = !call.warm;
                }
                else
                {
                    warmClosest = source >= 0 && source < batch0;
                    for (int64_t other = 0; warmClosest && other < batch0; ++other)
                    {
                        warmClosest = distance(source, trial) <= distance(other, trial) * (1.0L + 1e-12L) + 1e-300L;
                    }
                    nwarm += warmClosest ? 1 : 0;
                }
            }
            vt::put(vt::J("Cb").i("trial", trial).i("fold", call.fold).b("splitOK", call.splitOK).b("warmFinished", warmFinished).b("warmClosest", warmClosest).i("warmFrom", source).i(
                "batch0", batch0));
        }
        std::vector<int64_t> sums(static_cast<size_t>(result.trials()), 0);
        for (tensor_size_t t = 0; t < result.trials(); ++t)
        {
            for (tensor_size_t f = 0; f < result.folds(); ++f)
            {
                const auto it = byslot.find({t, f});
                if (it == byslot.end())
                {
                    continue;
                }
                const auto& call  = it->second;
                const auto  trerr = result.stats(t, f, ml::split_type::train, ml::value_type::errors);
                const auto  vderr = result.stats(t, f, ml::split_type::valid, ml::value_type::errors);
                const auto  vdlos = result.stats(t, f, ml::split_type::valid, ml::value_type::losses);
                const auto* extra = std::any_cast<payload_t>(&result.extra(t, f));
                vt::put(vt::J("Stored")
                            .i("trial", t)
                            .i("fold", f)
                            .b("trainOK", trerr.m_mean == static_cast<double>(call.code) && trerr.m_count == static_cast<double>(splits[static_cast<size_t>(f)].first.size()))
                            .b("validOK", std::fabs(vderr.m_mean * static_cast<double>(call.nvalid) - static_cast<double>(call.sum)) < 1e-9 &&
                                            vderr.m_count == static_cast<double>(call.nvalid) && vdlos.m_mean == static_cast<double>(call.code))
                            .b("extraOK", extra != nullptr && extra->code == call.code && extra->params == call.params && extra->fold == call.fold));
                sums[static_cast<size_t>(t)] += call.sum * (L / call.nvalid);
            }
        }
        vt::put(vt::J("Optimum").i("trial", result.optimum_trial()).i("trials", result.trials()).a("sums", sums).i("batches", batches_known ? static_cast<int64_t>(bounds.size()) : -1).i(
            "warmStarts", nwarm));
    }
    catch (const std::exception& e)
    {
        vt::put(vt::J("Abort").s("why", e.what()));
    }
    verif::set_max_threads(0);
    verif::set_sched(-1);
}
} // namespace

int main(int argc, char* argv[])
{
    if (argc < 5)
    {
        std::fprintf(stderr, "usage: tuner_driver <out.ndjson> <seed> <tuner-cases> <tune-cases>\n");
        return 2;
    }
    vt::Trace::get().open(argv[1]);
    vt::Rng rng(static_cast<uint64_t>(std::atoll(argv[2])));
    const auto na = std::atoll(argv[3]), nb = std::atoll(argv[4]);
    for (int64_t i = 0; i < na; ++i)
    {
        tuner_case(rng, i);
    }
    for (int64_t i = 0; i < nb; ++i)
    {
        tune_case(rng, na + i);
    }
    return 0;
}
