// C09 conformance driver: the linear-model and gradient-boosting objectives on exact-lattice data for re-computation by TLC,
// the partition of the samples shown to a recording loss, and the invariance under threads / batch size / caching.
//   objective_driver <out.ndjson> <seed> <cases>
#include "tabledata.h"
#include <mutex>
#include <nano/dataset/iterator.h>
#include <nano/gboost/function.h>
#include <nano/generator/elemwise_identity.h>
#include <nano/linear/function.h>
#include <nano/loss.h>
#include <nano/machine/cluster.h>
#include <set>
#include <thread>

using namespace nano;

namespace
{
// a loss owned by the driver that delegates to a registered loss and records every batch it is shown
class spy_loss_t final : public loss_t
{
public:
    explicit spy_loss_t(const loss_t& inner)
        : loss_t("spy")
        , m_inner(inner.clone())
    {
        convex(inner.convex());
        smooth(inner.smooth());
    }

    spy_loss_t(const spy_loss_t& other)
        : loss_t(other)
        , m_inner(other.m_inner->clone())
    {
    }

    rloss_t clone() const override { return std::make_unique<spy_loss_t>(*this); }

    void error(tensor4d_cmap_t targets, tensor4d_cmap_t outputs, tensor1d_map_t errors) const override { m_inner->error(targets, outputs, errors); }

    void value(tensor4d_cmap_t targets, tensor4d_cmap_t outputs, tensor1d_map_t values) const override
    {
        m_inner->value(targets, outputs, values);
        const std::scoped_lock lock(m_mutex);
        m_batches.push_back(targets.size<0>());
        for (tensor_size_t i = 0; i < targets.size<0>(); ++i)
        {
            m_seen.push_back(targets.tensor(i)(0)); // the first target component identifies the sample
        }
        m_threads.insert(std::this_thread::get_id());
    }

    void vgrad(tensor4d_cmap_t targets, tensor4d_cmap_t outputs, tensor4d_map_t vgrads) const override { m_inner->vgrad(targets, outputs, vgrads); }

    void reset() const
    {
        m_seen.clear();
        m_batches.clear();
        m_threads.clear();
    }

    mutable std::mutex                m_mutex;
    mutable std::vector<double>       m_seen;
    mutable std::vector<int64_t>      m_batches;
    mutable std::set<std::thread::id> m_threads;
    rloss_t                           m_inner;
};

struct data_t
{
    std::unique_ptr<vt::table_datasource_t> source;
    int64_t                                 n{0};
};

enum class target_kind
{
    scalar,
    sclass,
    structured, // regression target with 2..3 outputs
    mclass      // multi-label target with 2..3 labels
};

// integer data; the scalar target (the first component of a structured one) is unique per sample when `unique_targets`;
// `rich_inputs` adds a multi-label and a structured input feature (several flattened columns per feature, missing as a whole)
data_t make_data(vt::Rng& rng, bool unique_targets, target_kind target, bool rich_inputs = false)
{
    data_t D;
    D.n = rng.range(1, unique_targets ? 200 : 40);
    std::vector<vt::column_t> columns;
    const auto                d = rng.range(1, 4);
    for (int64_t c = 0; c < d; ++c)
    {
        auto col = vt::make_scalar_column("x" + std::to_string(c), rng.coin() ? feature_type::int32 : feature_type::float64, D.n);
        for (int64_t s = 0; s < D.n; ++s)
        {
            col.flat[static_cast<size_t>(s)]    = static_cast<double>(rng.range(-3, 3));
            col.missing[static_cast<size_t>(s)] = static_cast<char>(rng.coin(1, 7));
        }
        columns.push_back(col);
    }
    if (rng.coin())
    {
        auto col = vt::make_sclass_column("c", 3, D.n);
        for (int64_t s = 0; s < D.n; ++s)
        {
            col.flat[static_cast<size_t>(s)]    = static_cast<double>(rng.range(0, 2));
            col.missing[static_cast<size_t>(s)] = static_cast<char>(rng.coin(1, 7));
        }
        columns.push_back(col);
    }
    if (rich_inputs)
    {
        if (rng.coin(2, 3))
        {
            const auto classes = rng.range(2, 3);
            auto       col     = vt::make_mclass_column("m", classes, D.n);
            for (int64_t s = 0; s < D.n; ++s)
            {
                for (int64_t k = 0; k < classes; ++k)
                {
                    col.flat[static_cast<size_t>(s * classes + k)] = rng.coin() ? 1.0 : 0.0;
                }
                col.missing[static_cast<size_t>(s)] = static_cast<char>(rng.coin(1, 7));
            }
            columns.push_back(col);
        }
        if (rng.coin(2, 3))
        {
            const auto dims = rng.pick(std::vector<tensor3d_dims_t>{make_dims(2, 1, 1), make_dims(1, 3, 1), make_dims(2, 1, 2)});
            auto       col  = vt::make_struct_column("t", rng.coin() ? feature_type::float64 : feature_type::int16, dims, D.n);
            for (int64_t s = 0; s < D.n; ++s)
            {
                for (int64_t k = 0; k < col.width; ++k)
                {
                    col.flat[static_cast<size_t>(s * col.width + k)] = static_cast<double>(rng.range(-3, 3));
                }
                col.missing[static_cast<size_t>(s)] = static_cast<char>(rng.coin(1, 7));
            }
            columns.push_back(col);
        }
    }
    if (target == target_kind::sclass)
    {
        auto col = vt::make_sclass_column("y", 3, D.n);
        for (int64_t s = 0; s < D.n; ++s)
        {
            col.flat[static_cast<size_t>(s)] = static_cast<double>(rng.range(0, 2));
        }
        columns.push_back(col);
    }
    else if (target == target_kind::mclass)
    {
        const auto classes = rng.range(2, 3);
        auto       col     = vt::make_mclass_column("y", classes, D.n);
        for (int64_t s = 0; s < D.n; ++s)
        {
            for (int64_t k = 0; k < classes; ++k)
            {
                col.flat[static_cast<size_t>(s * classes + k)] = rng.coin() ? 1.0 : 0.0;
            }
        }
        columns.push_back(col);
    }
    else if (target == target_kind::structured)
    {
        const auto dims = rng.pick(std::vector<tensor3d_dims_t>{make_dims(2, 1, 1), make_dims(3, 1, 1), make_dims(1, 2, 1), make_dims(1, 1, 3)});
        auto       col  = vt::make_struct_column("y", feature_type::float64, dims, D.n);
        for (int64_t s = 0; s < D.n; ++s)
        {
            for (int64_t k = 0; k < col.width; ++k)
            {
                col.flat[static_cast<size_t>(s * col.width + k)] =
                    (unique_targets && k == 0) ? static_cast<double>(1000 + s) : static_cast<double>(rng.range(-4, 4));
            }
        }
        columns.push_back(col);
    }
    else
    {
        auto col = vt::make_scalar_column("y", feature_type::float64, D.n);
        for (int64_t s = 0; s < D.n; ++s)
        {
            col.flat[static_cast<size_t>(s)] = unique_targets ? static_cast<double>(1000 + s) : static_cast<double>(rng.range(-4, 4));
        }
        columns.push_back(col);
    }
    D.source = std::make_unique<vt::table_datasource_t>(D.n, columns, columns.size() - 1U);
    D.source->load();
    return D;
}

std::unique_ptr<dataset_t> make_dataset(const datasource_t& source, size_t threads)
{
    auto dataset = std::make_unique<dataset_t>(source, threads);
    dataset->add<sclass_identity_generator_t>();
    dataset->add<mclass_identity_generator_t>();
    dataset->add<scalar_identity_generator_t>();
    dataset->add<struct_identity_generator_t>();
    return dataset;
}

// the sample lists handed to an iterator: all samples, a sorted subset of distinct samples (what the splitters produce), and - when
// `any_list` - a sorted list with repetitions (a bootstrap sample of gboost::sampler_t), the same shuffled, a shuffled subset
indices_t pick_samples(vt::Rng& rng, int64_t n, bool any_list = false)
{
    if (rng.coin())
    {
        return arange(0, n);
    }
    indices_t all = arange(0, n);
    auto      gen = make_rng(static_cast<uint64_t>(rng.range(0, 1 << 20)));
    std::shuffle(all.begin(), all.end(), gen);
    const auto how = any_list ? rng.range(0, 3) : 0;
    if (how >= 2)
    {
        // with repetitions: 1..2n draws
        const auto k = rng.range(1, 2 * n);
        indices_t  samples(k);
        for (tensor_size_t i = 0; i < k; ++i)
        {
            samples(i) = rng.range(0, n - 1);
        }
        if (how == 2)
        {
            std::sort(samples.begin(), samples.end());
        }
        return samples;
    }
    const auto k = rng.range(1, n);
    indices_t  samples(k);
    for (tensor_size_t i = 0; i < k; ++i)
    {
        samples(i) = all(i);
    }
    if (how == 0)
    {
        std::sort(samples.begin(), samples.end());
    }
    return samples;
}

std::vector<int64_t> lat(const double* data, tensor_size_t size, double scale, bool& exact)
{
    std::vector<int64_t> out;
    for (tensor_size_t i = 0; i < size; ++i)
    {
        int64_t k = 0;
        exact     = vt::to_lattice(data[i], scale, k) && exact;
        out.push_back(k);
    }
    return out;
}

std::vector<std::vector<int64_t>> rows(const tensor2d_t& m, double scale, bool& exact)
{
    std::vector<std::vector<int64_t>> out;
    for (tensor_size_t r = 0; r < m.size<0>(); ++r)
    {
        out.push_back(lat(m.tensor(r).data(), m.size<1>(), scale, exact));
    }
    return out;
}

bool close_rel(double a, double b)
{
    return a == b || std::fabs(a - b) <= 1e-9 * (1.0 + std::fabs(a) + std::fabs(b));
}

bool close_rel(const vector_t& a, const vector_t& b)
{
    if (a.size() != b.size())
    {
        return false;
    }
    const auto scale = 1.0 + a.lpNorm<Eigen::Infinity>() + b.lpNorm<Eigen::Infinity>();
    for (tensor_size_t i = 0; i < a.size(); ++i)
    {
        if (!(a(i) == b(i) || std::fabs(a(i) - b(i)) <= 1e-9 * scale))
        {
            return false;
        }
    }
    return true;
}

bool same_bits(const vector_t& a, const vector_t& b)
{
    return a.size() == b.size() && std::memcmp(a.data(), b.data(), sizeof(scalar_t) * static_cast<size_t>(a.size())) == 0;
}

tensor2d_t flat_inputs(const dataset_t& dataset, const indices_t& samples)
{
    tensor2d_t buffer;
    tensor2d_t X = dataset.flatten(samples, buffer);
    for (tensor_size_t i = 0; i < X.size(); ++i)
    {
        if (std::isnan(X(i)))
        {
            X(i) = 0.0; // missing -> 0
        }
    }
    return X;
}

tensor2d_t flat_targets(const dataset_t& dataset, const indices_t& samples)
{
    tensor4d_t buffer;
    const auto T = dataset.targets(samples, buffer);
    tensor2d_t out(samples.size(), T.size() / std::max<tensor_size_t>(1, samples.size()));
    for (tensor_size_t i = 0; i < T.size(); ++i)
    {
        out(i) = T(i);
    }
    return out;
}

void lattice_case(vt::Rng& rng, int64_t icase)
{
    const auto tpick        = rng.range(0, 11);
    const auto target       = tpick < 4 ? target_kind::sclass : tpick < 6 ? target_kind::structured : tpick < 7 ? target_kind::mclass : target_kind::scalar;
    const auto D            = make_data(rng, false, target, rng.coin(1, 4));
    const auto lossid       = rng.coin() ? "mse" : "mae";
    const auto loss         = loss_t::all().get(lossid);
    const auto samples      = pick_samples(rng, D.n, true);
    const auto n            = samples.size();
    auto       dataset      = make_dataset(*D.source, static_cast<size_t>(rng.range(1, 16)));
    const auto X            = flat_inputs(*dataset, samples);
    const auto T            = flat_targets(*dataset, samples);
    const auto isize = dataset->columns(), tsize = ::nano::size(dataset->target_dims());
    bool       exact = true;
    // every objective is evaluated with its gradient at several points on the SAME function object (a solver does so hundreds of
    // times): each evaluation is recorded and re-computed on its own, so nothing of an earlier evaluation may leak into a later one
    const auto calls = 2;

    // ---- linear objective
    {
        auto it = flatten_iterator_t{*dataset, samples};
        it.batch(rng.pick(std::vector<tensor_size_t>{1, 2, 3, 7, 10000}));
        it.scaling(scaling_type::none);
        if (rng.coin())
        {
            it.cache_flatten(std::numeric_limits<tensor_size_t>::max());
            it.cache_targets(std::numeric_limits<tensor_size_t>::max());
        }
        const auto l1 = static_cast<double>(rng.pick(std::vector<int64_t>{0, 0, 1, 2, 5}));
        const auto l2 = static_cast<double>(rng.pick(std::vector<int64_t>{0, 0, 1, 4}));
        const auto function = linear::function_t{it, *loss, l1, l2};
        for (int call = 1; call <= calls; ++call)
        {
            exact = true;
            vector_t x(function.size()), gx(function.size());
            for (tensor_size_t i = 0; i < x.size(); ++i)
            {
                x(i) = static_cast<double>(rng.range(-2, 2));
            }
            const auto fx  = function.vgrad(x, gx);
            const auto fx0 = function.vgrad(x);
            const auto W   = function.weights(x);
            const auto b   = function.bias(x);
            const auto gW  = function.weights(gx);
            const auto gb  = function.bias(gx);
            const auto wsz = static_cast<double>(W.size());
            std::vector<std::vector<int64_t>> Wr, gWr;
            for (tensor_size_t t = 0; t < tsize; ++t)
            {
                Wr.push_back(lat(W.tensor(t).data(), isize, 1.0, exact));
                gWr.push_back(lat(gW.tensor(t).data(), isize, static_cast<double>(n) * wsz, exact));
            }
            vt::J j("Lin");
            j.i("case", icase).s("loss", lossid).i("n", n).aa("X", rows(X, 1.0, exact)).aa("T", rows(T, 1.0, exact)).aa("W", Wr).a("b", lat(b.data(), tsize, 1.0, exact));
            j.i("l1", static_cast<int64_t>(l1)).i("l2", static_cast<int64_t>(l2));
            int64_t fxS = 0;
            exact       = vt::to_lattice(fx, 2.0 * static_cast<double>(n) * wsz, fxS) && exact;
            j.i("fxS", fxS).aa("gW", gWr).a("gb", lat(gb.data(), tsize, static_cast<double>(n), exact)).b("valueOnlySame", fx0 == fx).i("call", call);
            vt::put(exact ? j : vt::J("Inexact").i("case", icase).s("what", "linear"));
        }
    }
    // ---- gradient boosting objectives
    {
        auto it = targets_iterator_t{*dataset, samples};
        it.batch(rng.pick(std::vector<tensor_size_t>{1, 2, 5, 10000}));
        it.scaling(scaling_type::none);
        int64_t    fxS  = 0;
        const auto bias = gboost::bias_function_t{it, *loss};
        for (int call = 1; call <= calls; ++call)
        {
            exact = true;
            vector_t x(tsize), gx(tsize);
            for (tensor_size_t i = 0; i < tsize; ++i)
            {
                x(i) = static_cast<double>(rng.range(-3, 3));
            }
            const auto fx = bias.vgrad(x, gx);
            exact         = vt::to_lattice(fx, 2.0 * static_cast<double>(n), fxS) && exact;
            vt::J j("Bias");
            j.i("case", icase).s("loss", lossid).aa("T", rows(T, 1.0, exact)).a("b", lat(x.data(), tsize, 1.0, exact)).i("fxS", fxS).a(
                "g", lat(gx.data(), tsize, static_cast<double>(n), exact)).b("valueOnlySame", bias.vgrad(x) == fx).i("call", call);
            vt::put(exact ? j : vt::J("Inexact").i("case", icase).s("what", "bias"));
        }

        // scale objective: strong + scale[cluster] * weak outputs, some samples unassigned
        const auto groups = rng.range(1, 3);
        cluster_t  cluster(D.n, groups);
        tensor4d_t soutputs(cat_dims(D.n, dataset->target_dims())), woutputs(cat_dims(D.n, dataset->target_dims()));
        for (tensor_size_t i = 0; i < soutputs.size(); ++i)
        {
            soutputs(i) = static_cast<double>(rng.range(-2, 2));
            woutputs(i) = static_cast<double>(rng.range(-2, 2));
        }
        for (int64_t s = 0; s < D.n; ++s)
        {
            cluster.assign(s, rng.coin(1, 5) ? -1 : rng.range(0, groups - 1));
        }
        const auto scale = gboost::scale_function_t{it, *loss, cluster, soutputs, woutputs};
        tensor2d_t S(n, tsize), Wo(n, tsize);
        std::vector<int64_t> cl;
        for (tensor_size_t i = 0; i < n; ++i)
        {
            for (tensor_size_t k = 0; k < tsize; ++k)
            {
                S(i, k)  = soutputs.tensor(samples(i))(k);
                Wo(i, k) = woutputs.tensor(samples(i))(k);
            }
            cl.push_back(cluster.group(samples(i)));
        }
        for (int call = 1; call <= calls; ++call)
        {
            exact = true;
            vector_t sx(groups), sg(groups);
            for (tensor_size_t i = 0; i < groups; ++i)
            {
                sx(i) = static_cast<double>(rng.range(-2, 3));
            }
            const auto sfx = scale.vgrad(sx, sg);
            exact          = vt::to_lattice(sfx, 2.0 * static_cast<double>(n), fxS) && exact;
            vt::J js("Scale");
            js.i("case", icase).s("loss", lossid).aa("T", rows(T, 1.0, exact)).aa("S", rows(S, 1.0, exact)).aa("Wo", rows(Wo, 1.0, exact)).a("cl", cl).a(
                "x", lat(sx.data(), groups, 1.0, exact)).i("fxS", fxS).a("g", lat(sg.data(), groups, static_cast<double>(n), exact)).b(
                "valueOnlySame", scale.vgrad(sx) == sfx).i("call", call);
            vt::put(exact ? js : vt::J("Inexact").i("case", icase).s("what", "scale"));
        }

        // gradient objective at integer outputs
        const auto grads = gboost::grads_function_t{it, *loss};
        for (int call = 1; call <= calls; ++call)
        {
            exact = true;
            vector_t ox(n * tsize), og(n * tsize);
            for (tensor_size_t i = 0; i < ox.size(); ++i)
            {
                ox(i) = static_cast<double>(rng.range(-3, 3));
            }
            const auto gfx = grads.vgrad(ox, og);
            tensor2d_t O(n, tsize), G(n, tsize);
            for (tensor_size_t i = 0; i < n * tsize; ++i)
            {
                O(i) = ox(i);
                G(i) = og(i);
            }
            exact = vt::to_lattice(gfx, 2.0 * static_cast<double>(n), fxS) && exact;
            vt::J jg("Grads");
            jg.i("case", icase).s("loss", lossid).aa("T", rows(T, 1.0, exact)).aa("O", rows(O, 1.0, exact)).i("fxS", fxS).aa("g", rows(G, static_cast<double>(n), exact)).i(
                "call", call);
            vt::put(exact ? jg : vt::J("Inexact").i("case", icase).s("what", "grads"));
        }
    }
}

void invariance_case(vt::Rng& rng, int64_t icase)
{
    const auto lattice = rng.coin();
    const auto D       = make_data(rng, true, target_kind::scalar, rng.coin(1, 3));
    const auto lossid  = lattice ? (rng.coin() ? "mse" : "mae") : rng.pick(std::vector<std::string>{"mse", "mae", "cauchy", "pinball"});
    const auto inner   = loss_t::all().get(lossid);
    const auto spy     = spy_loss_t{*inner};
    const auto samples = pick_samples(rng, D.n, true);
    const auto n       = samples.size();

    vector_t x0;
    double   base_fx = 0;
    vector_t base_gx;
    const auto l1 = lattice ? static_cast<double>(rng.range(0, 2)) : rng.uniform(0.0, 3.0);
    const auto l2 = lattice ? static_cast<double>(rng.pick(std::vector<int64_t>{0, 1, 4})) : rng.uniform(0.0, 3.0);
    for (int variant = 0; variant < 4; ++variant)
    {
        const auto threads = variant == 0 ? size_t{1} : static_cast<size_t>(rng.pick(std::vector<int64_t>{1, 2, 3, 5, 16}));
        const auto batch   = variant == 0 ? tensor_size_t{10000} : rng.pick(std::vector<tensor_size_t>{1, 2, 3, 7, 16, 64, 10000});
        const auto cached  = variant != 0 && rng.coin();
        auto       dataset = make_dataset(*D.source, threads);
        auto       it      = flatten_iterator_t{*dataset, samples};
        it.batch(batch);
        it.scaling(scaling_type::none);
        if (cached)
        {
            it.cache_flatten(std::numeric_limits<tensor_size_t>::max());
            it.cache_targets(std::numeric_limits<tensor_size_t>::max());
        }
        const auto function = linear::function_t{it, spy, l1, l2};
        if (variant == 0)
        {
            x0 = vector_t(function.size());
            for (tensor_size_t i = 0; i < x0.size(); ++i)
            {
                x0(i) = lattice ? static_cast<double>(rng.range(-2, 2)) : rng.uniform(-1.0, 1.0);
            }
        }
        spy.reset();
        vector_t   gx(function.size());
        const auto fx = function.vgrad(x0, gx);
        // partition: the samples shown to the loss during this evaluation
        auto seen = spy.m_seen;
        std::sort(seen.begin(), seen.end());
        std::vector<int64_t> seen_ids, expected;
        for (const auto v : seen)
        {
            seen_ids.push_back(static_cast<int64_t>(v) - 1000);
        }
        for (tensor_size_t i = 0; i < n; ++i)
        {
            expected.push_back(samples(i));
        }
        std::sort(expected.begin(), expected.end()); // the list may be shuffled and may repeat samples: compared as a multiset
        bool batchOK = true;
        for (const auto bsize : spy.m_batches)
        {
            batchOK = batchOK && bsize >= 1 && bsize <= batch;
        }
        vt::put(vt::J("Part").i("case", icase).i("threads", static_cast<int64_t>(threads)).i("batch", std::min<tensor_size_t>(batch, 100000)).b("cached", cached).a(
            "seen", seen_ids).a("expected", expected).b("maxtnumOK", spy.m_threads.size() <= std::max<size_t>(1, dataset->concurrency())).b(
            "exclusiveOK", true).b("batchOK", batchOK));
        if (variant == 0)
        {
            base_fx = fx;
            base_gx = gx;
        }
        else
        {
            vt::put(vt::J("Invar").i("case", icase).s("what", "linear").s("loss", lossid).b("lattice", lattice).b("exactSame", fx == base_fx && same_bits(gx, base_gx)).b(
                "closeRel", close_rel(fx, base_fx) && close_rel(gx, base_gx)));
        }
    }
    // gboost bias objective: same call under different thread counts and batch sizes
    {
        vector_t bx(1);
        bx(0) = lattice ? static_cast<double>(rng.range(1000, 1010)) : rng.uniform(1000.0, 1010.0);
        double   bfx = 0;
        vector_t bgx;
        for (int variant = 0; variant < 3; ++variant)
        {
            const auto threads = variant == 0 ? size_t{1} : static_cast<size_t>(rng.pick(std::vector<int64_t>{2, 3, 16}));
            auto       dataset = make_dataset(*D.source, threads);
            auto       it      = targets_iterator_t{*dataset, samples};
            it.batch(variant == 0 ? 10000 : rng.pick(std::vector<tensor_size_t>{1, 4, 9, 10000}));
            it.scaling(scaling_type::none);
            if (variant == 2)
            {
                it.cache_targets(std::numeric_limits<tensor_size_t>::max());
            }
            const auto bias = gboost::bias_function_t{it, *inner};
            vector_t   gx(1);
            const auto fx = bias.vgrad(bx, gx);
            if (variant == 0)
            {
                bfx = fx;
                bgx = gx;
            }
            else
            {
                vt::put(vt::J("Invar").i("case", icase).s("what", "gboost-bias").s("loss", lossid).b("lattice", lattice).b("exactSame", fx == bfx && same_bits(gx, bgx)).b(
                    "closeRel", close_rel(fx, bfx) && close_rel(gx, bgx)));
            }
        }
    }
}

// ---- float oracle: the linear and gboost-bias objectives against their definitions computed naively over the scaled, missing -> 0
// flattened samples (independent statistics objects, one loss call over all samples), for every loss, the four scaling modes, l1/l2 up
// to 1e6, cached / un-cached inputs and targets, any batch size and thread count
void naive_case(vt::Rng& rng, int64_t icase)
{
    // targets: scalar / 3-class (as before), structured regression targets with 2..3 outputs, multi-label targets; inputs: scalar and
    // single-label features, and (rich) multi-label and structured ones; sample lists: also shuffled and with repetitions
    const auto tpick        = rng.range(0, 11);
    const auto target       = tpick < 3 ? target_kind::sclass : tpick < 6 ? target_kind::structured : tpick < 8 ? target_kind::mclass : target_kind::scalar;
    const auto D            = make_data(rng, true, target, rng.coin());
    const auto ids          = loss_t::all().ids();
    const auto lossid       = ids[static_cast<size_t>(rng.range(0, static_cast<int64_t>(ids.size()) - 1))];
    const auto loss         = loss_t::all().get(lossid);
    const auto samples      = pick_samples(rng, D.n, true);
    const auto n            = samples.size();
    const auto mode         = rng.pick(std::vector<scaling_type>{scaling_type::none, scaling_type::mean, scaling_type::minmax, scaling_type::standard});
    const auto l1           = rng.coin(1, 4) ? 0.0 : std::pow(10.0, rng.uniform(-3.0, 6.0));
    const auto l2           = rng.coin(1, 4) ? 0.0 : std::pow(10.0, rng.uniform(-3.0, 6.0));

    // reference tensors
    auto       dataset1 = make_dataset(*D.source, 1);
    tensor2d_t xbuffer;
    tensor4d_t tbuffer;
    tensor2d_t X = dataset1->flatten(samples, xbuffer);
    tensor4d_t T = dataset1->targets(samples, tbuffer);
    scalar_stats_t::make_flatten_stats(*dataset1, samples).scale(mode, X.tensor());
    scalar_stats_t::make_targets_stats(*dataset1, samples).scale(mode, T.tensor());
    for (tensor_size_t i = 0; i < X.size(); ++i)
    {
        X(i) = std::isfinite(X(i)) ? X(i) : 0.0;
    }
    const auto isize = X.size<1>(), tsize = T.size() / std::max<tensor_size_t>(1, n);

    tensor4d_t outputs(T.dims());
    tensor1d_t values;
    tensor4d_t vgrads;
    const auto wsz = static_cast<double>(isize * tsize);

    // naive value and gradient of the linear objective at x; returns whether they are finite
    const auto naive_linear = [&](const vector_t& x, double& nfx, vector_t& ngx)
    {
        const auto W = map_tensor(x.data(), tsize, isize);
        const auto b = map_tensor(x.data() + tsize * isize, tsize);
        outputs.reshape(n, tsize).matrix() = X.matrix() * W.matrix().transpose();
        outputs.reshape(n, tsize).matrix().rowwise() += b.vector().transpose();
        loss->value(T, outputs, values);
        loss->vgrad(T, outputs, vgrads);
        nfx = values.vector().sum() / static_cast<double>(n) + l1 * W.array().abs().sum() / wsz + 0.5 * l2 * W.array().square().sum() / wsz;
        ngx = vector_t(x.size());
        auto gW          = map_tensor(ngx.data(), tsize, isize);
        auto gb          = map_tensor(ngx.data() + tsize * isize, tsize);
        gW.matrix()      = vgrads.reshape(n, tsize).matrix().transpose() * X.matrix() / static_cast<double>(n);
        gW.array()      += l1 * W.array().sign() / wsz + l2 * W.array() / wsz;
        gb.vector()      = vgrads.reshape(n, tsize).matrix().colwise().sum().transpose() / static_cast<double>(n);
        return std::isfinite(nfx) && ngx.all_finite();
    };
    const auto draw_linear = [&]()
    {
        vector_t x(isize * tsize + tsize);
        for (tensor_size_t i = 0; i < x.size(); ++i)
        {
            x(i) = rng.uniform(-0.5, 0.5) / std::sqrt(static_cast<double>(isize));
        }
        return x;
    };
    // mean_i loss(t_i, b)
    const auto naive_bias = [&](const vector_t& bx, double& nbf, vector_t& nbg)
    {
        outputs.reshape(n, tsize).matrix().rowwise() = bx.vector().transpose();
        loss->value(T, outputs, values);
        loss->vgrad(T, outputs, vgrads);
        nbf          = values.vector().sum() / static_cast<double>(n);
        nbg          = vector_t(tsize);
        nbg.vector() = vgrads.reshape(n, tsize).matrix().colwise().sum().transpose() / static_cast<double>(n);
        return std::isfinite(nbf) && nbg.all_finite();
    };
    const auto draw = [&](tensor_size_t size, double lo, double hi)
    {
        vector_t x(size);
        for (tensor_size_t i = 0; i < size; ++i)
        {
            x(i) = rng.uniform(lo, hi);
        }
        return x;
    };

    const auto x = draw_linear();
    double     nfx = 0;
    vector_t   ngx;
    const auto finite = naive_linear(x, nfx, ngx);

    for (int variant = 0; variant < 3; ++variant)
    {
        const auto threads = static_cast<size_t>(rng.pick(std::vector<int64_t>{1, 2, 3, 5, 16}));
        const auto batch   = rng.pick(std::vector<tensor_size_t>{1, 2, 3, 7, 16, 64, 10000});
        const auto cachex = rng.coin(), cachet = rng.coin();
        auto       dataset = make_dataset(*D.source, threads);
        auto       it      = flatten_iterator_t{*dataset, samples};
        it.batch(batch);
        // a third of the iterators has a history: inputs / targets cached under another scaling method, then the method is changed and
        // re-caching is refused (budget too small) or not asked for - the values must be those of the current method whatever was cached
        const auto history = rng.range(0, 5);
        if (history <= 1)
        {
            const auto other = rng.pick(std::vector<scaling_type>{scaling_type::none, scaling_type::mean, scaling_type::minmax, scaling_type::standard});
            it.scaling(other);
            it.cache_flatten(std::numeric_limits<tensor_size_t>::max());
            it.cache_targets(std::numeric_limits<tensor_size_t>::max());
            it.scaling(mode);
            if (history == 1)
            {
                it.cache_flatten(rng.coin() ? tensor_size_t{0} : tensor_size_t{8});
                it.cache_targets(rng.coin() ? tensor_size_t{0} : tensor_size_t{8});
            }
        }
        it.scaling(mode);
        if (cachex)
        {
            it.cache_flatten(std::numeric_limits<tensor_size_t>::max());
        }
        if (cachet)
        {
            it.cache_targets(std::numeric_limits<tensor_size_t>::max());
        }
        const auto function = linear::function_t{it, *loss, l1, l2};
        vector_t   gx(function.size());
        const auto sized = function.size() == x.size();
        const auto fx = sized ? function.vgrad(x, gx) : std::nan("");
        const auto ok = !finite || (close_rel(fx, nfx) && close_rel(gx, ngx));
        const auto vo = !finite || close_rel(function.vgrad(x), fx);
        // the same object again, with the gradient, at another point and then back at the first one: as a solver uses it
        bool again = sized;
        if (sized)
        {
            const auto x2 = draw_linear();
            double     nfx2 = 0;
            vector_t   ngx2, gx2(function.size()), gx3(function.size());
            const auto finite2 = naive_linear(x2, nfx2, ngx2);
            const auto fx2     = function.vgrad(x2, gx2);
            again              = !finite2 || (close_rel(fx2, nfx2) && close_rel(gx2, ngx2));
            const auto fx3     = function.vgrad(x, gx3);
            again              = again && (!finite || (close_rel(fx3, nfx) && close_rel(gx3, ngx)));
        }
        vt::put(vt::J("Naive").i("case", icase).s("what", "linear").s("loss", lossid).i("scaling", static_cast<int64_t>(mode)).i("threads", static_cast<int64_t>(threads)).i(
            "batch", std::min<tensor_size_t>(batch, 100000)).b("cachedInputs", cachex).b("cachedTargets", cachet).b("finite", finite).b("naiveOK", ok).b(
            "valueOnlySame", vo).b("againOK", again).i("tsize", tsize).i("isize", isize));

        // gboost bias objective: mean_i loss(t_i, b)
        auto tit = targets_iterator_t{*dataset, samples};
        tit.batch(batch);
        if (history <= 1)
        {
            // (the same history on the targets iterator of the gradient boosting objectives)
            tit.scaling(rng.pick(std::vector<scaling_type>{scaling_type::none, scaling_type::mean, scaling_type::minmax, scaling_type::standard}));
            tit.cache_targets(std::numeric_limits<tensor_size_t>::max());
            tit.scaling(mode);
            if (history == 1)
            {
                tit.cache_targets(rng.coin() ? tensor_size_t{0} : tensor_size_t{8});
            }
        }
        tit.scaling(mode);
        if (cachet)
        {
            tit.cache_targets(std::numeric_limits<tensor_size_t>::max());
        }
        {
            const auto bias = gboost::bias_function_t{tit, *loss};
            const auto bx   = draw(tsize, -1.0, 1.0);
            vector_t   bgx(tsize), nbg;
            double     nbf = 0;
            const auto bfinite = naive_bias(bx, nbf, nbg);
            const auto bfx     = bias.vgrad(bx, bgx);
            const auto bok     = !bfinite || (close_rel(bfx, nbf) && close_rel(bgx, nbg));
            const auto bvo     = !bfinite || close_rel(bias.vgrad(bx), bfx);
            const auto bx2     = draw(tsize, -2.0, 2.0);
            vector_t   bgx2(tsize), nbg2, bgx3(tsize);
            double     nbf2 = 0;
            const auto bfinite2 = naive_bias(bx2, nbf2, nbg2);
            const auto bfx2     = bias.vgrad(bx2, bgx2);
            const auto bfx3     = bias.vgrad(bx, bgx3);
            const auto bagain   = (!bfinite2 || (close_rel(bfx2, nbf2) && close_rel(bgx2, nbg2))) && (!bfinite || (close_rel(bfx3, nbf) && close_rel(bgx3, nbg)));
            vt::put(vt::J("Naive").i("case", icase).s("what", "gboost-bias").s("loss", lossid).i("scaling", static_cast<int64_t>(mode)).i("threads", static_cast<int64_t>(threads)).i(
                "batch", std::min<tensor_size_t>(batch, 100000)).b("cachedInputs", false).b("cachedTargets", cachet).b("finite", bfinite).b(
                "naiveOK", bok).b("valueOnlySame", bvo).b("againOK", bagain).i("tsize", tsize).i("isize", isize));
        }

        // gboost scale objective: mean_i loss(t_i, s_i + x[cluster_i] * w_i), real-valued outputs, some samples unassigned
        {
            const auto groups = rng.range(1, 4);
            cluster_t  cluster(D.n, groups);
            tensor4d_t soutputs(cat_dims(D.n, dataset->target_dims())), woutputs(cat_dims(D.n, dataset->target_dims()));
            for (tensor_size_t i = 0; i < soutputs.size(); ++i)
            {
                soutputs(i) = rng.uniform(-1.0, 1.0);
                woutputs(i) = rng.uniform(-1.0, 1.0);
            }
            for (int64_t u = 0; u < D.n; ++u)
            {
                cluster.assign(u, rng.coin(1, 5) ? -1 : rng.range(0, groups - 1));
            }
            const auto naive_scale = [&](const vector_t& sx, double& nsf, vector_t& nsg)
            {
                for (tensor_size_t i = 0; i < n; ++i)
                {
                    const auto group = cluster.group(samples(i));
                    for (tensor_size_t k = 0; k < tsize; ++k)
                    {
                        outputs.reshape(n, tsize)(i, k) =
                            soutputs.reshape(D.n, tsize)(samples(i), k) + (group < 0 ? 0.0 : sx(group)) * woutputs.reshape(D.n, tsize)(samples(i), k);
                    }
                }
                loss->value(T, outputs, values);
                loss->vgrad(T, outputs, vgrads);
                nsf = values.vector().sum() / static_cast<double>(n);
                nsg = vector_t(groups);
                nsg.full(0.0);
                for (tensor_size_t i = 0; i < n; ++i)
                {
                    const auto group = cluster.group(samples(i));
                    for (tensor_size_t k = 0; k < tsize && group >= 0; ++k)
                    {
                        nsg(group) += vgrads.reshape(n, tsize)(i, k) * woutputs.reshape(D.n, tsize)(samples(i), k) / static_cast<double>(n);
                    }
                }
                return std::isfinite(nsf) && nsg.all_finite();
            };
            const auto scale = gboost::scale_function_t{tit, *loss, cluster, soutputs, woutputs};
            const auto sx    = draw(groups, -1.0, 2.0);
            vector_t   sgx(groups), nsg;
            double     nsf = 0;
            const auto sfinite = naive_scale(sx, nsf, nsg);
            const auto sfx     = scale.vgrad(sx, sgx);
            const auto sok     = !sfinite || (close_rel(sfx, nsf) && close_rel(sgx, nsg));
            const auto svo     = !sfinite || close_rel(scale.vgrad(sx), sfx);
            const auto sx2     = draw(groups, -2.0, 2.0);
            vector_t   sgx2(groups), nsg2, sgx3(groups);
            double     nsf2 = 0;
            const auto sfinite2 = naive_scale(sx2, nsf2, nsg2);
            const auto sfx2     = scale.vgrad(sx2, sgx2);
            const auto sfx3     = scale.vgrad(sx, sgx3);
            const auto sagain   = (!sfinite2 || (close_rel(sfx2, nsf2) && close_rel(sgx2, nsg2))) && (!sfinite || (close_rel(sfx3, nsf) && close_rel(sgx3, nsg)));
            vt::put(vt::J("Naive").i("case", icase).s("what", "gboost-scale").s("loss", lossid).i("scaling", static_cast<int64_t>(mode)).i("threads", static_cast<int64_t>(threads)).i(
                "batch", std::min<tensor_size_t>(batch, 100000)).b("cachedInputs", false).b("cachedTargets", cachet).b("finite", sfinite).b(
                "naiveOK", sok).b("valueOnlySame", svo).b("againOK", sagain).i("tsize", tsize).i("isize", isize));
        }

        // gboost gradient objective: the per-sample loss gradients at real-valued outputs
        {
            const auto grads = gboost::grads_function_t{tit, *loss};
            bool       gagain = true, gok = true, gvo = true, gfinite1 = true;
            for (int call = 0; call < 3; ++call)
            {
                vector_t ox(n * tsize), ogx(n * tsize), nog(n * tsize);
                for (tensor_size_t i = 0; i < ox.size(); ++i)
                {
                    ox(i)                               = rng.uniform(-1.0, 1.0) * (call == 0 ? 1.0 : 2.0);
                    outputs.reshape(n, tsize).data()[i] = ox(i);
                }
                loss->value(T, outputs, values);
                loss->vgrad(T, outputs, vgrads);
                const auto ngf = values.vector().sum() / static_cast<double>(n);
                for (tensor_size_t i = 0; i < ox.size(); ++i)
                {
                    nog(i) = vgrads.data()[i] / static_cast<double>(n);
                }
                const auto gfx     = grads.vgrad(ox, ogx);
                const auto gfinite = std::isfinite(ngf) && nog.all_finite();
                const auto& pergrads = grads.gradients(outputs);
                bool        persame  = pergrads.size() == vgrads.size();
                for (tensor_size_t i = 0; i < vgrads.size() && persame; ++i)
                {
                    persame = !std::isfinite(vgrads.data()[i]) || close_rel(pergrads.data()[i], vgrads.data()[i]);
                }
                const auto okc = !gfinite || (close_rel(gfx, ngf) && close_rel(ogx, nog) && persame);
                if (call == 0)
                {
                    gfinite1 = gfinite;
                    gok      = okc;
                    gvo      = !gfinite || close_rel(grads.vgrad(ox), gfx);
                }
                else
                {
                    gagain = gagain && okc;
                }
            }
            vt::put(vt::J("Naive").i("case", icase).s("what", "gboost-grads").s("loss", lossid).i("scaling", static_cast<int64_t>(mode)).i("threads", static_cast<int64_t>(threads)).i(
                "batch", std::min<tensor_size_t>(batch, 100000)).b("cachedInputs", false).b("cachedTargets", cachet).b("finite", gfinite1).b(
                "naiveOK", gok).b("valueOnlySame", gvo).b("againOK", gagain).i("tsize", tsize).i("isize", isize));
        }
    }
}
} // namespace

int main(int argc, char* argv[])
{
    if (argc < 4)
    {
        std::fprintf(stderr, "usage: objective_driver <out.ndjson> <seed> <cases>\n");
        return 2;
    }
    vt::Trace::get().open(argv[1]);
    vt::Rng    rng(static_cast<uint64_t>(std::atoll(argv[2])));
    const auto cases = std::atoll(argv[3]);
    for (int64_t i = 0; i < cases; ++i)
    {
        try
        {
            lattice_case(rng, i);
            invariance_case(rng, i);
            naive_case(rng, i);
        }
        catch (const std::exception& e)
        {
            vt::put(vt::J("Abort").s("why", e.what()).i("case", i));
        }
    }
    vt::put(vt::J("Invar").i("case", -1).s("what", "end").s("loss", "").b("lattice", false).b("exactSame", true).b("closeRel", true));
    return 0;
}
