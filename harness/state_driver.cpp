// C02 (best-state tracker) conformance driver: a real nano::solver_state_t against SolverState.tla.
//   state_driver table <table.txt> <out.ndjson>    : every edge of TLC's state graph (exported as a transition table) applied to a copy
//                                                     of the real object that stands for the source state; the whole observable state
//                                                     (point, value, gradient tag, returned flag, value_test for every patience) compared
//   state_driver random <out.ndjson> <seed> <nexec> : long random call histories recorded for SolverStateTrace.tla
#include "trace.h"
#include <deque>
#include <fstream>
#include <limits>
#include <map>
#include <nano/function.h>
#include <nano/solver/state.h>
#include <sstream>

using namespace nano;

namespace
{
constexpr int64_t MAXV = 1000000;

// f(x) = c + t * c'(x - p) + |x - p|^2 : value c and gradient t * coeffs at p
class anchor_function_t final : public function_t
{
public:
    anchor_function_t(vector_t p, vector_t coeffs, scalar_t c, scalar_t t)
        : function_t("verif-anchor", p.size())
        , m_p(std::move(p))
        , m_c(std::move(coeffs))
        , m_value(c)
        , m_tag(t)
    {
        convex(convexity::yes);
        smooth(smoothness::yes);
    }

    rfunction_t clone() const override { return std::make_unique<anchor_function_t>(*this); }

    scalar_t do_vgrad(vector_cmap_t x, vector_map_t gx) const override
    {
        const vector_t d = x.vector() - m_p.vector();
        if (gx.size() == x.size())
        {
            gx = m_tag * m_c.vector() + 2.0 * d.vector();
        }
        return m_value + m_tag * d.dot(m_c) + d.dot(d);
    }

    vector_t m_p, m_c;
    scalar_t m_value, m_tag;
};

// the embedding of the lattice point p: coefficients in [-1, 1] with the first one equal to 1, exact binary fractions,
// so that the infinity-norm distance of two embedded points is exactly |p - q| (and every other norm is something else when n > 1)
vector_t make_coeffs(tensor_size_t n)
{
    static const double cs[] = {1.0, -0.5, 0.75, -1.0, 0.25, 0.5, -0.75, 0.125};
    vector_t            c(n);
    for (tensor_size_t i = 0; i < n; ++i)
    {
        c(i) = cs[i % 8];
    }
    return c;
}

vector_t embed(const vector_t& coeffs, int64_t p)
{
    vector_t x = coeffs;
    x.vector() *= static_cast<scalar_t>(p);
    return x;
}

scalar_t tag_of(int64_t p, int64_t v)
{
    return 4096.0 * static_cast<scalar_t>(p) + static_cast<scalar_t>(v) + 0.5;
}

scalar_t nonfinite(uint64_t k)
{
    switch (k % 3U)
    {
    case 0: return std::numeric_limits<scalar_t>::quiet_NaN();
    case 1: return std::numeric_limits<scalar_t>::infinity();
    default: return -std::numeric_limits<scalar_t>::infinity();
    }
}

struct obs_t
{
    int64_t              x{0}, fx{0}, gp{0}, gv{0};
    bool                 ret{false}, exact{true}, valid{true};
    std::vector<int64_t> vt;

    bool same(const obs_t& o, bool with_ret) const
    {
        return exact && o.exact && x == o.x && fx == o.fx && gp == o.gp && gv == o.gv && (!with_ret || ret == o.ret) && vt == o.vt;
    }

    std::string str() const
    {
        std::ostringstream s;
        s << "x=" << x << " fx=" << fx << " g=(" << gp << "," << gv << ") ret=" << ret << " exact=" << exact << " vt=[";
        for (const auto v : vt)
        {
            s << v << " ";
        }
        s << "]";
        return s.str();
    }
};

obs_t observe(const solver_state_t& state, const vector_t& coeffs, bool ret, int npat)
{
    obs_t o;
    o.ret   = ret;
    o.valid = state.valid();
    // the point must be the embedding of one lattice point, in every coordinate
    int64_t p = 0;
    o.exact   = vt::to_lattice(state.x()(0), 1.0, p);
    for (tensor_size_t i = 0; i < coeffs.size() && o.exact; ++i)
    {
        o.exact = state.x()(i) == coeffs(i) * static_cast<scalar_t>(p);
    }
    o.x = p;
    o.exact = o.exact && vt::to_lattice(state.fx(), 1.0, o.fx);
    // the gradient must be tag * coeffs, in every coordinate
    const auto tag = state.gx()(0);
    for (tensor_size_t i = 0; i < coeffs.size() && o.exact; ++i)
    {
        o.exact = state.gx()(i) == coeffs(i) * tag;
    }
    const auto t2 = (tag - 0.5) / 4096.0;
    const auto gp = std::nearbyint(t2);
    const auto gv = tag - 0.5 - 4096.0 * gp;
    o.gp          = static_cast<int64_t>(gp);
    o.gv          = static_cast<int64_t>(gv);
    o.exact       = o.exact && std::isfinite(tag) && tag_of(o.gp, o.gv) == tag;
    for (int k = 1; k <= npat; ++k)
    {
        const auto d = state.value_test(k);
        int64_t    v = 0;
        if (d == std::numeric_limits<scalar_t>::max())
        {
            v = MAXV;
        }
        else if (!vt::to_lattice(d, 1.0, v) || v < 0)
        {
            // not a lattice value (another norm, another rule): a deviation from the transcription, never equal to a value of the
            // specification; what C02 demands does not depend on it (a negative or non-finite test value is reported as such)
            v = (std::isfinite(d) && d >= 0.0) ? MAXV - 1 : -1;
        }
        o.vt.push_back(v);
    }
    return o;
}

struct call_t
{
    char    kind{'O'}; // O = update_if_better, S = update
    int64_t p{0}, v{0};
    bool    nf{false}, wg{false};
};

bool apply(solver_state_t& state, const vector_t& coeffs, const call_t& c, uint64_t salt)
{
    const auto     x  = embed(coeffs, c.p);
    const auto     fx = c.nf ? nonfinite(salt) : static_cast<scalar_t>(c.v);
    const vector_t gx = tag_of(c.p, c.nf ? 0 : c.v) * coeffs.vector();
    if (c.kind == 'S')
    {
        return state.update(x, gx, fx);
    }
    return c.wg ? state.update_if_better(x, gx, fx) : state.update_if_better(x, fx);
}

void emit_event(const char* e, const call_t& c, const obs_t& o, const tensor_size_t dims, const int64_t dev = -1)
{
    auto j = vt::J(e);
    j.i("p", c.p).i("v", c.v).b("nf", c.nf).b("wg", c.wg).b("ret", o.ret).b("valid", o.valid && o.exact).i("x", o.x).i("fx", o.fx);
    j.a("g", std::vector<int64_t>{o.gp, o.gv}).a("vt", o.vt).i("dims", dims);
    if (dev >= 0)
    {
        j.i("dev", dev);
    }
    vt::put(j);
}

int run_table(const char* table, const char* out)
{
    vt::Trace::get().open(out);
    std::ifstream in(table);
    if (!in)
    {
        return 2;
    }
    struct node_t
    {
        obs_t obs;
        bool  init{false};
    };
    struct edge_t
    {
        int64_t to;
        call_t  call;
    };
    std::map<int64_t, node_t>              nodes;
    std::map<int64_t, std::vector<edge_t>> adj;
    int                                    npat = 0;
    std::string                            line;
    size_t                                 nedges = 0;
    while (std::getline(in, line))
    {
        std::istringstream s(line);
        char               c = 0;
        s >> c;
        if (c == 'K')
        {
            s >> npat;
        }
        else if (c == 'N')
        {
            int64_t id = 0;
            int     b  = 0;
            node_t  n;
            s >> id >> n.obs.x >> n.obs.fx >> n.obs.gp >> n.obs.gv >> b;
            n.obs.ret = b != 0;
            for (int k = 0; k < npat; ++k)
            {
                int64_t v = 0;
                s >> v;
                n.obs.vt.push_back(v);
            }
            const bool init = nodes[id].init;
            nodes[id]       = n;
            nodes[id].init  = init;
        }
        else if (c == 'I')
        {
            int64_t id = 0;
            s >> id;
            nodes[id].init = true;
        }
        else if (c == 'T')
        {
            int64_t a = 0;
            edge_t  e;
            int     nf = 0, wg = 0;
            s >> a >> e.call.kind >> e.call.p >> e.call.v >> nf >> wg >> e.to;
            e.call.nf = nf != 0;
            e.call.wg = wg != 0;
            adj[a].push_back(e);
            ++nedges;
        }
    }

    size_t steps = 0, mismatches = 0, reached = 0;
    for (const tensor_size_t dims : {tensor_size_t{1}, tensor_size_t{3}})
    {
        const auto                        coeffs = make_coeffs(dims);
        std::map<int64_t, solver_state_t> objects;
        std::map<int64_t, rfunction_t>    functions;
        std::deque<int64_t>               queue;
        for (const auto& [id, node] : nodes)
        {
            if (node.init)
            {
                functions[id] = std::make_unique<anchor_function_t>(embed(coeffs, node.obs.x), coeffs, static_cast<scalar_t>(node.obs.fx),
                                                                    tag_of(node.obs.x, node.obs.fx));
                objects.emplace(id, solver_state_t{*functions[id], embed(coeffs, node.obs.x)});
                const auto o = observe(objects.at(id), coeffs, false, npat);
                if (!o.same(node.obs, false) || !o.valid)
                {
                    ++mismatches;
                    vt::put(vt::J("Mismatch").s("where", "initial state").s("spec", node.obs.str()).s("impl", o.str()));
                }
                queue.push_back(id);
            }
        }
        while (!queue.empty())
        {
            const auto a = queue.front();
            queue.pop_front();
            ++reached;
            const auto& source = objects.at(a);
            for (const auto& e : adj[a])
            {
                auto       copy = source;
                const auto ret  = apply(copy, coeffs, e.call, steps);
                const auto o    = observe(copy, coeffs, ret, npat);
                ++steps;
                const auto& want = nodes.at(e.to).obs;
                if (!o.same(want, true) || !o.valid)
                {
                    if (++mismatches <= 20)
                    {
                        std::ostringstream call;
                        call << (e.call.kind == 'S' ? "update" : (e.call.wg ? "update_if_better(x,gx,fx)" : "update_if_better(x,fx)")) << " p=" << e.call.p
                             << " v=" << (e.call.nf ? std::string("non-finite") : std::to_string(e.call.v)) << " dims=" << dims;
                        vt::put(vt::J("Mismatch").s("where", call.str()).s("from", nodes.at(a).obs.str()).s("spec", want.str()).s("impl", o.str()));
                    }
                    if (mismatches <= 60)
                    {
                        // the deviating step as a two-record history (the real source state, the real call and its real outcome) for SolverStateWeak.tla
                        call_t none;
                        none.p = nodes.at(a).obs.x;
                        none.v = nodes.at(a).obs.fx;
                        emit_event("Reset", none, observe(source, coeffs, false, npat), dims, static_cast<int64_t>(mismatches));
                        emit_event(e.call.kind == 'S' ? "Set" : "Offer", e.call, o, dims, static_cast<int64_t>(mismatches));
                    }
                }
                if (objects.find(e.to) == objects.end())
                {
                    objects.emplace(e.to, std::move(copy));
                    queue.push_back(e.to);
                }
            }
        }
    }
    vt::put(vt::J("Summary").i("edges", static_cast<int64_t>(nedges)).i("steps", static_cast<int64_t>(steps)).i("states", static_cast<int64_t>(reached))
                .i("mismatches", static_cast<int64_t>(mismatches)).i("case", -1));
    return 0;
}

int run_random(const char* out, uint64_t seed, int nexec)
{
    vt::Trace::get().open(out);
    vt::Rng rng(seed);
    for (int ex = 0; ex < nexec; ++ex)
    {
        const auto dims   = static_cast<tensor_size_t>(rng.range(1, 8));
        const auto coeffs = make_coeffs(dims);
        const auto npat   = static_cast<int>(rng.range(1, 12));
        const auto span   = rng.pick(std::vector<int64_t>{1, 2, 5, 50, 1000}); // small spans: many ties; large: rarely any
        const auto len    = static_cast<int>(rng.range(1, rng.coin() ? 12 : 60));
        const auto x0     = rng.range(-span, span);
        const auto f0     = rng.range(-span, span);
        const auto fun    = anchor_function_t(embed(coeffs, x0), coeffs, static_cast<scalar_t>(f0), tag_of(x0, f0));
        auto       state  = solver_state_t{fun, embed(coeffs, x0)};
        // regimes: descending values (every offer improves), ascending (none does), random, plateaus
        const auto regime = rng.range(0, 4);
        auto       last   = f0;

        const auto emit = [&](const char* e, const call_t& c, const obs_t& o) { emit_event(e, c, o, dims); };
        {
            call_t c;
            c.p = x0;
            c.v = f0;
            emit("Reset", c, observe(state, coeffs, false, npat));
        }
        for (int i = 0; i < len; ++i)
        {
            call_t c;
            c.kind = rng.coin(1, 12) ? 'S' : 'O';
            c.p    = rng.range(-span, span);
            switch (regime)
            {
            case 0: c.v = last - rng.range(0, 2); break;
            case 1: c.v = last + rng.range(0, 2); break;
            case 2: c.v = last + (rng.coin(1, 5) ? rng.range(-1, 1) : 0); break;
            default: c.v = rng.range(-span, span); break;
            }
            c.v  = std::max<int64_t>(-90000, std::min<int64_t>(90000, c.v));
            last = c.v;
            c.wg = rng.coin(3, 4);
            c.nf = c.kind == 'O' && rng.coin(1, 10);
            const auto ret = apply(state, coeffs, c, rng.next());
            emit(c.kind == 'S' ? "Set" : "Offer", c, observe(state, coeffs, ret, npat));
        }
    }
    vt::put(vt::J("Reset").i("p", 0).i("v", 0).b("nf", false).b("wg", false).b("ret", false).b("valid", true).i("x", 0).i("fx", 0)
                .a("g", std::vector<int64_t>{0, 0}).a("vt", std::vector<int64_t>{}).i("dims", 0).i("case", -1));
    return 0;
}
} // namespace

int main(int argc, char* argv[])
{
    if (argc >= 4 && std::string(argv[1]) == "table")
    {
        return run_table(argv[2], argv[3]);
    }
    if (argc >= 5 && std::string(argv[1]) == "random")
    {
        return run_random(argv[2], std::strtoull(argv[3], nullptr, 10), std::atoi(argv[4]));
    }
    std::fprintf(stderr, "usage: state_driver table <table> <out> | random <out> <seed> <nexec>\n");
    return 2;
}
