// C18 conformance driver: one shared const instance (solver, loss, dataset, fitted model) used concurrently from several threads;
// every concurrent call must return the bit pattern of the same call executed alone.  Full fits under different pool caps.
//   shared_driver <out.ndjson> <seed> <rounds> <fit-cases>
#include "objectives.h"
#include "problems.h"
#include <nano/core/verif.h>
#include <nano/dataset/iterator.h>
#include <nano/gboost/model.h>
#include <nano/linear.h>
#include <nano/loss.h>
#include <nano/solver.h>
#include <thread>

using namespace nano;

namespace
{
struct hash_t
{
    uint64_t h{1469598103934665603ULL};

    void bytes(const void* p, size_t n)
    {
        const auto* c = static_cast<const unsigned char*>(p);
        for (size_t i = 0; i < n; ++i)
        {
            h ^= c[i];
            h *= 1099511628211ULL;
        }
    }

    template <class ttensor>
    void tensor(const ttensor& t)
    {
        const auto dims = t.dims();
        bytes(dims.data(), sizeof(dims[0]) * dims.size());
        if (t.size() > 0)
        {
            bytes(t.data(), sizeof(*t.data()) * static_cast<size_t>(t.size()));
        }
    }

    void value(double v) { bytes(&v, sizeof(v)); }

    void value(int64_t v) { bytes(&v, sizeof(v)); }

    std::vector<int64_t> parts() const { return {static_cast<int64_t>(h & 0x3FFFFFFFULL), static_cast<int64_t>((h >> 30U) & 0x3FFFFFFFULL)}; }
};

// runs tasks 0..ntasks-1 first alone, then concurrently from `threads` threads (every thread runs all tasks in its own order)
void compare(const std::string& what, int64_t ntasks, int64_t threads, vt::Rng& rng, const std::function<hash_t(int64_t task)>& call)
{
    vt::put(vt::J("Reset").s("what", what).i("tasks", ntasks).i("threads", threads));
    for (int64_t task = 0; task < ntasks; ++task)
    {
        vt::put(vt::J("Solo").i("task", task).a("hash", call(task).parts()));
    }
    std::vector<std::vector<std::pair<int64_t, hash_t>>> results(static_cast<size_t>(threads));
    std::vector<std::thread>                            pool;
    std::vector<uint64_t>                               seeds;
    for (int64_t t = 0; t < threads; ++t)
    {
        seeds.push_back(rng.next());
    }
    for (int64_t t = 0; t < threads; ++t)
    {
        pool.emplace_back(
            [&, t]
            {
                vt::Rng trng(seeds[static_cast<size_t>(t)]);
                for (int64_t k = 0; k < ntasks; ++k)
                {
                    const auto task = (k + t) % ntasks;
                    NANO_VERIF_YIELD(50);
                    results[static_cast<size_t>(t)].emplace_back(task, call(task));
                }
            });
    }
    for (auto& thread : pool)
    {
        thread.join();
    }
    for (int64_t t = 0; t < threads; ++t)
    {
        for (const auto& [task, hash] : results[static_cast<size_t>(t)])
        {
            vt::put(vt::J("Conc").i("thread", t).i("task", task).a("hash", hash.parts()));
        }
    }
}

hash_t hash_state(const solver_state_t& state)
{
    hash_t h;
    h.tensor(state.x());
    h.tensor(state.gx());
    h.value(state.fx());
    h.value(static_cast<int64_t>(state.status()));
    h.value(static_cast<int64_t>(state.fcalls()));
    h.value(static_cast<int64_t>(state.gcalls()));
    return h;
}

void solver_round(vt::Rng& rng)
{
    function_t::config_t config;
    config.m_min_dims = 2;
    config.m_max_dims = 8;
    config.m_summands = 20;
    const auto functions = function_t::make(config);
    const auto ids = std::vector<std::string>{"gd",  "cgd-pr", "cgd-n",     "lbfgs", "bfgs", "dfp",   "sr1",  "fletcher", "hoshino", "osga",
                                               "sgm", "cocob",  "ellipsoid", "asga2", "sda",  "wda",   "pgm",  "dgm",      "fgm",     "rqb",
                                               "fpba1", "fpba2", "cgd-hs", "cgd-fr", "cgd-cd", "cgd-ls", "cgd-dy", "cgd-dycd", "cgd-dyhs", "cgd-frpr", "asga4"};
    int64_t    ils  = 0; // index among the line-search solvers
    const auto off0 = rng.range(0, 11), offk = rng.range(0, 19);
    for (const auto& id : ids)
    {
        const auto solver = solver_t::all().get(id);
        if (solver == nullptr)
        {
            continue;
        }
        solver->parameter("solver::max_evals") = 200;
        solver->parameter("solver::epsilon")   = std::pow(10.0, rng.uniform(-9.0, -4.0));
        const auto ntasks = int64_t{4};
        std::vector<const function_t*> fs;
        std::vector<vector_t>          x0s;
        for (int64_t k = 0; k < ntasks; ++k)
        {
            const function_t* f = nullptr;
            for (int tries = 0; tries < 50 && f == nullptr; ++tries)
            {
                const auto* cand = functions[static_cast<size_t>(rng.range(0, static_cast<int64_t>(functions.size()) - 1))].get();
                if (solver->type() != solver_type::line_search || cand->smooth())
                {
                    f = cand;
                }
            }
            fs.push_back(f);
            x0s.push_back(vt::random_x0(rng, f->size(), 1.0));
        }
        const solver_t& shared = *solver; // only the const interface is used below
        compare("minimize:" + id, ntasks, (rng.coin(1, 4) ? rng.range(9, 16) : rng.range(2, 8)), rng,
                [&](int64_t task)
                {
                    const auto function = fs[static_cast<size_t>(task)]->clone(); // each call with its own function object
                    return hash_state(shared.minimize(*function, x0s[static_cast<size_t>(task)], make_null_logger()));
                });
        if (solver->type() != solver_type::line_search)
        {
            continue;
        }
        // the same shared solver with every other line-search prototype (step length initialisation x step length strategy): the
        // prototypes keep a history, the solver must clone them per call. The kinds cycle over the line-search solvers, so every
        // kind is shared in every round.
        const auto ids0 = lsearch0_t::all().ids();
        const auto idsk = lsearchk_t::all().ids();
        if (ids0.empty() || idsk.empty())
        {
            continue;
        }
        const auto id0 = ids0[static_cast<size_t>(ils + off0) % ids0.size()];
        const auto idk = idsk[static_cast<size_t>(ils + offk) % idsk.size()];
        ++ils;
        const auto solver2 = solver_t::all().get(id);
        solver2->parameter("solver::max_evals") = 200;
        solver2->parameter("solver::epsilon")   = solver->parameter("solver::epsilon").value<scalar_t>();
        solver2->lsearch0(id0);
        solver2->lsearchk(idk);
        const solver_t& shared2 = *solver2;
        compare("minimize:" + id + ":" + id0 + ":" + idk, ntasks, (rng.coin(1, 4) ? rng.range(9, 16) : rng.range(2, 8)), rng,
                [&](int64_t task)
                {
                    const auto function = fs[static_cast<size_t>(task)]->clone();
                    return hash_state(shared2.minimize(*function, x0s[static_cast<size_t>(task)], make_null_logger()));
                });
    }
}

void loss_round(vt::Rng& rng)
{
    for (const auto& id : loss_t::all().ids())
    {
        const auto loss = loss_t::all().get(id);
        const auto n = rng.range(1, 40), d = rng.range(1, 6);
        tensor4d_t targets(make_dims(n, d, 1, 1)), outputs(make_dims(n, d, 1, 1));
        for (tensor_size_t i = 0; i < n; ++i)
        {
            const auto label = rng.range(0, d - 1);
            for (tensor_size_t k = 0; k < d; ++k)
            {
                targets.tensor(i)(k) = (id[0] == 's' && id[1] == '-') ? (k == label ? +1.0 : -1.0) : ((id[0] == 'm' && id[1] == '-') ? (rng.coin() ? +1.0 : -1.0) : rng.uniform(-2.0, 2.0));
                outputs.tensor(i)(k) = rng.uniform(-3.0, 3.0);
            }
        }
        const loss_t& shared = *loss;
        compare("loss:" + id, 3, (rng.coin(1, 4) ? rng.range(9, 16) : rng.range(2, 8)), rng,
                [&](int64_t task)
                {
                    hash_t h;
                    tensor1d_t values;
                    tensor4d_t vgrads;
                    if (task == 0)
                    {
                        shared.value(targets, outputs, values);
                        h.tensor(values);
                    }
                    else if (task == 1)
                    {
                        shared.error(targets, outputs, values);
                        h.tensor(values);
                    }
                    else
                    {
                        shared.vgrad(targets, outputs, vgrads);
                        h.tensor(vgrads);
                    }
                    return h;
                });
    }
}

// ---- random (seeded) model configurations: the same stream gives the same configuration
// (with_dtree: decision trees only in the models used for shared predictions. In the fit-invariance cases they are left out - see the
//  assumptions of the check: inside small tree nodes different features induce the same partition of the node's samples, their scores
//  are equal in exact arithmetic and differ by rounding only, so the feature chosen depends on the last bits of the gradients and those
//  on the order in which the per-thread partial sums of the scaling objective are added up. VERIF_C18_DTREE=1 puts them back.)
std::string configure_gboost(vt::Rng& prng, gboost_model_t& model, const bool legacy, const bool with_dtree = false)
{
    rwlearners_t prototypes;
    std::string  desc;
    if (legacy)
    {
        model.parameter("gboost::subsample") = prng.coin() ? "off" : "bootstrap";
        model.parameter("gboost::shrinkage") = prng.coin() ? "off" : "global";
        for (const auto* id : {"stump", "affine", "dense-table"})
        {
            prototypes.emplace_back(wlearner_t::all().get(id));
        }
        desc = "legacy";
    }
    else
    {
        // (fit invariance: the loss / gradient weighted bootstraps only with VERIF_C18_WEIGHTED=1, see the assumptions of the check)
        const auto weighted  = with_dtree || std::getenv("VERIF_C18_WEIGHTED") != nullptr;
        const auto subsample = weighted ? prng.pick(std::vector<std::string>{"off", "subsample", "bootstrap", "wei_loss_bootstrap", "wei_grad_bootstrap"})
                                        : prng.pick(std::vector<std::string>{"off", "subsample", "bootstrap", "subsample", "bootstrap"});
        const auto shrinkage = prng.pick(std::vector<std::string>{"off", "global", "local", "local"});
        // (fit invariance: per-table scaling - tboost - only with VERIF_C18_TBOOST=1: one scale per table entry multiplies the occasions for
        // a near-tie of the scaling objective; schedule-dependent models were observed with it at the thorough tier, see the open finding)
        const auto wscale_   = prng.pick(std::vector<std::string>{"gboost", "tboost"});
        const auto wscale    = (with_dtree || std::getenv("VERIF_C18_TBOOST") != nullptr) ? wscale_ : std::string("gboost");
        model.parameter("gboost::subsample")       = subsample;
        model.parameter("gboost::subsample_ratio") = prng.pick(std::vector<scalar_t>{0.5, 0.75, 1.0});
        model.parameter("gboost::shrinkage")       = shrinkage;
        model.parameter("gboost::wscale")          = wscale;
        model.parameter("gboost::batch")           = prng.pick(std::vector<int64_t>{10, 16, 100});
        desc = subsample + "," + shrinkage + "," + wscale + ":";
        // a pool of 1..4 weak learners out of the eight (seven) kinds
        std::vector<std::string> ids{"affine", "stump", "hinge", "dense-table", "kbest-table", "ksplit-table", "dstep-table"};
        if (with_dtree || std::getenv("VERIF_C18_DTREE") != nullptr)
        {
            ids.emplace_back("dtree");
        }
        for (size_t i = ids.size() - 1; i > 0; --i)
        {
            std::swap(ids[i], ids[static_cast<size_t>(prng.range(0, static_cast<int64_t>(i)))]);
        }
        ids.resize(static_cast<size_t>(prng.range(1, 4)));
        if (!with_dtree && std::getenv("VERIF_C18_TABLES") == nullptr)
        {
            // (fit invariance: at most one kind of look-up table per pool. The table kinds overlap - a k-best table with every bin is the
            // dense table and a k-split table with every bin, with one bin it is the discrete step - so two kinds often reach the same
            // score in exact arithmetic by different formulas; which one wins is then decided by rounding, that is by the last bits of the
            // gradients, and the two behave differently outside the (sub-)sample they were fitted on. See the assumptions of the check.)
            auto has_table = false;
            for (auto it = ids.begin(); it != ids.end();)
            {
                const auto is_table = it->find("-table") != std::string::npos;
                it                  = (is_table && has_table) ? ids.erase(it) : (it + 1);
                has_table           = has_table || is_table;
            }
            // (... and at least one weak learner over the scalar features: boosting with tables only converges within a few rounds on
            // the few categorical features - every bin mean fitted exactly - and then the optimal scale of the next weak learner is zero
            // in exact arithmetic; the library tests the computed scale (+-1e-16) against the machine epsilon to stop or go on.)
            if (std::getenv("VERIF_C18_ALONE") == nullptr)
            {
                const auto extra = prng.pick(std::vector<std::string>{"stump", "hinge", "affine"});
                if (ids.size() == 1U && has_table)
                {
                    ids.push_back(extra);
                }
            }
        }
        const auto criterion = prng.pick(std::vector<std::string>{"rss", "aic", "aicc", "bic"});
        for (const auto& id : ids)
        {
            auto wlearner = wlearner_t::all().get(id);
            if (wlearner == nullptr)
            {
                continue;
            }
            wlearner->parameter("wlearner::criterion") = criterion;
            if (id == "dtree")
            {
                wlearner->parameter("wlearner::dtree::max_depth") = prng.range(1, 3);
                wlearner->parameter("wlearner::dtree::min_split") = prng.range(1, 5);
            }
            desc += id + " ";
            prototypes.emplace_back(std::move(wlearner));
        }
        desc += criterion;
    }
    model.prototypes(std::move(prototypes));
    return desc;
}

std::string configure_linear(vt::Rng& prng, linear_t& model, const bool legacy)
{
    if (legacy)
    {
        return "legacy";
    }
    // (batches smaller than the number of samples - partial sums per pool thread, re-associated - only with the smooth regularisers:
    // the bundle method used for lasso / elastic net amplifies last-bit differences of the objective beyond the 1e-5 of the property
    // in the per-trial tuning values, like osga and mae + lbfgs, see the assumptions of the check)
    const auto smooth  = model.type_id() == "ordinary" || model.type_id() == "ridge";
    const auto scaling = prng.pick(std::vector<std::string>{"none", "mean", "minmax", "standard"});
    const auto batch   = smooth ? prng.pick(std::vector<int64_t>{10, 16, 100}) : int64_t{100};
    model.parameter("linear::scaling") = scaling;
    model.parameter("linear::batch")   = batch;
    return scaling + "," + std::to_string(batch);
}

std::string configure_tuning(vt::Rng& prng, rsplitter_t& splitter, rtuner_t& tuner, const bool legacy)
{
    if (legacy)
    {
        splitter = splitter_t::all().get("k-fold");
        splitter->parameter("splitter::folds") = 3;
        splitter->parameter("splitter::seed")  = 7;
        tuner = tuner_t::all().get("surrogate"); // (the default of the fit parameters)
        return "k-fold/3,surrogate";
    }
    const auto sid   = prng.coin(1, 3) ? "random" : "k-fold";
    const auto folds = prng.range(2, 5);
    const auto tid   = prng.coin() ? "local-search" : "surrogate";
    splitter = splitter_t::all().get(sid);
    splitter->parameter("splitter::folds") = folds;
    splitter->parameter("splitter::seed")  = prng.range(0, 1024);
    if (std::string(sid) == "random")
    {
        splitter->parameter("splitter::random::train_per") = prng.range(50, 80);
    }
    tuner = tuner_t::all().get(tid);
    tuner->parameter("tuner::max_evals") = prng.pick(std::vector<int64_t>{10, 12, 20});
    return std::string(sid) + "/" + std::to_string(folds) + "," + tid;
}

// one shared const dataset used concurrently: every thread with its own buffers / iterators
void dataset_share(vt::Rng& rng, const dataset_t& dataset, const std::vector<indices_t>& lists)
{
    compare("dataset", 4, (rng.coin(1, 4) ? rng.range(9, 16) : rng.range(2, 8)), rng,
            [&](int64_t task)
            {
                hash_t     h;
                tensor2d_t fbuffer;
                tensor4d_t tbuffer;
                const auto& samples = lists[static_cast<size_t>(task)];
                h.tensor(tensor2d_t{dataset.flatten(samples, fbuffer)});
                h.tensor(tensor4d_t{dataset.targets(samples, tbuffer)});
                for (tensor_size_t f = 0; f < dataset.features(); ++f)
                {
                    const auto feature = dataset.feature(f);
                    if (feature.is_sclass())
                    {
                        sclass_mem_t buffer;
                        h.tensor(tensor_mem_t<int32_t, 1>{dataset.select(samples, f, buffer)});
                    }
                    else if (feature.is_scalar())
                    {
                        scalar_mem_t buffer;
                        h.tensor(tensor_mem_t<scalar_t, 1>{dataset.select(samples, f, buffer)});
                    }
                }
                // iterators with per-thread buffers
                auto it = flatten_iterator_t{dataset, samples};
                it.batch(7);
                it.scaling(scaling_type::standard);
                std::vector<double> sums(static_cast<size_t>(samples.size()), 0.0);
                it.loop(
                    [&](tensor_range_t range, size_t, tensor2d_cmap_t inputs)
                    {
                        for (tensor_size_t i = 0; i < range.size(); ++i)
                        {
                            double s = 0;
                            for (tensor_size_t c = 0; c < inputs.size<1>(); ++c)
                            {
                                s += inputs(i, c);
                            }
                            sums[static_cast<size_t>(range.begin() + i)] = s;
                        }
                    });
                h.bytes(sums.data(), sizeof(double) * sums.size());
                return h;
            });

    // select() of every feature kind (single-label, multi-label, scalar, structured) and the feature-wise loops of select_iterator_t
    // (all features of a kind, one feature, a given list of features): the values every callback receives, per feature
    indices_t kinds[4];
    {
        std::vector<tensor_size_t> of[4];
        for (tensor_size_t f = 0; f < dataset.features(); ++f)
        {
            const auto feature = dataset.feature(f);
            of[feature.is_sclass() ? 0 : (feature.is_mclass() ? 1 : (feature.is_scalar() ? 2 : 3))].push_back(f);
        }
        for (int k = 0; k < 4; ++k)
        {
            kinds[k].resize(static_cast<tensor_size_t>(of[k].size()));
            std::reverse_copy(of[k].begin(), of[k].end(), kinds[k].begin()); // the explicit feature lists: in reverse order
        }
    }
    compare("dataset:select", 4, (rng.coin(1, 4) ? rng.range(9, 16) : rng.range(2, 8)), rng,
            [&](int64_t task)
            {
                hash_t      h;
                const auto& samples = lists[static_cast<size_t>(task)];
                for (tensor_size_t f = 0; f < dataset.features(); ++f)
                {
                    const auto feature = dataset.feature(f);
                    if (feature.is_sclass())
                    {
                        sclass_mem_t buffer;
                        h.tensor(dataset.select(samples, f, buffer));
                    }
                    else if (feature.is_mclass())
                    {
                        mclass_mem_t buffer;
                        h.tensor(dataset.select(samples, f, buffer));
                    }
                    else if (feature.is_scalar())
                    {
                        scalar_mem_t buffer;
                        h.tensor(dataset.select(samples, f, buffer));
                    }
                    else if (feature.is_struct())
                    {
                        struct_mem_t buffer;
                        h.tensor(dataset.select(samples, f, buffer));
                    }
                }
                const auto it = select_iterator_t{dataset};
                // (the callbacks run on the dataset's pool threads, in any order: one slot per (pass, feature))
                std::vector<uint64_t> slots(static_cast<size_t>(3 * dataset.features()), 0U);
                for (int pass = 0; pass < 3; ++pass)
                {
                    const auto note = [&](tensor_size_t f, const auto& values)
                    {
                        hash_t hf;
                        hf.tensor(values);
                        slots[static_cast<size_t>(pass * dataset.features() + f)] ^= hf.h; // (a feature visited twice would cancel out)
                    };
                    const auto on_sclass = sclass_callback_t{[&](tensor_size_t f, size_t, sclass_cmap_t values) { note(f, values); }};
                    const auto on_mclass = mclass_callback_t{[&](tensor_size_t f, size_t, mclass_cmap_t values) { note(f, values); }};
                    const auto on_scalar = scalar_callback_t{[&](tensor_size_t f, size_t, scalar_cmap_t values) { note(f, values); }};
                    const auto on_struct = struct_callback_t{[&](tensor_size_t f, size_t, struct_cmap_t values) { note(f, values); }};
                    if (pass == 0)
                    {
                        it.loop(samples, on_sclass);
                        it.loop(samples, on_mclass);
                        it.loop(samples, on_scalar);
                        it.loop(samples, on_struct);
                    }
                    else if (pass == 1)
                    {
                        it.loop(samples, kinds[0], on_sclass);
                        it.loop(samples, kinds[1], on_mclass);
                        it.loop(samples, kinds[2], on_scalar);
                        it.loop(samples, kinds[3], on_struct);
                    }
                    else
                    {
                        for (int k = 0; k < 4; ++k)
                        {
                            if (kinds[k].size() == 0)
                            {
                                continue;
                            }
                            const auto f = kinds[k](task % kinds[k].size());
                            switch (k)
                            {
                            case 0: it.loop(samples, f, on_sclass); break;
                            case 1: it.loop(samples, f, on_mclass); break;
                            case 2: it.loop(samples, f, on_scalar); break;
                            default: it.loop(samples, f, on_struct); break;
                            }
                        }
                    }
                }
                h.bytes(slots.data(), sizeof(uint64_t) * slots.size());
                return h;
            });

    // targets_iterator_t / flatten_iterator_t loops (targets, inputs, inputs + targets), every scaling mode, cached or not
    compare("dataset:iterators", 8, (rng.coin(1, 4) ? rng.range(9, 16) : rng.range(2, 8)), rng,
            [&](int64_t task)
            {
                hash_t      h;
                const auto& samples = lists[static_cast<size_t>(task % 4)];
                const auto  scaling = std::vector<scaling_type>{scaling_type::none, scaling_type::mean, scaling_type::minmax, scaling_type::standard}[static_cast<size_t>((task + task / 4) % 4)];
                const auto  batch   = std::vector<tensor_size_t>{1, 7, 100, 5, 3, 16, 2, 1000}[static_cast<size_t>(task)];
                const auto  cached  = task >= 4;
                const auto  m       = samples.size();

                auto tit = targets_iterator_t{dataset, samples};
                tit.batch(batch);
                tit.scaling(scaling);
                if (cached)
                {
                    tit.cache_targets(std::numeric_limits<tensor_size_t>::max());
                }
                tensor4d_t targets(cat_dims(m, dataset.target_dims()));
                targets.full(-7.0);
                tit.loop([&](tensor_range_t range, size_t, tensor4d_cmap_t values) { targets.slice(range) = values; });
                h.tensor(targets);

                auto fit = flatten_iterator_t{dataset, samples};
                fit.batch(batch);
                fit.scaling(scaling);
                if (cached)
                {
                    fit.cache_flatten(std::numeric_limits<tensor_size_t>::max());
                    if (task % 2 == 0)
                    {
                        fit.cache_targets(std::numeric_limits<tensor_size_t>::max());
                    }
                }
                tensor2d_t inputs(m, dataset.columns());
                inputs.full(-7.0);
                fit.loop(flatten_callback_t{[&](tensor_range_t range, size_t, tensor2d_cmap_t values) { inputs.slice(range) = values; }});
                h.tensor(inputs);
                inputs.full(-5.0);
                targets.full(-5.0);
                fit.loop(flatten_targets_callback_t{[&](tensor_range_t range, size_t, tensor2d_cmap_t values, tensor4d_cmap_t tvalues)
                                                    {
                                                        inputs.slice(range)  = values;
                                                        targets.slice(range) = tvalues;
                                                    }});
                h.tensor(inputs);
                h.tensor(targets);
                return h;
            });
}

void dataset_round(vt::Rng& rng)
{
    auto        problem = vt::make_problem(rng, true, true);
    const auto& dataset = *problem.dataset;
    const auto  n       = dataset.samples();
    const auto make_lists = [&](const tensor_size_t count)
    {
        std::vector<indices_t> lists;
        for (int k = 0; k < 4; ++k)
        {
            indices_t list(rng.range(1, 2 * count));
            for (auto& s : list)
            {
                s = rng.range(0, count - 1);
            }
            lists.push_back(list);
        }
        return lists;
    };
    const auto lists = make_lists(n);
    dataset_share(rng, dataset, lists);
    // ... and a dataset with features of all four kinds (a sixth of the random problems)
    const auto all_kinds = [](const dataset_t& ds)
    {
        bool has[4] = {false, false, false, false};
        for (tensor_size_t f = 0; f < ds.features(); ++f)
        {
            const auto feature = ds.feature(f);
            has[feature.is_sclass() ? 0 : (feature.is_mclass() ? 1 : (feature.is_scalar() ? 2 : 3))] = true;
        }
        return has[0] && has[1] && has[2] && has[3];
    };
    for (int tries = 0; tries < 60 && !all_kinds(dataset); ++tries)
    {
        const auto rich = vt::make_problem(rng, true, true);
        if (all_kinds(*rich.dataset))
        {
            dataset_share(rng, *rich.dataset, make_lists(rich.dataset->samples()));
            break;
        }
    }

    // predict on a shared fitted model
    const auto loss    = loss_t::all().get(problem.classification ? "s-classnll" : "mse");
    const auto samples = arange(0, n);
    auto       gboost  = gboost_model_t{};
    gboost.parameter("gboost::max_rounds") = 10;
    rwlearners_t prototypes;
    prototypes.emplace_back(wlearner_t::all().get("stump"));
    prototypes.emplace_back(wlearner_t::all().get("affine"));
    prototypes.emplace_back(wlearner_t::all().get("dense-table"));
    gboost.prototypes(prototypes);
    gboost.fit(dataset, samples, *loss);
    const gboost_model_t& shared = gboost;
    compare("predict:gboost", 4, (rng.coin(1, 4) ? rng.range(9, 16) : rng.range(2, 8)), rng,
            [&](int64_t task)
            {
                hash_t h;
                h.tensor(shared.predict(dataset, lists[static_cast<size_t>(task)]));
                return h;
            });
    if (!problem.classification)
    {
        auto linear = linear_t::all().get("ridge");
        linear->fit(dataset, samples, *loss);
        const linear_t& lshared = *linear;
        compare("predict:linear", 4, (rng.coin(1, 4) ? rng.range(9, 16) : rng.range(2, 8)), rng,
                [&](int64_t task)
                {
                    hash_t h;
                    h.tensor(lshared.predict(dataset, lists[static_cast<size_t>(task)]));
                    return h;
                });
    }
    // ... and on models of the varied configurations of the fit cases below (any weak learner pool, sub-sampling, shrinkage, scaling of
    // the weak learners; any regulariser and scaling of the inputs)
    for (int k = 0; k < 2; ++k)
    {
        vt::Rng crng(rng.next());
        auto    vboost = gboost_model_t{};
        vboost.parameter("gboost::max_rounds") = 10;
        vboost.parameter("gboost::patience")   = 3;
        const auto  desc    = configure_gboost(crng, vboost, false, true);
        rsplitter_t splitter;
        rtuner_t    tuner;
        configure_tuning(crng, splitter, tuner, false);
        vboost.fit(dataset, samples, *loss, ml::params_t{}.splitter(*splitter).tuner(*tuner));
        const gboost_model_t& vshared = vboost;
        compare("predict:gboost:" + desc, 4, (rng.coin(1, 4) ? rng.range(9, 16) : rng.range(2, 8)), rng,
                [&](int64_t task)
                {
                    hash_t h;
                    h.tensor(vshared.predict(dataset, lists[static_cast<size_t>(task)]));
                    return h;
                });
        if (!problem.classification)
        {
            const auto id     = crng.pick(std::vector<std::string>{"ordinary", "ridge", "lasso", "elastic_net"});
            auto       linear = linear_t::all().get(id);
            if (linear == nullptr)
            {
                continue;
            }
            const auto ldesc  = configure_linear(crng, *linear, false);
            const auto smooth = id == "ordinary" || id == "ridge";
            auto       solver = solver_t::all().get(smooth ? "lbfgs" : "fpba1");
            solver->parameter("solver::max_evals") = 500;
            linear->fit(dataset, samples, *loss, ml::params_t{}.solver(*solver).splitter(*splitter).tuner(*tuner));
            const linear_t& vlshared = *linear;
            compare("predict:linear:" + id + "," + ldesc, 4, (rng.coin(1, 4) ? rng.range(9, 16) : rng.range(2, 8)), rng,
                    [&](int64_t task)
                    {
                        hash_t h;
                        h.tensor(vlshared.predict(dataset, lists[static_cast<size_t>(task)]));
                        return h;
                    });
        }
    }
}

double maxrel(const tensor4d_t& a, const tensor4d_t& b)
{
    if (a.dims() != b.dims())
    {
        return 1e9;
    }
    double scale = 1e-12, diff = 0.0;
    for (tensor_size_t i = 0; i < a.size(); ++i)
    {
        scale = std::max({scale, std::fabs(a(i)), std::fabs(b(i))});
    }
    for (tensor_size_t i = 0; i < a.size(); ++i)
    {
        diff = std::max(diff, std::fabs(a(i) - b(i)));
    }
    return diff / scale;
}

bool close(const tensor4d_t& a, const tensor4d_t& b)
{
    if (a.dims() != b.dims())
    {
        return false;
    }
    double scale = 1e-12;
    for (tensor_size_t i = 0; i < a.size(); ++i)
    {
        scale = std::max({scale, std::fabs(a(i)), std::fabs(b(i))});
    }
    for (tensor_size_t i = 0; i < a.size(); ++i)
    {
        if (std::fabs(a(i) - b(i)) > 1e-5 * scale)
        {
            return false;
        }
    }
    return true;
}

std::vector<double> tuning_of(const ml::result_t& result)
{
    std::vector<double> out{static_cast<double>(result.trials()), static_cast<double>(result.folds())};
    for (tensor_size_t trial = 0; trial < result.trials(); ++trial)
    {
        const auto params = result.params(trial);
        out.insert(out.end(), params.begin(), params.end());
        for (const auto split : {ml::split_type::train, ml::split_type::valid})
        {
            for (const auto value : {ml::value_type::errors, ml::value_type::losses})
            {
                out.push_back(result.value(trial, split, value));
            }
        }
    }
    return out;
}

double tuning_maxrel(const std::vector<double>& a, const std::vector<double>& b)
{
    if (a.size() != b.size())
    {
        return 1e9;
    }
    double m = 0.0;
    for (size_t i = 0; i < a.size(); ++i)
    {
        if (a[i] == b[i] || (!std::isfinite(a[i]) && !std::isfinite(b[i])))
        {
            continue;
        }
        m = std::max(m, std::fabs(a[i] - b[i]) / (1e-12 + std::max(std::fabs(a[i]), std::fabs(b[i]))));
    }
    return m;
}

void fit_case(const uint64_t pseed, const bool is_gboost, const std::string& linear_id, int64_t icase)
{
    // the same fit with internal pools capped at 1, 2 and 16 threads and dataset pools of 1, 3, 16 threads
    std::vector<tensor4d_t> predictions;
    std::vector<indices_t>  features;
    std::vector<std::vector<double>> tunings; // per variant: trials, their hyper-parameters and (train, valid) x (errors, losses) values
    std::vector<std::string> sigs; // per variant: the sequence of (weak learner, selected features) - for the replay artefact
    std::string             desc, config;
    for (int variant = 0; variant < 3; ++variant)
    {
        vt::Rng    prng(pseed); // identical problem in every variant
        const auto classification = is_gboost && prng.coin(1, 3);
        auto       problem        = vt::make_problem(prng, classification, prng.coin());
        const auto threads        = std::vector<size_t>{1, 3, 16}[static_cast<size_t>(variant)];
        const auto cap            = std::vector<size_t>{1, 2, 16}[static_cast<size_t>(variant)];
        verif::set_max_threads(cap);
        verif::set_sched(static_cast<int64_t>(pseed % 100000) + variant);
        auto dataset = dataset_t{*problem.source, threads};
        dataset.add<sclass_identity_generator_t>();
        dataset.add<mclass_identity_generator_t>();
        dataset.add<scalar_identity_generator_t>();
        dataset.add<struct_identity_generator_t>();
        const auto samples = arange(0, dataset.samples());
        // a quarter of the cases in the fixed configuration of the first version of this driver (3-fold, stump / affine / dense table,
        // no or plain bootstrap sub-sampling, no or global shrinkage, default scaling), the others anywhere in the configuration space
        const auto  legacy = prng.coin(1, 2); // (half of the fits in the reference configuration: the only gboost fits held to invariance)
        rsplitter_t splitter;
        rtuner_t    tuner;
        const auto  tdesc = configure_tuning(prng, splitter, tuner, legacy);
        if (is_gboost)
        {
            const auto loss   = loss_t::all().get(problem.classification ? "s-logistic" : "mse");
            auto       solver = solver_t::all().get("lbfgs");
            auto       model  = gboost_model_t{};
            model.parameter("gboost::max_rounds") = 15;
            model.parameter("gboost::patience")   = 3;
            model.parameter("gboost::seed")       = 11; // (sub-sampling with a fixed seed, as the property says)
            config = configure_gboost(prng, model, legacy) + ";" + tdesc;
            auto params = ml::params_t{}.solver(*solver).splitter(*splitter).tuner(*tuner);
            if (const auto* dir = std::getenv("VERIF_FIT_LOG"); dir != nullptr) // diagnosis only: the library's own log, per variant
            {
                params.logger(make_file_logger(std::string(dir) + "/fit_" + std::to_string(icase) + "_" + std::to_string(variant) + ".log"));
            }
            tunings.push_back(tuning_of(model.fit(dataset, samples, *loss, params)));
            predictions.push_back(model.predict(dataset, samples));
            features.push_back(model.features());
            std::string sig;
            for (const auto& wlearner : model.wlearners())
            {
                sig += wlearner->type_id() + "[";
                for (const auto f : wlearner->features())
                {
                    sig += std::to_string(f) + " ";
                }
                sig += "] ";
            }
            sigs.push_back(sig);
            desc = "gboost";
        }
        else
        {
            const auto loss   = loss_t::all().get("mse");
            auto       model  = linear_t::all().get(linear_id);
            if (model == nullptr)
            {
                model = linear_t::all().get(linear_t::all().ids()[0]);
            }
            const auto smooth = model->type_id() == "ordinary" || model->type_id() == "ridge";
            auto       solver = solver_t::all().get(smooth ? "lbfgs" : "fpba1");
            solver->parameter("solver::max_evals") = 2000;
            config = configure_linear(prng, *model, legacy) + ";" + tdesc;
            tunings.push_back(tuning_of(model->fit(dataset, samples, *loss, ml::params_t{}.solver(*solver).splitter(*splitter).tuner(*tuner))));
            predictions.push_back(model->predict(dataset, samples));
            features.push_back(indices_t{});
            sigs.emplace_back();
            desc = "linear:" + model->type_id();
        }
        verif::set_max_threads(0);
        verif::set_sched(-1);
    }
    for (size_t v = 1; v < predictions.size(); ++v)
    {
        vt::put(vt::J("Fit").i("case", icase).s("model", desc).i("variant", static_cast<int64_t>(v)).b("sameFeatures", features[v] == features[0] && sigs[v] == sigs[0]).b(
            "closePredictions", close(predictions[v], predictions[0])).s("pseed", std::to_string(pseed)).s("linear", linear_id).s("config", config).i("maxrel_e9", static_cast<int64_t>(std::min(1e9 * maxrel(predictions[v], predictions[0]), 2e9))).s("model0", sigs[0]).s("modelv", sigs[v]).b("sameTuning", tuning_maxrel(tunings[v], tunings[0]) <= 1e-5).i(
            "tuning_maxrel_e9", static_cast<int64_t>(std::min(1e9 * tuning_maxrel(tunings[v], tunings[0]), 2e9))));
    }
}
} // namespace

int main(int argc, char* argv[])
{
    if (argc < 5)
    {
        std::fprintf(stderr, "usage: shared_driver <out.ndjson> <seed> <rounds> <fit-cases>\n");
        return 2;
    }
    vt::Trace::get().open(argv[1]);
    if (std::string(argv[2]) == "fit") // replay of one fit case: shared_driver <out> fit <pseed> <gboost|linear id> [repeats]
    {
        const auto pseed = std::strtoull(argv[3], nullptr, 10);
        const auto what  = std::string(argv[4]);
        for (int64_t i = 0, n = argc > 5 ? std::atoll(argv[5]) : 1; i < n; ++i)
        {
            fit_case(pseed, what == "gboost", what, i);
        }
        vt::put(vt::J("Reset").s("what", "end").i("tasks", 0).i("threads", 0));
        return 0;
    }
    const auto seed = static_cast<uint64_t>(std::atoll(argv[2]));
    vt::Rng    rng(seed);
    const auto rounds = std::atoll(argv[3]), fits = std::atoll(argv[4]);
    verif::set_sched(static_cast<int64_t>(seed % 100000));
    for (int64_t r = 0; r < rounds; ++r)
    {
        solver_round(rng);
        loss_round(rng);
        dataset_round(rng);
    }
    for (int64_t i = 0; i < fits; ++i)
    {
        try
        {
            const auto pseed     = rng.next();
            const auto is_gboost = rng.coin();
            const auto linear_id = rng.pick(std::vector<std::string>{"ordinary", "ridge", "lasso", "elastic_net"});
            fit_case(pseed, is_gboost, linear_id, i);
        }
        catch (const std::exception& e)
        {
            vt::put(vt::J("Abort").s("why", e.what()).i("case", i));
        }
    }
    vt::put(vt::J("Reset").s("what", "end").i("tasks", 0).i("threads", 0));
    return 0;
}
