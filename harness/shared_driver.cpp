// C18 conformance driver: one shared const instance (solver, loss, dataset, fitted model) used concurrently from several threads;
// every concurrent call must return the bit pattern of the same call executed alone.  Full fits under different pool caps.
//   shared_driver <out.ndjson> <seed> <rounds> <fit-cases>
#include "objectives.h"
#include "problems.h"
#include <nano/core/verif.h>
#include <nano/dataset/iterator.h>
#include <nano/gboost/model.h>
#include <nano/linear.h>
#include <nano/loss.h>
#include <nano/solver.h>
#include <thread>

using namespace nano;

namespace
{
struct hash_t
{
    uint64_t h{1469598103934665603ULL};

    void bytes(const void* p, size_t n)
    {
        const auto* c = static_cast<const unsigned char*>(p);
        for (size_t i = 0; i < n; ++i)
        {
            h ^= c[i];
            h *= 1099511628211ULL;
        }
    }

    template <class ttensor>
    void tensor(const ttensor& t)
    {
        const auto dims = t.dims();
        bytes(dims.data(), sizeof(dims[0]) * dims.size());
        if (t.size() > 0)
        {
            bytes(t.data(), sizeof(*t.data()) * static_cast<size_t>(t.size()));
        }
    }

    void value(double v) { bytes(&v, sizeof(v)); }

    void value(int64_t v) { bytes(&v, sizeof(v)); }

    std::vector<int64_t> parts() const { return {static_cast<int64_t>(h & 0x3FFFFFFFULL), static_cast<int64_t>((h >> 30U) & 0x3FFFFFFFULL)}; }
};

// runs tasks 0..ntasks-1 first alone, then concurrently from `threads` threads (every thread runs all tasks in its own order)
void compare(const std::string& what, int64_t ntasks, int64_t threads, vt::Rng& rng, const std::function<hash_t(int64_t task)>& call)
{
    vt::put(vt::J("Reset").s("what", what).i("tasks", ntasks).i("threads", threads));
    for (int64_t task = 0; task < ntasks; ++task)
    {
        vt::put(vt::J("Solo").i("task", task).a("hash", call(task).parts()));
    }
    std::vector<std::vector<std::pair<int64_t, hash_t>>> results(static_cast<size_t>(threads));
    std::vector<std::thread>                            pool;
    std::vector<uint64_t>                               seeds;
    for (int64_t t = 0; t < threads; ++t)
    {
        seeds.push_back(rng.next());
    }
    for (int64_t t = 0; t < threads; ++t)
    {
        pool.emplace_back(
            [&, t]
            {
                vt::Rng trng(seeds[static_cast<size_t>(t)]);
                for (int64_t k = 0; k < ntasks; ++k)
                {
                    const auto task = (k + t) % ntasks;
                    NANO_VERIF_YIELD(50);
                    results[static_cast<size_t>(t)].emplace_back(task, call(task));
                }
            });
    }
    for (auto& thread : pool)
    {
        thread.join();
    }
    for (int64_t t = 0; t < threads; ++t)
    {
        for (const auto& [task, hash] : results[static_cast<size_t>(t)])
        {
            vt::put(vt::J("Conc").i("thread", t).i("task", task).a("hash", hash.parts()));
        }
    }
}

hash_t hash_state(const solver_state_t& state)
{
    hash_t h;
    h.tensor(state.x());
    h.tensor(state.gx());
    h.value(state.fx());
    h.value(static_cast<int64_t>(state.status()));
    h.value(static_cast<int64_t>(state.fcalls()));
    h.value(static_cast<int64_t>(state.gcalls()));
    return h;
}

void solver_round(vt::Rng& rng)
{
    function_t::config_t config;
    config.m_min_dims = 2;
    config.m_max_dims = 8;
    config.m_summands = 20;
    const auto functions = function_t::make(config);
    const auto ids = std::vector<std::string>{"gd",  "cgd-pr", "cgd-n",     "lbfgs", "bfgs", "dfp",   "sr1",  "fletcher", "hoshino", "osga",
                                               "sgm", "cocob",  "ellipsoid", "asga2", "sda",  "wda",   "pgm",  "dgm",      "fgm",     "rqb",
                                               "fpba1", "fpba2", "cgd-hs", "cgd-fr", "cgd-cd", "cgd-ls", "cgd-dy", "cgd-dycd", "cgd-dyhs", "cgd-frpr", "asga4"};
    for (const auto& id : ids)
    {
        const auto solver = solver_t::all().get(id);
        if (solver == nullptr)
        {
            continue;
        }
        solver->parameter("solver::max_evals") = 200;
        solver->parameter("solver::epsilon")   = std::pow(10.0, rng.uniform(-9.0, -4.0));
        const auto ntasks = int64_t{4};
        std::vector<const function_t*> fs;
        std::vector<vector_t>          x0s;
        for (int64_t k = 0; k < ntasks; ++k)
        {
            const function_t* f = nullptr;
            for (int tries = 0; tries < 50 && f == nullptr; ++tries)
            {
                const auto* cand = functions[static_cast<size_t>(rng.range(0, static_cast<int64_t>(functions.size()) - 1))].get();
                if (solver->type() != solver_type::line_search || cand->smooth())
                {
                    f = cand;
                }
            }
            fs.push_back(f);
            x0s.push_back(vt::random_x0(rng, f->size(), 1.0));
        }
        const solver_t& shared = *solver; // only the const interface is used below
        compare("minimize:" + id, ntasks, (rng.coin(1, 4) ? rng.range(9, 16) : rng.range(2, 8)), rng,
                [&](int64_t task)
                {
                    const auto function = fs[static_cast<size_t>(task)]->clone(); // each call with its own function object
                    return hash_state(shared.minimize(*function, x0s[static_cast<size_t>(task)], make_null_logger()));
                });
    }
}

void loss_round(vt::Rng& rng)
{
    for (const auto& id : loss_t::all().ids())
    {
        const auto loss = loss_t::all().get(id);
        const auto n = rng.range(1, 40), d = rng.range(1, 6);
        tensor4d_t targets(make_dims(n, d, 1, 1)), outputs(make_dims(n, d, 1, 1));
        for (tensor_size_t i = 0; i < n; ++i)
        {
            const auto label = rng.range(0, d - 1);
            for (tensor_size_t k = 0; k < d; ++k)
            {
                targets.tensor(i)(k) = (id[0] == 's' && id[1] == '-') ? (k == label ? +1.0 : -1.0) : ((id[0] == 'm' && id[1] == '-') ? (rng.coin() ? +1.0 : -1.0) : rng.uniform(-2.0, 2.0));
                outputs.tensor(i)(k) = rng.uniform(-3.0, 3.0);
            }
        }
        const loss_t& shared = *loss;
        compare("loss:" + id, 3, (rng.coin(1, 4) ? rng.range(9, 16) : rng.range(2, 8)), rng,
                [&](int64_t task)
                {
                    hash_t h;
                    tensor1d_t values;
                    tensor4d_t vgrads;
                    if (task == 0)
                    {
                        shared.value(targets, outputs, values);
                        h.tensor(values);
                    }
                    else if (task == 1)
                    {
                        shared.error(targets, outputs, values);
                        h.tensor(values);
                    }
                    else
                    {
                        shared.vgrad(targets, outputs, vgrads);
                        h.tensor(vgrads);
                    }
                    return h;
                });
    }
}

void dataset_round(vt::Rng& rng)
{
    auto        problem = vt::make_problem(rng, true, true);
    const auto& dataset = *problem.dataset;
    const auto  n       = dataset.samples();
    std::vector<indices_t> lists;
    for (int k = 0; k < 4; ++k)
    {
        indices_t list(rng.range(1, 2 * n));
        for (auto& s : list)
        {
            s = rng.range(0, n - 1);
        }
        lists.push_back(list);
    }
    compare("dataset", 4, (rng.coin(1, 4) ? rng.range(9, 16) : rng.range(2, 8)), rng,
            [&](int64_t task)
            {
                hash_t     h;
                tensor2d_t fbuffer;
                tensor4d_t tbuffer;
                const auto& samples = lists[static_cast<size_t>(task)];
                h.tensor(tensor2d_t{dataset.flatten(samples, fbuffer)});
                h.tensor(tensor4d_t{dataset.targets(samples, tbuffer)});
                for (tensor_size_t f = 0; f < dataset.features(); ++f)
                {
                    const auto feature = dataset.feature(f);
                    if (feature.is_sclass())
                    {
                        sclass_mem_t buffer;
                        h.tensor(tensor_mem_t<int32_t, 1>{dataset.select(samples, f, buffer)});
                    }
                    else if (feature.is_scalar())
                    {
                        scalar_mem_t buffer;
                        h.tensor(tensor_mem_t<scalar_t, 1>{dataset.select(samples, f, buffer)});
                    }
                }
                // iterators with per-thread buffers
                auto it = flatten_iterator_t{dataset, samples};
                it.batch(7);
                it.scaling(scaling_type::standard);
                std::vector<double> sums(static_cast<size_t>(samples.size()), 0.0);
                it.loop(
                    [&](tensor_range_t range, size_t, tensor2d_cmap_t inputs)
                    {
                        for (tensor_size_t i = 0; i < range.size(); ++i)
                        {
                            double s = 0;
                            for (tensor_size_t c = 0; c < inputs.size<1>(); ++c)
                            {
                                s += inputs(i, c);
                            }
                            sums[static_cast<size_t>(range.begin() + i)] = s;
                        }
                    });
                h.bytes(sums.data(), sizeof(double) * sums.size());
                return h;
            });

    // predict on a shared fitted model
    const auto loss    = loss_t::all().get(problem.classification ? "s-classnll" : "mse");
    const auto samples = arange(0, n);
    auto       gboost  = gboost_model_t{};
    gboost.parameter("gboost::max_rounds") = 10;
    rwlearners_t prototypes;
    prototypes.emplace_back(wlearner_t::all().get("stump"));
    prototypes.emplace_back(wlearner_t::all().get("affine"));
    prototypes.emplace_back(wlearner_t::all().get("dense-table"));
    gboost.prototypes(prototypes);
    gboost.fit(dataset, samples, *loss);
    const gboost_model_t& shared = gboost;
    compare("predict:gboost", 4, (rng.coin(1, 4) ? rng.range(9, 16) : rng.range(2, 8)), rng,
            [&](int64_t task)
            {
                hash_t h;
                h.tensor(shared.predict(dataset, lists[static_cast<size_t>(task)]));
                return h;
            });
    if (!problem.classification)
    {
        auto linear = linear_t::all().get("ridge");
        linear->fit(dataset, samples, *loss);
        const linear_t& lshared = *linear;
        compare("predict:linear", 4, (rng.coin(1, 4) ? rng.range(9, 16) : rng.range(2, 8)), rng,
                [&](int64_t task)
                {
                    hash_t h;
                    h.tensor(lshared.predict(dataset, lists[static_cast<size_t>(task)]));
                    return h;
                });
    }
}

double maxrel(const tensor4d_t& a, const tensor4d_t& b)
{
    if (a.dims() != b.dims())
    {
        return 1e9;
    }
    double scale = 1e-12, diff = 0.0;
    for (tensor_size_t i = 0; i < a.size(); ++i)
    {
        scale = std::max({scale, std::fabs(a(i)), std::fabs(b(i))});
    }
    for (tensor_size_t i = 0; i < a.size(); ++i)
    {
        diff = std::max(diff, std::fabs(a(i) - b(i)));
    }
    return diff / scale;
}

bool close(const tensor4d_t& a, const tensor4d_t& b)
{
    if (a.dims() != b.dims())
    {
        return false;
    }
    double scale = 1e-12;
    for (tensor_size_t i = 0; i < a.size(); ++i)
    {
        scale = std::max({scale, std::fabs(a(i)), std::fabs(b(i))});
    }
    for (tensor_size_t i = 0; i < a.size(); ++i)
    {
        if (std::fabs(a(i) - b(i)) > 1e-5 * scale)
        {
            return false;
        }
    }
    return true;
}

std::vector<double> tuning_of(const ml::result_t& result)
{
    std::vector<double> out{static_cast<double>(result.trials()), static_cast<double>(result.folds())};
    for (tensor_size_t trial = 0; trial < result.trials(); ++trial)
    {
        const auto params = result.params(trial);
        out.insert(out.end(), params.begin(), params.end());
        for (const auto split : {ml::split_type::train, ml::split_type::valid})
        {
            for (const auto value : {ml::value_type::errors, ml::value_type::losses})
            {
                out.push_back(result.value(trial, split, value));
            }
        }
    }
    return out;
}

double tuning_maxrel(const std::vector<double>& a, const std::vector<double>& b)
{
    if (a.size() != b.size())
    {
        return 1e9;
    }
    double m = 0.0;
    for (size_t i = 0; i < a.size(); ++i)
    {
        if (a[i] == b[i] || (!std::isfinite(a[i]) && !std::isfinite(b[i])))
        {
            continue;
        }
        m = std::max(m, std::fabs(a[i] - b[i]) / (1e-12 + std::max(std::fabs(a[i]), std::fabs(b[i]))));
    }
    return m;
}

void fit_case(const uint64_t pseed, const bool is_gboost, const std::string& linear_id, int64_t icase)
{
    // the same fit with internal pools capped at 1, 2 and 16 threads and dataset pools of 1, 3, 16 threads
    std::vector<tensor4d_t> predictions;
    std::vector<indices_t>  features;
    std::vector<std::vector<double>> tunings; // per variant: trials, their hyper-parameters and (train, valid) x (errors, losses) values
    std::vector<std::string> sigs; // per variant: the sequence of (weak learner, selected features) - for the replay artefact
    std::string             desc;
    for (int variant = 0; variant < 3; ++variant)
    {
        vt::Rng    prng(pseed); // identical problem in every variant
        const auto classification = is_gboost && prng.coin(1, 3);
        auto       problem        = vt::make_problem(prng, classification, prng.coin());
        const auto threads        = std::vector<size_t>{1, 3, 16}[static_cast<size_t>(variant)];
        const auto cap            = std::vector<size_t>{1, 2, 16}[static_cast<size_t>(variant)];
        verif::set_max_threads(cap);
        verif::set_sched(static_cast<int64_t>(pseed % 100000) + variant);
        auto dataset = dataset_t{*problem.source, threads};
        dataset.add<sclass_identity_generator_t>();
        dataset.add<mclass_identity_generator_t>();
        dataset.add<scalar_identity_generator_t>();
        dataset.add<struct_identity_generator_t>();
        const auto samples = arange(0, dataset.samples());
        auto       splitter = splitter_t::all().get("k-fold");
        splitter->parameter("splitter::folds") = 3;
        splitter->parameter("splitter::seed")  = 7;
        if (is_gboost)
        {
            const auto loss   = loss_t::all().get(problem.classification ? "s-logistic" : "mse");
            auto       solver = solver_t::all().get("lbfgs");
            auto       model  = gboost_model_t{};
            model.parameter("gboost::max_rounds") = 15;
            model.parameter("gboost::patience")   = 3;
            model.parameter("gboost::subsample")  = prng.coin() ? "off" : "bootstrap";
            model.parameter("gboost::seed")       = 11;
            model.parameter("gboost::shrinkage")  = prng.coin() ? "off" : "global";
            rwlearners_t prototypes;
            prototypes.emplace_back(wlearner_t::all().get("stump"));
            prototypes.emplace_back(wlearner_t::all().get("affine"));
            prototypes.emplace_back(wlearner_t::all().get("dense-table"));
            model.prototypes(prototypes);
            auto params = ml::params_t{}.solver(*solver).splitter(*splitter);
            if (const auto* dir = std::getenv("VERIF_FIT_LOG"); dir != nullptr) // diagnosis only: the library's own log, per variant
            {
                params.logger(make_file_logger(std::string(dir) + "/fit_" + std::to_string(icase) + "_" + std::to_string(variant) + ".log"));
            }
            tunings.push_back(tuning_of(model.fit(dataset, samples, *loss, params)));
            predictions.push_back(model.predict(dataset, samples));
            features.push_back(model.features());
            std::string sig;
            for (const auto& wlearner : model.wlearners())
            {
                sig += wlearner->type_id() + "[";
                for (const auto f : wlearner->features())
                {
                    sig += std::to_string(f) + " ";
                }
                sig += "] ";
            }
            sigs.push_back(sig);
            desc = "gboost";
        }
        else
        {
            const auto loss   = loss_t::all().get("mse");
            auto       model  = linear_t::all().get(linear_id);
            if (model == nullptr)
            {
                model = linear_t::all().get(linear_t::all().ids()[0]);
            }
            const auto smooth = model->type_id() == "ordinary" || model->type_id() == "ridge";
            auto       solver = solver_t::all().get(smooth ? "lbfgs" : "fpba1");
            solver->parameter("solver::max_evals") = 2000;
            tunings.push_back(tuning_of(model->fit(dataset, samples, *loss, ml::params_t{}.solver(*solver).splitter(*splitter))));
            predictions.push_back(model->predict(dataset, samples));
            features.push_back(indices_t{});
            sigs.emplace_back();
            desc = "linear:" + model->type_id();
        }
        verif::set_max_threads(0);
        verif::set_sched(-1);
    }
    for (size_t v = 1; v < predictions.size(); ++v)
    {
        vt::put(vt::J("Fit").i("case", icase).s("model", desc).i("variant", static_cast<int64_t>(v)).b("sameFeatures", features[v] == features[0] && sigs[v] == sigs[0]).b(
            "closePredictions", close(predictions[v], predictions[0])).s("pseed", std::to_string(pseed)).s("linear", linear_id).i("maxrel_e9", static_cast<int64_t>(std::min(1e9 * maxrel(predictions[v], predictions[0]), 2e9))).s("model0", sigs[0]).s("modelv", sigs[v]).b("sameTuning", tuning_maxrel(tunings[v], tunings[0]) <= 1e-5).i(
            "tuning_maxrel_e9", static_cast<int64_t>(std::min(1e9 * tuning_maxrel(tunings[v], tunings[0]), 2e9))));
    }
}
} // namespace

int main(int argc, char* argv[])
{
    if (argc < 5)
    {
        std::fprintf(stderr, "usage: shared_driver <out.ndjson> <seed> <rounds> <fit-cases>\n");
        return 2;
    }
    vt::Trace::get().open(argv[1]);
    if (std::string(argv[2]) == "fit") // replay of one fit case: shared_driver <out> fit <pseed> <gboost|linear id> [repeats]
    {
        const auto pseed = std::strtoull(argv[3], nullptr, 10);
        const auto what  = std::string(argv[4]);
        for (int64_t i = 0, n = argc > 5 ? std::atoll(argv[5]) : 1; i < n; ++i)
        {
            fit_case(pseed, what == "gboost", what, i);
        }
        vt::put(vt::J("Reset").s("what", "end").i("tasks", 0).i("threads", 0));
        return 0;
    }
    const auto seed = static_cast<uint64_t>(std::atoll(argv[2]));
    vt::Rng    rng(seed);
    const auto rounds = std::atoll(argv[3]), fits = std::atoll(argv[4]);
    verif::set_sched(static_cast<int64_t>(seed % 100000));
    for (int64_t r = 0; r < rounds; ++r)
    {
        solver_round(rng);
        loss_round(rng);
        dataset_round(rng);
    }
    for (int64_t i = 0; i < fits; ++i)
    {
        try
        {
            const auto pseed     = rng.next();
            const auto is_gboost = rng.coin();
            const auto linear_id = rng.pick(std::vector<std::string>{"ordinary", "ridge", "lasso", "elastic_net"});
            fit_case(pseed, is_gboost, linear_id, i);
        }
        catch (const std::exception& e)
        {
            vt::put(vt::J("Abort").s("why", e.what()).i("case", i));
        }
    }
    vt::put(vt::J("Reset").s("what", "end").i("tasks", 0).i("threads", 0));
    return 0;
}
