#pragma once
// small random learning problems shared by the drivers (gboost/linear fits, serialisation, thread-safety ...)
#include "tabledata.h"
#include <nano/dataset.h>
#include <nano/generator/elemwise_identity.h>

namespace vt
{
using namespace nano;

struct problem_t
{
    std::unique_ptr<table_datasource_t> source;
    std::unique_ptr<dataset_t>              dataset;
    bool                                    classification{false};
};

problem_t make_problem(Rng& rng, bool allow_classification, bool with_missing)
{
    const auto n = rng.range(20, 60);
    problem_t  p;
    p.classification = allow_classification && rng.coin(1, 3);

    auto x1 = make_scalar_column("x1", feature_type::float64, n);
    auto x2 = make_scalar_column("x2", rng.coin() ? feature_type::float32 : feature_type::int16, n);
    auto c1 = make_sclass_column("c1", 3, n);
    auto y  = p.classification ? make_sclass_column("y", 2, n) : make_scalar_column("y", feature_type::float64, n);

    const double table[3] = {-1.5, 0.25, 2.0};
    const auto   w1 = rng.uniform(-2, 2), w2 = rng.uniform(-1, 1);
    for (int64_t s = 0; s < n; ++s)
    {
        x1.flat[static_cast<size_t>(s)] = static_cast<double>(rng.range(-8, 8)) / 4.0;
        x2.flat[static_cast<size_t>(s)] = static_cast<double>(rng.range(-5, 5));
        c1.flat[static_cast<size_t>(s)] = static_cast<double>(rng.range(0, 2));
        const auto f = w1 * x1.at(s) + w2 * x2.at(s) + table[static_cast<int>(c1.at(s))] + rng.uniform(-0.3, 0.3);
        y.flat[static_cast<size_t>(s)] = p.classification ? (f > 0.2 ? 1.0 : 0.0) : f;
        if (with_missing)
        {
            x2.missing[static_cast<size_t>(s)] = static_cast<char>(rng.coin(1, 8));
            c1.missing[static_cast<size_t>(s)] = static_cast<char>(rng.coin(1, 10));
        }
    }
    std::vector<column_t> columns{x1, x2, c1, y};
    size_t                target = 3U;
    if (rng.coin())
    {
        // duplicated columns (real data have them): exactly equal scores, so the fitted model shows how ties between features are broken
        auto d1         = x1;
        auto d2         = x2;
        d1.feature      = make_scalar_column("x1dup", feature_type::float64, n).feature;
        d2.feature      = make_scalar_column("x2dup", feature_type::float64, n).feature;
        columns         = {x1, x2, c1, d1, d2, y};
        target          = 5U;
    }
    if (rng.coin())
    {
        // several multi-label features, one of them informative (not necessarily the first): feature-parallel loops over more
        // features of a kind than pool threads, tables over label sets
        const auto nm = rng.range(2, 4), informative = rng.range(0, nm - 1);
        auto       yc = columns[target];
        columns.erase(columns.begin() + static_cast<std::ptrdiff_t>(target));
        for (int64_t m = 0; m < nm; ++m)
        {
            const auto classes = rng.range(2, 3);
            auto       mc      = make_mclass_column("m" + std::to_string(m), classes, n);
            for (int64_t s = 0; s < n; ++s)
            {
                for (int64_t c = 0; c < classes; ++c)
                {
                    mc.flat[static_cast<size_t>(s * classes + c)] = rng.coin() ? 1.0 : 0.0;
                }
                if (with_missing)
                {
                    mc.missing[static_cast<size_t>(s)] = static_cast<char>(rng.coin(1, 12));
                }
                if (m == informative && !p.classification)
                {
                    yc.flat[static_cast<size_t>(s)] += 3.0 * mc.flat[static_cast<size_t>(s * classes)] - 2.0 * mc.flat[static_cast<size_t>(s * classes + 1)];
                }
                else if (m == informative && mc.flat[static_cast<size_t>(s * classes)] > 0.5 && rng.coin(3, 4))
                {
                    yc.flat[static_cast<size_t>(s)] = 1.0;
                }
            }
            columns.push_back(mc);
        }
        columns.push_back(yc);
        target = columns.size() - 1U;
    }
    if (rng.coin(1, 3))
    {
        // more than one feature of every other kind as well: a second single-label feature and two structured ones
        auto yc = columns[target];
        columns.erase(columns.begin() + static_cast<std::ptrdiff_t>(target));
        auto c2 = make_sclass_column("c2", 2, n);
        auto t1 = make_struct_column("t1", feature_type::float64, make_dims(2, 1, 1), n);
        auto t2 = make_struct_column("t2", feature_type::float32, make_dims(1, 2, 1), n);
        for (int64_t s = 0; s < n; ++s)
        {
            c2.flat[static_cast<size_t>(s)] = static_cast<double>(rng.range(0, 1));
            for (int64_t k = 0; k < 2; ++k)
            {
                t1.flat[static_cast<size_t>(2 * s + k)] = static_cast<double>(rng.range(-4, 4)) / 2.0;
                t2.flat[static_cast<size_t>(2 * s + k)] = static_cast<double>(rng.range(-3, 3));
            }
            if (with_missing)
            {
                c2.missing[static_cast<size_t>(s)] = static_cast<char>(rng.coin(1, 10));
                t2.missing[static_cast<size_t>(s)] = static_cast<char>(rng.coin(1, 10));
            }
            if (!p.classification)
            {
                yc.flat[static_cast<size_t>(s)] += 0.75 * t2.flat[static_cast<size_t>(2 * s + 1)] - 1.25 * c2.at(s);
            }
        }
        columns.push_back(c2);
        columns.push_back(t1);
        columns.push_back(t2);
        columns.push_back(yc);
        target = columns.size() - 1U;
    }
    p.source = std::make_unique<table_datasource_t>(n, columns, target);
    p.source->load();
    p.dataset = std::make_unique<dataset_t>(*p.source, static_cast<size_t>(rng.range(1, 4)));
    p.dataset->add<sclass_identity_generator_t>();
    p.dataset->add<mclass_identity_generator_t>();
    p.dataset->add<scalar_identity_generator_t>();
    p.dataset->add<struct_identity_generator_t>();
    return p;
}

} // namespace vt
