#pragma once
// In-memory data source defined by the driver (through datasource_t's protected resize/set API, as the repository's own
// fixtures do): the driver knows every stored value, so every view can be checked against the driver's own table.
#include "trace.h"
#include <cmath>
#include <limits>
#include <nano/datasource.h>

namespace vt
{
// values of one feature for all samples: flat[sample * width + k]; a sample is missing iff missing[sample] != 0
struct column_t
{
    nano::feature_t     feature;
    int64_t             width{1}; // 1 (scalar, sclass), #classes (mclass), product of dims (struct)
    std::vector<double> flat;
    std::vector<char>   missing;

    double at(int64_t sample, int64_t k = 0) const { return flat[static_cast<size_t>(sample * width + k)]; }
};

class table_datasource_t final : public nano::datasource_t
{
public:
    table_datasource_t(int64_t samples, std::vector<column_t> columns, size_t target)
        : nano::datasource_t("verif-table")
        , m_samples(samples)
        , m_columns(std::move(columns))
        , m_target(target)
    {
    }

    nano::rdatasource_t clone() const override { return std::make_unique<table_datasource_t>(*this); }

    const std::vector<column_t>& columns() const { return m_columns; }

    size_t target() const { return m_target; }

    bool has_target() const { return m_target < m_columns.size(); }

    // index in columns() of the i-th input feature
    size_t input_column(int64_t ifeature) const
    {
        const auto i = static_cast<size_t>(ifeature);
        return (has_target() && i >= m_target) ? i + 1U : i;
    }

private:
    void do_load() override
    {
        nano::features_t features;
        for (const auto& column : m_columns)
        {
            features.push_back(column.feature);
        }
        if (has_target())
        {
            resize(m_samples, features, m_target);
        }
        else
        {
            resize(m_samples, features);
        }
        for (size_t c = 0; c < m_columns.size(); ++c)
        {
            const auto& column = m_columns[c];
            const auto  f      = static_cast<nano::tensor_size_t>(c);
            for (int64_t s = 0; s < m_samples; ++s)
            {
                if (column.missing[static_cast<size_t>(s)] != 0)
                {
                    continue;
                }
                if (column.feature.type() == nano::feature_type::sclass)
                {
                    set(s, f, static_cast<int64_t>(column.at(s)));
                }
                else if (column.feature.type() == nano::feature_type::mclass)
                {
                    nano::tensor_mem_t<int8_t, 1> bits(column.width);
                    for (int64_t k = 0; k < column.width; ++k)
                    {
                        bits(k) = static_cast<int8_t>(column.at(s, k));
                    }
                    set(s, f, bits);
                }
                else if (column.width == 1)
                {
                    set(s, f, column.at(s));
                }
                else
                {
                    nano::tensor_mem_t<double, 3> values(column.feature.dims());
                    for (int64_t k = 0; k < column.width; ++k)
                    {
                        values(k) = column.at(s, k);
                    }
                    set(s, f, values);
                }
            }
        }
    }

    int64_t               m_samples;
    std::vector<column_t> m_columns;
    size_t                m_target;
};

inline column_t make_scalar_column(const std::string& name, nano::feature_type type, int64_t samples)
{
    column_t c;
    c.feature = nano::feature_t{name}.scalar(type);
    c.width   = 1;
    c.flat.assign(static_cast<size_t>(samples), 0.0);
    c.missing.assign(static_cast<size_t>(samples), 0);
    return c;
}

inline column_t make_struct_column(const std::string& name, nano::feature_type type, nano::tensor3d_dims_t dims, int64_t samples)
{
    column_t c;
    c.feature = nano::feature_t{name}.scalar(type, dims);
    c.width   = nano::size(dims);
    c.flat.assign(static_cast<size_t>(samples * c.width), 0.0);
    c.missing.assign(static_cast<size_t>(samples), 0);
    return c;
}

inline column_t make_sclass_column(const std::string& name, int64_t classes, int64_t samples)
{
    column_t c;
    c.feature = nano::feature_t{name}.sclass(static_cast<size_t>(classes));
    c.width   = 1;
    c.flat.assign(static_cast<size_t>(samples), 0.0);
    c.missing.assign(static_cast<size_t>(samples), 0);
    return c;
}

inline column_t make_mclass_column(const std::string& name, int64_t classes, int64_t samples)
{
    column_t c;
    c.feature = nano::feature_t{name}.mclass(static_cast<size_t>(classes));
    c.width   = classes;
    c.flat.assign(static_cast<size_t>(samples * classes), 0.0);
    c.missing.assign(static_cast<size_t>(samples), 0);
    return c;
}
} // namespace vt
