#pragma once
// A function_t owned by the driver that wraps any objective: independent evaluation counters, every evaluation gets an id
// and its (x, f, g) is kept by the wrapper - all predicates about a run are computed from THESE records, never from
// solver_state_t.  Also: a capturing logger stream that turns the library's own "[solver-...]: calls=F|G" lines into events.
#include "trace.h"
#include <cstring>
#include <nano/function.h>
#include <nano/logger.h>
#include <regex>
#include <sstream>

namespace vt
{
using namespace nano;

struct eval_t
{
    vector_t x, g;
    double   f{0};
    bool     grad{false};
};

struct iter_t
{
    int64_t after; // number of evaluations performed when the line was logged
    int64_t fcalls, gcalls;
};

class counting_function_t final : public function_t
{
public:
    explicit counting_function_t(const function_t& inner)
        : function_t("counting", inner.size())
        , m_inner(inner)
    {
        convex(inner.convex() ? convexity::yes : convexity::no);
        smooth(inner.smooth() ? smoothness::yes : smoothness::no);
        strong_convexity(inner.strong_convexity());
    }

    rfunction_t clone() const override { return std::make_unique<counting_function_t>(*this); }

    const constraints_t& constraints() const override { return m_inner.constraints(); }

    scalar_t do_vgrad(vector_cmap_t x, vector_map_t gx) const override
    {
        const auto f = m_inner.vgrad(x, gx);
        eval_t     e;
        e.x    = vector_t{x};
        e.f    = f;
        e.grad = gx.size() == x.size();
        if (e.grad)
        {
            e.g = vector_t{gx};
        }
        m_evals.push_back(std::move(e));
        return f;
    }

    const std::vector<eval_t>& evals() const { return m_evals; }

    void reset() const { m_evals.clear(); }

    const function_t& inner() const { return m_inner; }

private:
    const function_t&           m_inner;
    mutable std::vector<eval_t> m_evals;
};

inline bool same_bits(const vector_t& a, const vector_t& b)
{
    return a.size() == b.size() && (a.size() == 0 || std::memcmp(a.data(), b.data(), sizeof(scalar_t) * static_cast<size_t>(a.size())) == 0);
}

inline bool same_bits(double a, double b)
{
    return std::memcmp(&a, &b, sizeof(double)) == 0 || (a == b);
}

inline bool all_finite(const vector_t& v)
{
    for (tensor_size_t i = 0; i < v.size(); ++i)
    {
        if (!std::isfinite(v(i)))
        {
            return false;
        }
    }
    return true;
}

// max|g| / max(1, |f|)
inline double gradient_test(const eval_t& e)
{
    return e.g.size() == 0 ? std::nan("") : e.g.lpNorm<Eigen::Infinity>() / std::max(1.0, std::fabs(e.f));
}

// std::ostream whose lines are inspected: "[solver-<id>]: calls=F|G,..." -> iter_t with the wrapper's count at that moment
class capture_stream_t final : public std::streambuf, public std::ostream
{
public:
    explicit capture_stream_t(const counting_function_t& function)
        : std::ostream(static_cast<std::streambuf*>(this))
        , m_function(function)
    {
    }

    const std::vector<iter_t>& iters() const { return m_iters; }

    const std::vector<std::string>& lines() const { return m_lines; }

    void keep_lines(bool keep) { m_keep = keep; }

    void clear()
    {
        m_iters.clear();
        m_lines.clear();
        m_line.clear();
    }

protected:
    std::streambuf::int_type overflow(std::streambuf::int_type ch) override
    {
        if (ch == '\n')
        {
            process();
            m_line.clear();
        }
        else if (ch != std::streambuf::traits_type::eof())
        {
            m_line += static_cast<char>(ch);
        }
        return ch;
    }

    std::streamsize xsputn(const char* s, std::streamsize n) override
    {
        for (std::streamsize i = 0; i < n; ++i)
        {
            overflow(s[i]);
        }
        return n;
    }

private:
    void process()
    {
        if (m_keep)
        {
            m_lines.push_back(m_line);
        }
        const auto at = m_line.find("[solver-");
        if (at == std::string::npos)
        {
            return;
        }
        const auto calls = m_line.find("calls=", at);
        if (calls == std::string::npos)
        {
            return;
        }
        long long f = 0, g = 0;
        if (std::sscanf(m_line.c_str() + calls, "calls=%lld|%lld", &f, &g) == 2)
        {
            m_iters.push_back({static_cast<int64_t>(m_function.evals().size()), f, g});
        }
    }

    const counting_function_t& m_function;
    std::string                m_line;
    std::vector<iter_t>        m_iters;
    std::vector<std::string>   m_lines;
    bool                       m_keep{false};
};
} // namespace vt
