#pragma once
// objectives with known structure defined by the drivers (random quadratics with closed-form minimiser, max-of-linear functions)
#include "trace.h"
#include <nano/function.h>

namespace vt
{
using namespace nano;

// f(x) = 0.5 x'Ax + a'x with A = s Q diag(spectrum) Q'
class quadratic_t final : public function_t
{
public:
    quadratic_t(matrix_t A, vector_t a)
        : function_t("verif-quadratic", a.size())
        , m_A(std::move(A))
        , m_a(std::move(a))
    {
        convex(convexity::yes);
        smooth(smoothness::yes);
    }

    rfunction_t clone() const override { return std::make_unique<quadratic_t>(*this); }

    scalar_t do_vgrad(vector_cmap_t x, vector_map_t gx) const override
    {
        const vector_t Ax = m_A.matrix() * x.vector();
        if (gx.size() == x.size())
        {
            gx = Ax.vector() + m_a.vector();
        }
        return 0.5 * x.dot(Ax) + x.dot(m_a);
    }

    matrix_t m_A;
    vector_t m_a;
};

// f(x) = max_k (a_k . x + b_k) + (mu/2)|x|^2 : convex, non-smooth
class maxlin_t final : public function_t
{
public:
    maxlin_t(matrix_t A, vector_t b, scalar_t mu)
        : function_t("verif-maxlin", A.cols())
        , m_A(std::move(A))
        , m_b(std::move(b))
        , m_mu(mu)
    {
        convex(convexity::yes);
        smooth(smoothness::no);
    }

    rfunction_t clone() const override { return std::make_unique<maxlin_t>(*this); }

    scalar_t do_vgrad(vector_cmap_t x, vector_map_t gx) const override
    {
        const vector_t v = m_A.matrix() * x.vector() + m_b.vector();
        tensor_size_t  k = 0;
        for (tensor_size_t i = 1; i < v.size(); ++i)
        {
            if (v(i) > v(k))
            {
                k = i;
            }
        }
        if (gx.size() == x.size())
        {
            gx = m_A.matrix().row(k).transpose() + m_mu * x.vector();
        }
        return v(k) + 0.5 * m_mu * x.dot(x);
    }

    matrix_t m_A;
    vector_t m_b;
    scalar_t m_mu;
};

struct quad_info_t
{
    vector_t xstar;
    double   lambda_min{0};
};

std::unique_ptr<quadratic_t> make_quadratic(Rng& rng, int64_t n, quad_info_t& info, int hard = 0)
{
    // random orthogonal Q by Gram-Schmidt
    matrix_t Q(n, n);
    for (tensor_size_t i = 0; i < Q.size(); ++i)
    {
        Q(i) = rng.uniform(-1.0, 1.0);
    }
    for (tensor_size_t c = 0; c < n; ++c)
    {
        for (tensor_size_t p = 0; p < c; ++p)
        {
            const auto dot = Q.matrix().col(c).dot(Q.matrix().col(p));
            Q.matrix().col(c) -= dot * Q.matrix().col(p);
        }
        const auto norm = Q.matrix().col(c).norm();
        if (norm < 1e-8)
        {
            Q.matrix().col(c).setZero();
            Q(c, c) = 1.0;
            --c;
            continue;
        }
        Q.matrix().col(c) /= norm;
    }
    // condition number in [1, 1e3] and curvature scale in [1e-3, 1e3] (the corners included); the spectrum is geometric, or random /
    // clustered inside [1, kappa] with both ends attained
    // (hard: the ill-conditioned corners of the class - 1: flat, 2: steep, 3: exactly on the boundary of the class (kappa = 1e3, scale 1e-3 | 1e3, minimiser at a corner of the box) - where quasi-Newton methods need most of their evaluation budget)
    const auto kappa = hard == 3 ? 1e3 : hard != 0 ? std::pow(10.0, rng.uniform(2.5, 3.0)) : rng.coin(1, 8) ? rng.pick(std::vector<double>{1.0, 1e3}) : std::pow(10.0, rng.uniform(0.0, 3.0));
    const auto s     = hard == 3 ? rng.pick(std::vector<double>{1e-3, 1e3}) : hard == 1 ? std::pow(10.0, rng.uniform(-3.0, -2.0)) : hard == 2 ? std::pow(10.0, rng.uniform(2.0, 3.0)) : rng.coin(1, 8) ? rng.pick(std::vector<double>{1e-3, 1e3}) : std::pow(10.0, rng.uniform(-3.0, 3.0));
    vector_t   spectrum(n);
    const auto shape = rng.range(0, 2);
    for (tensor_size_t i = 0; i < n; ++i)
    {
        const auto geometric = (n == 1) ? 1.0 : std::pow(kappa, static_cast<double>(i) / static_cast<double>(n - 1));
        spectrum(i) = (shape == 0 || i == 0 || i + 1 == n) ? geometric
                    : (shape == 1) ? std::pow(kappa, rng.uniform(0.0, 1.0))
                                   : (rng.coin() ? 1.0 : kappa); // two clusters
    }
    matrix_t A(n, n);
    A.matrix()      = s * Q.matrix() * spectrum.vector().asDiagonal() * Q.matrix().transpose();
    A.matrix()      = 0.5 * (A.matrix() + A.matrix().transpose().eval());
    info.lambda_min = s;
    info.xstar      = vector_t(n);
    for (tensor_size_t i = 0; i < n; ++i)
    {
        info.xstar(i) = hard == 3 ? (rng.coin() ? -5.0 : 5.0) : rng.uniform(-5.0, 5.0); // 3: the boundary of the class
    }
    vector_t a(n);
    a.vector() = -A.matrix() * info.xstar.vector();
    return std::make_unique<quadratic_t>(std::move(A), std::move(a));
}

std::unique_ptr<maxlin_t> make_maxlin(Rng& rng, int64_t n)
{
    const auto m = rng.range(2, 3 * n + 2);
    matrix_t   A(m, n);
    vector_t   b(m);
    for (tensor_size_t i = 0; i < A.size(); ++i)
    {
        A(i) = rng.uniform(-2.0, 2.0);
    }
    for (tensor_size_t i = 0; i < m; ++i)
    {
        b(i) = rng.uniform(-3.0, 3.0);
    }
    return std::make_unique<maxlin_t>(std::move(A), std::move(b), rng.coin() ? 0.0 : rng.uniform(0.01, 1.0));
}

vector_t random_x0(Rng& rng, int64_t n, double radius)
{
    vector_t x0(n);
    for (tensor_size_t i = 0; i < n; ++i)
    {
        x0(i) = rng.uniform(-radius, radius);
    }
    return x0;
}

} // namespace vt
