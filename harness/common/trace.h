#pragma once
// ndjson trace writer shared by all conformance drivers: one JSON object per line, integers/booleans/strings and
// (nested) lists of integers only - the value universe TLC's ndJsonDeserialize handles exactly (32-bit integers!).
#include <cmath>
#include <cstdint>
#include <cstdio>
#include <cstdlib>
#include <exception>
#include <mutex>
#include <string>
#include <unistd.h>
#include <vector>

namespace vt
{
class J
{
public:
    J() = default;

    explicit J(const char* event) { s("e", event); }

    J& s(const char* k, const std::string& v)
    {
        key(k);
        m_s += '"';
        for (const char c : v)
        {
            if (c == '"' || c == '\\')
            {
                m_s += '\\';
                m_s += c;
            }
            else if (static_cast<unsigned char>(c) < 0x20)
            {
                m_s += ' ';
            }
            else
            {
                m_s += c;
            }
        }
        m_s += '"';
        return *this;
    }

    J& i(const char* k, const int64_t v)
    {
        key(k);
        check32(v);
        m_s += std::to_string(v);
        return *this;
    }

    J& b(const char* k, const bool v)
    {
        key(k);
        m_s += v ? "true" : "false";
        return *this;
    }

    template <class tvec>
    J& a(const char* k, const tvec& v)
    {
        key(k);
        arr(v);
        return *this;
    }

    template <class tvecvec>
    J& aa(const char* k, const tvecvec& vv)
    {
        key(k);
        m_s += '[';
        bool first = true;
        for (const auto& v : vv)
        {
            if (!first)
            {
                m_s += ',';
            }
            first = false;
            arr(v);
        }
        m_s += ']';
        return *this;
    }

    J& raw(const char* k, const std::string& json)
    {
        key(k);
        m_s += json;
        return *this;
    }

    std::string str() const { return "{" + m_s + "}"; }

private:
    static void check32(const int64_t v)
    {
        if (v > 2147483647LL || v < -2147483647LL)
        {
            std::fprintf(stderr, "vt::J: integer %lld does not fit TLC's 32-bit integers\n", static_cast<long long>(v));
            std::abort();
        }
    }

    void key(const char* k)
    {
        if (!m_s.empty())
        {
            m_s += ',';
        }
        m_s += '"';
        m_s += k;
        m_s += "\":";
    }

    template <class tvec>
    void arr(const tvec& v)
    {
        m_s += '[';
        bool first = true;
        for (const auto x : v)
        {
            if (!first)
            {
                m_s += ',';
            }
            first = false;
            check32(static_cast<int64_t>(x));
            m_s += std::to_string(static_cast<int64_t>(x));
        }
        m_s += ']';
    }

    std::string m_s;
};

// process-wide trace file; every line is flushed so that a crash leaves a valid prefix
class Trace
{
public:
    static Trace& get()
    {
        static Trace t;
        return t;
    }

    void open(const char* path)
    {
        m_f = std::fopen(path, "w");
        if (m_f == nullptr)
        {
            std::perror(path);
            std::exit(2);
        }
        std::set_terminate(
            []
            {
                Trace::get().line(J("Abort").s("why", "terminate").str());
                _exit(0);
            });
    }

    void line(const std::string& s)
    {
        const std::scoped_lock lock(m_mutex);
        if (m_f != nullptr)
        {
            std::fputs(s.c_str(), m_f);
            std::fputc('\n', m_f);
            std::fflush(m_f);
        }
    }

    void put(const J& j) { line(j.str()); }

private:
    std::FILE* m_f{nullptr};
    std::mutex m_mutex;
};

inline void put(const J& j)
{
    Trace::get().put(j);
}

// exact projection of a double onto the integer lattice with the given scale; refuses to round
inline bool to_lattice(const double x, const double scale, int64_t& out)
{
    const double y = x * scale;
    const double r = std::nearbyint(y);
    if (!std::isfinite(y) || std::fabs(y - r) > 1e-9 * std::max(1.0, std::fabs(y)) || std::fabs(r) > 2147483000.0)
    {
        return false;
    }
    out = static_cast<int64_t>(r);
    return true;
}

// splitmix64-based deterministic generator (independent from the library's RNG)
struct Rng
{
    uint64_t s;

    // the state is a hash of the seed: with s = seed * gamma + c the streams of consecutive seeds were shifted copies of each
    // other (the parallel driver processes of one check explored nearly the same cases)
    explicit Rng(uint64_t seed)
        : s(mix(seed * 0x9E3779B97F4A7C15ULL + 0x1234567ULL) ^ mix(~seed))
    {
    }

    static uint64_t mix(uint64_t z)
    {
        z = (z ^ (z >> 30U)) * 0xBF58476D1CE4E5B9ULL;
        z = (z ^ (z >> 27U)) * 0x94D049BB133111EBULL;
        return z ^ (z >> 31U);
    }

    uint64_t next()
    {
        uint64_t z = (s += 0x9E3779B97F4A7C15ULL);
        z          = (z ^ (z >> 30U)) * 0xBF58476D1CE4E5B9ULL;
        z          = (z ^ (z >> 27U)) * 0x94D049BB133111EBULL;
        return z ^ (z >> 31U);
    }

    // uniform integer in [lo, hi]
    int64_t range(int64_t lo, int64_t hi) { return lo + static_cast<int64_t>(next() % static_cast<uint64_t>(hi - lo + 1)); }

    bool coin(int num = 1, int den = 2) { return static_cast<int>(next() % static_cast<uint64_t>(den)) < num; }

    double uniform(double lo = 0.0, double hi = 1.0)
    {
        return lo + (hi - lo) * (static_cast<double>(next() >> 11U) / 9007199254740992.0);
    }

    template <class T>
    const T& pick(const std::vector<T>& v)
    {
        return v[static_cast<size_t>(next() % v.size())];
    }
};
} // namespace vt
