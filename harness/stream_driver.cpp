// C15 conformance driver: serialises tensors, parameters, features, configured and fitted objects, then reads back every
// strict prefix, the full stream and streams with one altered tensor payload byte through a tracing std::streambuf.
//   stream_driver <out.ndjson> <seed> <scale> [alterations per payload byte: 1 (sanitizer build) or 3]
#include <algorithm>
#include <array>
#include "problems.h"
#include <cstring>
#include <functional>
#include <nano/gboost/model.h>
#include <nano/linear.h>
#include <nano/loss.h>
#include <nano/lsearch0.h>
#include <nano/lsearchk.h>
#include <nano/solver.h>
#include <nano/splitter.h>
#include <nano/tensor/stream.h>
#include <nano/tuner.h>
#include <nano/wlearner.h>
#include <nano/wlearner/dtree.h>
#include <nano/version.h>
#include <nano/wlearner/single.h>
#include <nano/wlearner/table.h>
#include <sstream>

using namespace nano;

namespace
{
struct req_t
{
    int64_t pos, req, got;
};

// std::streambuf over the first `len` bytes of a buffer that records every request made to it
class tracebuf_t final : public std::streambuf
{
public:
    tracebuf_t(const std::string& bytes, size_t len)
        : m_data(bytes.data())
        , m_len(len)
    {
    }

    const std::vector<req_t>& log() const { return m_log; }

    int64_t pos() const { return static_cast<int64_t>(m_pos); }

protected:
    std::streamsize xsgetn(char* s, std::streamsize n) override
    {
        const auto got = std::min<std::streamsize>(n, static_cast<std::streamsize>(m_len - m_pos));
        if (got > 0)
        {
            std::memcpy(s, m_data + m_pos, static_cast<size_t>(got));
        }
        m_log.push_back({static_cast<int64_t>(m_pos), static_cast<int64_t>(n), static_cast<int64_t>(got)});
        m_pos += static_cast<size_t>(got);
        return got;
    }

    int_type underflow() override
    {
        return m_pos < m_len ? traits_type::to_int_type(m_data[m_pos]) : traits_type::eof();
    }

    int_type uflow() override
    {
        const auto ok = m_pos < m_len;
        m_log.push_back({static_cast<int64_t>(m_pos), 1, ok ? 1 : 0});
        return ok ? traits_type::to_int_type(m_data[m_pos++]) : traits_type::eof();
    }

private:
    const char*        m_data;
    size_t             m_len;
    size_t             m_pos{0};
    std::vector<req_t> m_log;
};

struct payload_t
{
    size_t begin, end, elem; // [begin, end) byte range of a tensor payload, size of one element
};

// the content hash of format version 0 as that format defines it (boost-style hash_combine over the elements' bits) - the driver's own
// implementation, so that a weakened library hash shows as an undetected alteration instead of being asked whether it "collides"
template <class tscalar>
uint64_t v0_hash(const tscalar* data, const int64_t count)
{
    uint64_t hash = 0;
    for (int64_t i = 0; i < count; ++i)
    {
        uint64_t bits = 0;
        if constexpr (std::is_floating_point_v<tscalar>)
        {
            std::memcpy(&bits, &data[i], sizeof(tscalar)); // 4 or 8 bytes (little endian: the low bytes)
        }
        else
        {
            bits = static_cast<uint64_t>(data[i]);
        }
        hash = hash ^ (bits + 0x9e3779b9 + (hash << 6) + (hash >> 2));
    }
    return hash;
}

struct blob_t
{
    std::string                              kind;
    std::string                              bytes;
    std::function<bool(std::istream&)>       reader;   // reads one object; returns "observationally identical to the original"
    std::vector<payload_t>                   payloads; // byte ranges of tensor payloads
    std::vector<std::pair<size_t, size_t>>   headers;  // [begin, end) byte ranges of tensor headers (without dimension fields' high bytes)
    std::vector<size_t>                      versions; // offsets of the (major, minor, patch) fields of configurable objects
    // version-0 tensor streams only: does the payload of the given (altered) stream have the stored hash (a collision of the old, weak hash)?
    std::function<bool(const std::string&)>  collides;
};

struct run_t
{
    int64_t            outcome{0}; // 0 ok, 1 failed stream state, 2 exception
    bool               same{false};
    int64_t            consumed{0};
    std::vector<req_t> log;
};

run_t read_back(const blob_t& blob, const std::string& bytes, size_t len)
{
    run_t        run;
    tracebuf_t   buf(bytes, len);
    std::istream stream(&buf);
    try
    {
        const auto same = blob.reader(stream);
        run.outcome     = stream ? 0 : 1;
        run.same        = same && static_cast<bool>(stream);
    }
    catch (const std::exception&)
    {
        run.outcome = 2;
    }
    run.consumed = buf.pos();
    run.log      = buf.log();
    return run;
}

template <class tscalar, size_t trank>
blob_t tensor_blob(vt::Rng& rng, int64_t maxdim, bool allow_zero, bool version0 = false)
{
    typename tensor_mem_t<tscalar, trank>::tdims dims;
    for (auto& d : dims)
    {
        d = rng.range(allow_zero && rng.coin(1, 6) ? 0 : 1, maxdim);
    }
    auto tensor = std::make_shared<tensor_mem_t<tscalar, trank>>(dims);
    for (tensor_size_t i = 0; i < tensor->size(); ++i)
    {
        (*tensor)(i) = static_cast<tscalar>(rng.range(-100, 100));
    }
    std::ostringstream os;
    ::nano::write(os, *tensor);
    blob_t blob;
    blob.kind   = "tensor<" + std::to_string(sizeof(tscalar)) + (std::is_floating_point_v<tscalar> ? "f" : (std::is_signed_v<tscalar> ? "i" : "u")) + "," + std::to_string(trank) + ">";
    blob.bytes  = os.str();
    // the destination: a fresh tensor, or a used one with the same number of elements in another shape, or of another size
    auto ddims = typename tensor_mem_t<tscalar, trank>::tdims{};
    ddims.fill(0);
    switch (rng.range(0, 3))
    {
    case 0:
        ddims = dims;
        std::reverse(ddims.begin(), ddims.end());
        break;
    case 1:
        ddims.fill(1);
        ddims[trank - 1] = std::max<tensor_size_t>(1, tensor->size()); // flat: same count
        break;
    case 2:
        ddims.fill(2);
        break;
    default: break;
    }
    blob.reader = [tensor, ddims](std::istream& stream)
    {
        tensor_mem_t<tscalar, trank> copy(ddims);
        ::nano::read(stream, copy);
        return static_cast<bool>(stream) && copy.dims() == tensor->dims() &&
               (tensor->size() == 0 || std::memcmp(copy.data(), tensor->data(), sizeof(tscalar) * static_cast<size_t>(tensor->size())) == 0);
    };
    const size_t header = 4 + 4 + 4 * trank + 4 + 8;
    blob.payloads.push_back({header, blob.bytes.size(), sizeof(tscalar)});
    blob.headers.emplace_back(0, header);
    if (version0)
    {
        // a stream of the previous format: version field 0, the content hashed with detail::hash (hand-built: the library writes version 1)
        const uint32_t zero = 0U;
        const uint64_t hash = v0_hash(tensor->data(), static_cast<int64_t>(tensor->size()));
        std::memcpy(blob.bytes.data(), &zero, sizeof(zero));
        std::memcpy(blob.bytes.data() + header - sizeof(hash), &hash, sizeof(hash));
        blob.kind     = "tensor-v0" + blob.kind.substr(6);
        blob.collides = [header, count = tensor->size()](const std::string& bytes)
        {
            std::vector<tscalar> content(static_cast<size_t>(count) + 1U);
            uint64_t             stored = 0U;
            std::memcpy(content.data(), bytes.data() + header, sizeof(tscalar) * static_cast<size_t>(count));
            std::memcpy(&stored, bytes.data() + header - sizeof(stored), sizeof(stored));
            return v0_hash(content.data(), static_cast<int64_t>(count)) == stored;
        };
    }
    return blob;
}

// version-0 tensor streams of one scalar type: small tensors of every rank (or of one rank)
template <class tscalar>
void tensor_blobs_v0(vt::Rng& rng, std::vector<blob_t>& blobs, int64_t reps, bool every_rank)
{
    for (int64_t i = 0; i < reps; ++i)
    {
        const auto rank = every_rank ? int64_t{0} : rng.range(1, 5);
        if (rank == 0 || rank == 1)
        {
            blobs.push_back(tensor_blob<tscalar, 1>(rng, 6, i % 4 == 3, true));
        }
        if (rank == 0 || rank == 2)
        {
            blobs.push_back(tensor_blob<tscalar, 2>(rng, 4, i % 4 == 3, true));
        }
        if (rank == 0 || rank == 3)
        {
            blobs.push_back(tensor_blob<tscalar, 3>(rng, 3, i % 4 == 3, true));
        }
        if (rank == 0 || rank == 4)
        {
            blobs.push_back(tensor_blob<tscalar, 4>(rng, 2, i % 4 == 3, true));
        }
        if (rank == 0 || rank == 5)
        {
            blobs.push_back(tensor_blob<tscalar, 5>(rng, 2, i % 4 == 3, true));
        }
    }
}

template <class tscalar>
void tensor_blobs(vt::Rng& rng, std::vector<blob_t>& blobs, int64_t per_rank)
{
    for (int64_t i = 0; i < per_rank; ++i)
    {
        blobs.push_back(tensor_blob<tscalar, 1>(rng, 6, true));
        blobs.push_back(tensor_blob<tscalar, 2>(rng, 6, true));
        blobs.push_back(tensor_blob<tscalar, 3>(rng, 6, true));
        blobs.push_back(tensor_blob<tscalar, 4>(rng, i % 2 == 1 ? 6 : 4, true));
        blobs.push_back(tensor_blob<tscalar, 5>(rng, i % 2 == 1 ? 6 : 3, true));
    }
}

// locate the serialised form of a member tensor inside a composite stream: its payload can then be altered
template <class ttensor>
void locate_payload(blob_t& blob, const ttensor& tensor)
{
    if (tensor.size() == 0)
    {
        return;
    }
    std::ostringstream os;
    ::nano::write(os, tensor);
    const auto   needle = os.str();
    const size_t header = 4 + 4 + 4 * ttensor::rank() + 4 + 8;
    for (size_t at = blob.bytes.find(needle); at != std::string::npos; at = blob.bytes.find(needle, at + 1))
    {
        if (std::none_of(blob.payloads.begin(), blob.payloads.end(), [&](const payload_t& p) { return p.begin == at + header; }))
        {
            blob.payloads.push_back({at + header, at + needle.size(), sizeof(*tensor.data())});
        }
    }
}

// the tensors of a (fitted) weak learner, wherever its serialised form is nested in the stream
void locate_wlearner_payloads(blob_t& blob, const wlearner_t& wlearner)
{
    if (const auto* single = dynamic_cast<const single_feature_wlearner_t*>(&wlearner); single != nullptr)
    {
        locate_payload(blob, single->tables());
    }
    if (const auto* table = dynamic_cast<const table_wlearner_t*>(&wlearner); table != nullptr)
    {
        locate_payload(blob, table->hashes());
        locate_payload(blob, table->hash2tables());
    }
    if (const auto* dtree = dynamic_cast<const dtree_wlearner_t*>(&wlearner); dtree != nullptr)
    {
        locate_payload(blob, dtree->tables());
        locate_payload(blob, dtree->features());
    }
}

// the version fields of the factory objects with the given type ids nested in the stream: <length, id, major, minor, patch>
void locate_versions(blob_t& blob, const strings_t& ids)
{
    for (const auto& id : ids)
    {
        std::ostringstream os;
        ::nano::write(os, id);
        ::nano::write(os, ::nano::major_version);
        ::nano::write(os, ::nano::minor_version);
        ::nano::write(os, ::nano::patch_version);
        const auto needle = os.str();
        for (size_t at = blob.bytes.find(needle); at != std::string::npos; at = blob.bytes.find(needle, at + 1))
        {
            const auto offset = at + 4U + id.size();
            if (std::find(blob.versions.begin(), blob.versions.end(), offset) == blob.versions.end())
            {
                blob.versions.push_back(offset);
            }
        }
    }
}

// the destination of a read is a fresh object or a used one: an object that was loaded before from `pre` (another serialized
// object of the same kind); what is read must replace it completely - also observed by writing the copy out again
template <class tobject>
void preload(tobject& object, const std::string& pre)
{
    if (!pre.empty())
    {
        std::istringstream is(pre);
        try
        {
            object.read(is);
        }
        catch (const std::exception&)
        {
            // (not the subject: the destination is then whatever the failed read left behind)
        }
    }
}

template <class tobject>
bool rewrites_as(const tobject& object, const std::string& bytes)
{
    std::ostringstream os;
    object.write(os);
    return os.str() == bytes;
}

blob_t parameter_blob(const parameter_t& param, const std::string& pre = std::string{})
{
    std::ostringstream os;
    param.write(os);
    blob_t blob;
    blob.kind   = pre.empty() ? "parameter" : "parameter-into-used";
    blob.bytes  = os.str();
    blob.reader = [param, pre, bytes = blob.bytes](std::istream& stream)
    {
        parameter_t copy;
        preload(copy, pre);
        copy.read(stream);
        return copy == param && copy.name() == param.name() && rewrites_as(copy, bytes);
    };
    return blob;
}

blob_t feature_blob(const feature_t& feature, const std::string& pre = std::string{})
{
    std::ostringstream os;
    feature.write(os);
    blob_t blob;
    blob.kind   = pre.empty() ? "feature" : "feature-into-used";
    blob.bytes  = os.str();
    blob.reader = [feature, pre, bytes = blob.bytes](std::istream& stream)
    {
        feature_t copy;
        preload(copy, pre);
        copy.read(stream);
        return copy == feature && copy.labels() == feature.labels() && copy.dims() == feature.dims() && rewrites_as(copy, bytes);
    };
    return blob;
}

// randomly re-configure an object inside its parameters' domains
void shake(configurable_t& object, vt::Rng& rng)
{
    for (const auto& param0 : object.parameters())
    {
        auto& param = object.parameter(param0.name());
        std::visit(overloaded{[&](const parameter_t::irange_t& r)
                              {
                                  const auto lo = r.m_min + (std::holds_alternative<LE_t>(r.m_mincomp) ? 0 : 1);
                                  const auto hi = r.m_max - (std::holds_alternative<LE_t>(r.m_maxcomp) ? 0 : 1);
                                  if (lo <= hi)
                                  {
                                      param = rng.range(lo, std::min<int64_t>(hi, lo + 1000));
                                  }
                              },
                              [&](const parameter_t::frange_t& r) { param = 0.5 * (r.m_value + (rng.coin() ? r.m_min : r.m_max)); },
                              [&](const parameter_t::enum_t& e) { param = e.m_domain[static_cast<size_t>(rng.range(0, static_cast<int64_t>(e.m_domain.size()) - 1))]; },
                              [&](const auto&) {}},
                   param0.storage());
    }
}

template <class tobject>
blob_t factory_blob(const std::string& kind, const std::unique_ptr<tobject>& object,
                    const std::function<bool(const tobject&)>& same_behaviour = [](const tobject&) { return true; })
{
    std::ostringstream os;
    ::nano::write(os, object);
    blob_t     blob;
    const auto id     = object->type_id();
    const auto params = object->parameters();
    blob.kind         = kind + ":" + id;
    blob.bytes        = os.str();
    blob.versions.push_back(4U + id.size()); // <length, id> then the configurable part: major, minor, patch, parameters
    blob.reader       = [id, params, same_behaviour](std::istream& stream)
    {
        std::unique_ptr<tobject> copy;
        ::nano::read(stream, copy);
        return static_cast<bool>(stream) && copy != nullptr && copy->type_id() == id && copy->parameters() == params && same_behaviour(*copy);
    };
    return blob;
}

bool same_bits(const tensor4d_t& a, const tensor4d_t& b)
{
    return a.dims() == b.dims() && (a.size() == 0 || std::memcmp(a.data(), b.data(), sizeof(scalar_t) * static_cast<size_t>(a.size())) == 0);
}

// the outcomes of reading altered streams: all of them must be failures; for version-0 tensor streams an altered content that
// collides under the old hash may be read (the documented weakness of that format): the driver says which ones collide
void put_alterations(const blob_t& blob, const std::string& what, const std::vector<int64_t>& outcomes, const std::vector<int64_t>& collides)
{
    if (outcomes.empty())
    {
        return;
    }
    if (blob.collides)
    {
        vt::put(vt::J("FlipsV0").s("kind", blob.kind).s("what", what).a("outcomes", outcomes).a("collides", collides));
    }
    else
    {
        vt::put(vt::J(what.c_str()).s("kind", blob.kind).a("outcomes", outcomes));
    }
}

void emit_runs(const blob_t& blob, bool bytelevel, int64_t alterations, vt::Rng& rng)
{
    const auto           full = blob.bytes.size();
    std::vector<int64_t> outcomes;
    bool                 same = false, consumed_all = false;
    for (size_t len = 0; len <= full; ++len)
    {
        const auto run = read_back(blob, blob.bytes, len);
        outcomes.push_back(run.outcome);
        if (len == full)
        {
            same         = run.same;
            consumed_all = run.consumed == static_cast<int64_t>(full);
        }
        if (bytelevel)
        {
            vt::put(vt::J("Obj").s("kind", blob.kind).i("full", static_cast<int64_t>(full)).i("len", static_cast<int64_t>(len)));
            for (const auto& r : run.log)
            {
                vt::put(vt::J("Rd").i("pos", r.pos).i("req", std::min<int64_t>(r.req, 2000000000)).i("got", r.got));
            }
            vt::put(vt::J("Out").i("outcome", run.outcome).i("consumed", run.consumed).b("same", run.same));
        }
    }
    vt::put(vt::J("Outcomes").s("kind", blob.kind).i("full", static_cast<int64_t>(full)).a("outcomes", outcomes).b("same", same).b("consumedAll", consumed_all));

    // single-byte alterations of the tensor payloads: one bit flipped, the next value, any other value
    std::vector<int64_t> flips, collides;
    for (const auto& payload : blob.payloads)
    {
        for (size_t at = payload.begin; at < payload.end; ++at)
        {
            for (int64_t alteration = 0; alteration < alterations; ++alteration)
            {
                auto       bytes = blob.bytes;
                const auto byte  = static_cast<unsigned char>(bytes[at]);
                const auto other = alteration == 0 ? static_cast<unsigned char>(byte ^ (1U << (at % 8U))) :
                                   alteration == 1 ? static_cast<unsigned char>(byte + 1U) :
                                                     static_cast<unsigned char>(byte ^ static_cast<unsigned char>(rng.range(1, 255)));
                bytes[at]        = static_cast<char>(other);
                flips.push_back(read_back(blob, bytes, full).outcome);
                collides.push_back(blob.collides && blob.collides(bytes) ? 1 : 0);
            }
        }
    }
    put_alterations(blob, "Flips", flips, collides);
    // two elements of a payload exchanged (a checksum that ignores the order of the elements would not notice)
    std::vector<int64_t> swaps, swap_collides;
    for (const auto& payload : blob.payloads)
    {
        const auto count = (payload.end - payload.begin) / payload.elem;
        if (count < 2U)
        {
            continue;
        }
        std::vector<std::pair<size_t, size_t>> pairs;
        if (alterations > 1)
        {
            for (size_t i = 0; i + 1U < count; ++i)
            {
                pairs.emplace_back(i, i + 1U);
                pairs.emplace_back(i, static_cast<size_t>(rng.range(0, static_cast<int64_t>(count) - 1)));
            }
        }
        else
        {
            for (int k = 0; k < 3; ++k)
            {
                pairs.emplace_back(static_cast<size_t>(rng.range(0, static_cast<int64_t>(count) - 1)), static_cast<size_t>(rng.range(0, static_cast<int64_t>(count) - 1)));
            }
        }
        for (const auto& [i, j] : pairs)
        {
            auto  bytes = blob.bytes;
            auto* pi    = bytes.data() + payload.begin + i * payload.elem;
            auto* pj    = bytes.data() + payload.begin + j * payload.elem;
            if (i == j || std::memcmp(pi, pj, payload.elem) == 0)
            {
                continue; // equal elements: the same stream
            }
            std::swap_ranges(pi, pi + payload.elem, pj);
            swaps.push_back(read_back(blob, bytes, full).outcome);
            swap_collides.push_back(blob.collides && blob.collides(bytes) ? 1 : 0);
        }
    }
    put_alterations(blob, "Swaps", swaps, swap_collides);
    // the version fields of configurable objects altered to a newer version: the object cannot be read
    std::vector<int64_t> newer;
    std::vector<int64_t> newer_same;
    for (const auto offset : blob.versions)
    {
        int32_t version[3] = {0, 0, 0};
        std::memcpy(version, blob.bytes.data() + offset, sizeof(version));
        for (int k = 0; k < 4; ++k)
        {
            auto altered = std::array<int32_t, 3>{version[0], version[1], version[2]};
            if (k < 3)
            {
                altered[static_cast<size_t>(k)] += static_cast<int32_t>(k == 2 ? rng.range(1, 3) : 1);
            }
            else
            {
                altered[0] = 0x7F000000;
            }
            auto bytes = blob.bytes;
            std::memcpy(bytes.data() + offset, altered.data(), sizeof(version));
            const auto run = read_back(blob, bytes, full);
            newer.push_back(run.outcome);
            newer_same.push_back(run.same ? 1 : 0);
        }
    }
    if (!newer.empty())
    {
        vt::put(vt::J("VersionFlips").s("kind", blob.kind).a("outcomes", newer).a("same", newer_same));
    }
    // low-bit alterations of tensor headers: detection is not promised, only survival
    int64_t nheader = 0;
    for (const auto& [begin, end] : blob.headers)
    {
        for (size_t at = begin; at < end; ++at)
        {
            auto bytes = blob.bytes;
            bytes[at]  = static_cast<char>(bytes[at] ^ static_cast<char>(1U << (at % 3U)));
            (void)read_back(blob, bytes, full);
            ++nheader;
        }
    }
    if (nheader > 0)
    {
        vt::put(vt::J("HeaderFlips").s("kind", blob.kind).i("n", nheader).b("survived", true));
    }
}
// a small regression problem with several outputs (a structured target)
vt::problem_t make_multi_problem(vt::Rng& rng)
{
    const auto n = rng.range(20, 50), outputs = rng.range(2, 3);
    auto       x1 = vt::make_scalar_column("x1", feature_type::float64, n);
    auto       x2 = vt::make_scalar_column("x2", feature_type::float32, n);
    auto       c1 = vt::make_sclass_column("c1", 3, n);
    auto       m1 = vt::make_mclass_column("m1", 2, n);
    auto       y  = vt::make_struct_column("y", feature_type::float64, make_dims(outputs, 1, 1), n);
    for (int64_t s = 0; s < n; ++s)
    {
        const auto u = static_cast<size_t>(s);
        x1.flat[u]   = static_cast<double>(rng.range(-8, 8)) / 4.0;
        x2.flat[u]   = static_cast<double>(rng.range(-5, 5));
        c1.flat[u]   = static_cast<double>(rng.range(0, 2));
        m1.flat[2 * u] = rng.coin() ? 1.0 : 0.0;
        m1.flat[2 * u + 1] = rng.coin() ? 1.0 : 0.0;
        x2.missing[u] = static_cast<char>(rng.coin(1, 8));
        c1.missing[u] = static_cast<char>(rng.coin(1, 10));
        m1.missing[u] = static_cast<char>(rng.coin(1, 10));
        for (int64_t k = 0; k < outputs; ++k)
        {
            y.flat[static_cast<size_t>(s * outputs + k)] = (1.0 + static_cast<double>(k)) * x1.at(s) - 0.5 * static_cast<double>(k) * x2.at(s) + (k == 1 ? 1.5 : -0.5) * c1.at(s) +
                                                           2.0 * m1.at(s, k % 2) + rng.uniform(-0.3, 0.3);
        }
    }
    vt::problem_t p;
    p.source = std::make_unique<vt::table_datasource_t>(n, std::vector<vt::column_t>{x1, x2, c1, m1, y}, 4U);
    p.source->load();
    p.dataset = std::make_unique<dataset_t>(*p.source, static_cast<size_t>(rng.range(1, 4)));
    p.dataset->add<sclass_identity_generator_t>();
    p.dataset->add<mclass_identity_generator_t>();
    p.dataset->add<scalar_identity_generator_t>();
    p.dataset->add<struct_identity_generator_t>();
    return p;
}
} // namespace

int main(int argc, char* argv[])
{
    if (argc < 4)
    {
        std::fprintf(stderr, "usage: stream_driver <out.ndjson> <seed> <scale>\n");
        return 2;
    }
    vt::Trace::get().open(argv[1]);
    vt::Rng    rng(static_cast<uint64_t>(std::atoll(argv[2])));
    const auto scale = std::atoll(argv[3]);
    // the number of alterations per payload byte: the small corpus read back under the sanitizers gets one (every failed read is slow there)
    const auto alterations = argc > 4 ? std::atoll(argv[4]) : int64_t{3};
    const auto sanitized   = alterations < 2;

    std::vector<blob_t> blobs;
    tensor_blobs<int8_t>(rng, blobs, scale);
    tensor_blobs<int16_t>(rng, blobs, scale);
    tensor_blobs<int32_t>(rng, blobs, scale);
    tensor_blobs<int64_t>(rng, blobs, scale);
    tensor_blobs<uint8_t>(rng, blobs, scale);
    tensor_blobs<uint16_t>(rng, blobs, scale);
    tensor_blobs<uint32_t>(rng, blobs, scale);
    tensor_blobs<uint64_t>(rng, blobs, scale);
    tensor_blobs<float>(rng, blobs, scale);
    tensor_blobs<double>(rng, blobs, scale);
    const auto ntensors = blobs.size();
    // tensor streams of the previous format (version 0), still read
    {
        const auto reps = sanitized ? int64_t{1} : std::max<int64_t>(1, scale / 3);
        tensor_blobs_v0<int8_t>(rng, blobs, reps, !sanitized);
        tensor_blobs_v0<int16_t>(rng, blobs, reps, !sanitized);
        tensor_blobs_v0<int32_t>(rng, blobs, reps, !sanitized);
        tensor_blobs_v0<int64_t>(rng, blobs, reps, !sanitized);
        tensor_blobs_v0<uint8_t>(rng, blobs, reps, !sanitized);
        tensor_blobs_v0<uint16_t>(rng, blobs, reps, !sanitized);
        tensor_blobs_v0<uint32_t>(rng, blobs, reps, !sanitized);
        tensor_blobs_v0<uint64_t>(rng, blobs, reps, !sanitized);
        tensor_blobs_v0<float>(rng, blobs, reps, !sanitized);
        tensor_blobs_v0<double>(rng, blobs, reps, !sanitized);
    }
    const auto nsmall0 = blobs.size();

    // parameters of every kind
    blobs.push_back(parameter_blob(parameter_t::make_integer("int", 0, LE, 7, LT, 100)));
    blobs.push_back(parameter_blob(parameter_t::make_scalar("real", -1.5, LT, 0.25, LE, 3.0)));
    blobs.push_back(parameter_blob(parameter_t::make_integer_pair("ipair", 0, LE, 3, LT, 9, LE, 10)));
    blobs.push_back(parameter_blob(parameter_t::make_scalar_pair("rpair", 0.0, LT, 1e-4, LT, 0.9, LT, 1.0)));
    blobs.push_back(parameter_blob(parameter_t::make_enum("enum", feature_type::sclass)));
    blobs.push_back(parameter_blob(parameter_t::make_string("string", "some text value")));
    // ... values at the edges of their representation: 64-bit integers no double holds, the extreme doubles, a string with embedded NUL / quotes
    blobs.push_back(parameter_blob(parameter_t::make_integer("wide", -(int64_t{1} << 62U), LE, (int64_t{1} << 53U) + 1, LE, int64_t{1} << 62U)));
    blobs.push_back(parameter_blob(parameter_t::make_integer_pair("widepair", -(int64_t{1} << 62U), LE, -((int64_t{1} << 53U) + 1), LT, (int64_t{1} << 53U) + 3, LE,
                                                                  int64_t{1} << 62U)));
    blobs.push_back(parameter_blob(parameter_t::make_scalar("tiny", -1e308, LE, 4.9406564584124654e-324, LE, 1e308)));
    blobs.push_back(parameter_blob(parameter_t::make_scalar_pair("edges", -1.7976931348623157e308, LE, -2.2250738585072014e-308, LT, 2.2250738585072014e-308, LE,
                                                                 1.7976931348623157e308)));
    blobs.push_back(parameter_blob(parameter_t::make_string("odd", std::string("a\0b\n\"c\\", 7))));
    // features
    blobs.push_back(feature_blob(feature_t{"scalar"}.scalar(feature_type::float64)));
    blobs.push_back(feature_blob(feature_t{"struct"}.scalar(feature_type::int16, make_dims(3, 2, 2))));
    blobs.push_back(feature_blob(feature_t{"sclass"}.sclass(strings_t{"a", "bb", "ccc"})));
    blobs.push_back(feature_blob(feature_t{"mclass"}.mclass(strings_t{"x", "y", "z", "t"})));
    // ... read into used destinations (a feature / parameter of another kind loaded before)
    {
        const auto f0 = blobs[blobs.size() - 4].bytes, f2 = blobs[blobs.size() - 2].bytes, f3 = blobs[blobs.size() - 1].bytes;
        const auto p0 = parameter_blob(parameter_t::make_string("string", "some text value")).bytes;
        const auto p1 = parameter_blob(parameter_t::make_enum("enum", feature_type::sclass)).bytes;
        blobs.push_back(feature_blob(feature_t{"scalar"}.scalar(feature_type::float64), f2));
        blobs.push_back(feature_blob(feature_t{"struct"}.scalar(feature_type::int16, make_dims(3, 2, 2)), f3));
        blobs.push_back(feature_blob(feature_t{"sclass"}.sclass(strings_t{"a", "bb"}), f3));
        blobs.push_back(feature_blob(feature_t{"mclass"}.mclass(strings_t{"x", "y", "z", "t"}), f0));
        blobs.push_back(parameter_blob(parameter_t::make_integer("int", 0, LE, 7, LE, 10), p1));
        blobs.push_back(parameter_blob(parameter_t::make_scalar_pair("rpair", 0.0, LT, 1e-4, LT, 0.9, LT, 1.0), p0));
        blobs.push_back(parameter_blob(parameter_t::make_enum("enum", feature_type::sclass), p0));
        blobs.push_back(parameter_blob(parameter_t::make_string("string", ""), p1));
        // the parameter that was never initialised (no kind, no value, no domain): fresh and over a used destination
        blobs.push_back(parameter_blob(parameter_t{}));
        blobs.push_back(parameter_blob(parameter_t{}, p0));
        blobs.push_back(parameter_blob(parameter_t{}, parameter_blob(parameter_t::make_integer("int", 0, LE, 7, LE, 10)).bytes));
    }
    const auto nsmall = blobs.size();

    // configured objects
    // (every registered id in the larger corpora, a fixed selection in the small one used under ASan)
    std::vector<std::string> solver_ids{"lbfgs", "cgd-pr", "osga", "rqb", "ellipsoid", "gs", "augmented-lagrangian"};
    if (scale >= 3)
    {
        for (const auto& id : solver_t::all().ids())
        {
            if (std::find(solver_ids.begin(), solver_ids.end(), id) == solver_ids.end() && rng.coin(1, 2))
            {
                solver_ids.push_back(id);
            }
        }
    }
    for (const auto& id : solver_ids)
    {
        if (auto object = solver_t::all().get(id); object != nullptr)
        {
            shake(*object, rng);
            blobs.push_back(factory_blob<solver_t>("solver", object));
        }
    }
    for (const auto& id : loss_t::all().ids())
    {
        if (scale >= 3 || rng.coin(1, 3))
        {
            auto object = loss_t::all().get(id);
            shake(*object, rng);
            blobs.push_back(factory_blob<loss_t>("loss", object));
        }
    }
    for (const auto& id : splitter_t::all().ids())
    {
        auto object = splitter_t::all().get(id);
        shake(*object, rng);
        blobs.push_back(factory_blob<splitter_t>("splitter", object));
    }
    for (const auto& id : tuner_t::all().ids())
    {
        auto object = tuner_t::all().get(id);
        shake(*object, rng);
        blobs.push_back(factory_blob<tuner_t>("tuner", object));
    }
    for (const auto& id : lsearchk_t::all().ids())
    {
        auto object = lsearchk_t::all().get(id);
        shake(*object, rng);
        blobs.push_back(factory_blob<lsearchk_t>("lsearchk", object));
    }

    // fitted weak learners, linear and gradient-boosting models
    std::string other_gboost, other_linear;
    try
    {
        // a model fitted on a problem with other inputs (purely categorical ones: labels, no scalar columns), to be overwritten
        const auto         n  = int64_t{24};
        auto               c1 = vt::make_sclass_column("k1", 3, n), c2 = vt::make_sclass_column("k2", 2, n);
        auto               y  = vt::make_scalar_column("y", feature_type::float64, n);
        for (int64_t u = 0; u < n; ++u)
        {
            c1.flat[static_cast<size_t>(u)] = static_cast<double>(rng.range(0, 2));
            c2.flat[static_cast<size_t>(u)] = static_cast<double>(rng.range(0, 1));
            y.flat[static_cast<size_t>(u)]  = c1.at(u) - 2.0 * c2.at(u) + rng.uniform(-0.1, 0.1);
        }
        vt::table_datasource_t source(n, std::vector<vt::column_t>{c1, c2, y}, 2U);
        source.load();
        dataset_t dataset(source, 1U);
        dataset.add<sclass_identity_generator_t>();
        const auto loss = loss_t::all().get("mse");
        auto       lin  = linear_t::all().get("ordinary");
        lin->fit(dataset, arange(0, n), *loss);
        std::ostringstream los;
        lin->write(los);
        other_linear = los.str();
        gboost_model_t gb;
        gb.parameter("gboost::max_rounds") = 10;
        rwlearners_t prototypes;
        prototypes.emplace_back(wlearner_t::all().get("dense-table"));
        gb.prototypes(prototypes);
        gb.fit(dataset, arange(0, n), *loss);
        std::ostringstream gos;
        gb.write(gos);
        other_gboost = gos.str();
    }
    catch (const std::exception& e)
    {
        std::fprintf(stderr, "pre-fit failed: %s\n", e.what());
        throw;
    }
    // unfitted weak learners and linear models (nothing but their parameters to read back)
    for (const auto& id : wlearner_t::all().ids())
    {
        auto wlearner = wlearner_t::all().get(id);
        shake(*wlearner, rng);
        std::ostringstream os;
        wlearner->write(os);
        blobs.push_back(factory_blob<wlearner_t>("wlearner-unfitted", wlearner, [bytes = os.str()](const wlearner_t& copy) { return rewrites_as(copy, bytes); }));
    }
    for (const auto& id : linear_t::all().ids())
    {
        auto model = std::shared_ptr<linear_t>(linear_t::all().get(id));
        shake(*model, rng);
        std::ostringstream os;
        model->write(os);
        blob_t blob;
        blob.kind   = "linear-unfitted:" + id;
        blob.bytes  = os.str();
        blob.versions.push_back(0U);
        blob.reader = [id, model, bytes = blob.bytes, pre = rng.coin() ? std::string{} : other_linear](std::istream& stream)
        {
            auto copy = linear_t::all().get(id);
            preload(*copy, pre);
            copy->read(stream);
            return copy->parameters() == model->parameters() && copy->weights().size() == 0 && copy->bias().size() == 0 && rewrites_as(*copy, bytes);
        };
        blobs.push_back(blob);
    }

    // problems: regression with one output (all blobs), then classification or regression with several outputs
    const auto fitted_blobs = [&](const std::shared_ptr<vt::problem_t>& problem, const std::string& loss_id, const std::string& tag, const bool reduced)
    {
        const auto dataset = std::shared_ptr<const dataset_t>(problem, problem->dataset.get());
        const auto samples = arange(0, dataset->samples());
        tensor4d_t gradients(cat_dims(samples.size(), dataset->target_dims()));
        for (tensor_size_t i = 0; i < gradients.size(); ++i)
        {
            gradients(i) = static_cast<scalar_t>(rng.range(-8, 8)) / 4.0;
        }
        for (const auto& id : wlearner_t::all().ids())
        {
            if (reduced)
            {
                break;
            }
            auto wlearner = wlearner_t::all().get(id);
            if (id == "dtree")
            {
                wlearner->parameter("wlearner::dtree::max_depth") = 2;
            }
            const auto score = wlearner->fit(*dataset, samples, gradients);
            if (!std::isfinite(score) || score == wlearner_t::no_fit_score())
            {
                continue;
            }
            const auto expected = std::make_shared<tensor4d_t>(wlearner->predict(*dataset, samples));
            auto       blob     = factory_blob<wlearner_t>("wlearner" + tag, wlearner,
                                                 [dataset, samples, expected](const wlearner_t& copy)
                                                 { return same_bits(copy.predict(*dataset, samples), *expected); });
            locate_wlearner_payloads(blob, *wlearner);
            blobs.push_back(blob);
        }
        const auto loss = std::shared_ptr<loss_t>(loss_t::all().get(loss_id));
        {
            auto model = std::make_shared<gboost_model_t>();
            model->parameter("gboost::max_rounds") = reduced ? 10 : 12;
            model->parameter("gboost::patience")   = 3;
            rwlearners_t prototypes;
            prototypes.emplace_back(wlearner_t::all().get("affine"));
            prototypes.emplace_back(wlearner_t::all().get("dense-table"));
            prototypes.emplace_back(wlearner_t::all().get("stump"));
            // ... and the other weak learners: decision trees, hinges and the tables over subsets of the labels
            prototypes.emplace_back(wlearner_t::all().get("dtree"));
            prototypes.back()->parameter("wlearner::dtree::max_depth") = 2;
            prototypes.emplace_back(wlearner_t::all().get("hinge"));
            prototypes.emplace_back(wlearner_t::all().get("kbest-table"));
            prototypes.emplace_back(wlearner_t::all().get("ksplit-table"));
            prototypes.emplace_back(wlearner_t::all().get("dstep-table"));
            model->prototypes(prototypes);
            model->fit(*dataset, samples, *loss);
            std::ostringstream os;
            model->write(os);
            const auto expected = std::make_shared<tensor4d_t>(model->predict(*dataset, samples));
            blob_t     blob;
            blob.kind   = "gboost" + tag;
            blob.bytes  = os.str();
            blob.reader = [model, dataset, samples, expected, bytes = blob.bytes](std::istream& stream)
            {
                gboost_model_t copy;
                copy.read(stream);
                return copy.parameters() == model->parameters() && copy.wlearners().size() == model->wlearners().size() &&
                       same_bits(copy.predict(*dataset, samples), *expected) && rewrites_as(copy, bytes);
            };
            locate_payload(blob, model->bias());
            // the tensors and the version fields of the weak learners nested in the model
            for (const auto& wlearner : model->wlearners())
            {
                locate_wlearner_payloads(blob, *wlearner);
            }
            blob.versions.push_back(0U);
            locate_versions(blob, wlearner_t::all().ids());
            blobs.push_back(blob);
            if (reduced)
            {
                return;
            }

            // into used destinations: the fitted model read over a model without weak learners / prototypes and the other way round,
            // and over a model fitted on another problem
            gboost_model_t     empty;
            std::ostringstream eos;
            empty.write(eos);
            const auto ebytes = eos.str();
            auto       used   = blob;
            used.kind         = "gboost-into-used" + tag;
            used.reader       = [model, dataset, samples, expected, bytes = blob.bytes, pre = rng.coin() ? ebytes : other_gboost](std::istream& stream)
            {
                gboost_model_t copy;
                preload(copy, pre);
                copy.read(stream);
                return copy.parameters() == model->parameters() && copy.wlearners().size() == model->wlearners().size() &&
                       same_bits(copy.predict(*dataset, samples), *expected) && rewrites_as(copy, bytes);
            };
            blobs.push_back(used);
            blob_t unfitted;
            unfitted.kind   = "gboost-into-used" + tag;
            unfitted.bytes  = ebytes;
            unfitted.reader = [ebytes, pre = blob.bytes](std::istream& stream)
            {
                gboost_model_t copy;
                preload(copy, pre);
                copy.read(stream);
                return copy.wlearners().empty() && copy.parameters() == gboost_model_t{}.parameters() && rewrites_as(copy, ebytes);
            };
            blobs.push_back(unfitted);
            other_gboost = blob.bytes;
        }
        for (const auto& id : linear_t::all().ids())
        {
            auto model = std::shared_ptr<linear_t>(linear_t::all().get(id));
            model->fit(*dataset, samples, *loss);
            std::ostringstream os;
            model->write(os);
            const auto expected = std::make_shared<tensor4d_t>(model->predict(*dataset, samples));
            blob_t     blob;
            blob.kind   = "linear" + tag + ":" + id;
            blob.bytes  = os.str();
            blob.reader = [id, model, dataset, samples, expected, bytes = blob.bytes](std::istream& stream)
            {
                auto copy = linear_t::all().get(id);
                copy->read(stream);
                return copy->parameters() == model->parameters() && same_bits(copy->predict(*dataset, samples), *expected) && rewrites_as(*copy, bytes);
            };
            locate_payload(blob, model->weights());
            locate_payload(blob, model->bias());
            blob.versions.push_back(0U);
            blobs.push_back(blob);
            if (!other_linear.empty())
            {
                // into a used destination: a model of the same kind fitted on another problem (other inputs, other labels)
                auto used   = blob;
                used.kind   = "linear-into-used" + tag + ":" + id;
                used.reader = [id, model, dataset, samples, expected, bytes = blob.bytes, pre = other_linear](std::istream& stream)
                {
                    auto copy = linear_t::all().get(id);
                    preload(*copy, pre);
                    copy->read(stream);
                    return copy->parameters() == model->parameters() && same_bits(copy->predict(*dataset, samples), *expected) && rewrites_as(*copy, bytes);
                };
                blobs.push_back(used);
            }
            other_linear = blob.bytes;
        }
    };
    for (int64_t rep = 0; rep < std::max<int64_t>(1, scale / 2); ++rep)
    {
        fitted_blobs(std::make_shared<vt::problem_t>(vt::make_problem(rng, false, true)), "mse", "", false);
        // classification (two classes) or regression with several outputs
        if ((rep + static_cast<int64_t>(rng.coin())) % 2 == 0)
        {
            auto problem = std::make_shared<vt::problem_t>(vt::make_problem(rng, true, true));
            for (int trial = 0; trial < 50 && !problem->classification; ++trial)
            {
                problem = std::make_shared<vt::problem_t>(vt::make_problem(rng, true, true));
            }
            fitted_blobs(problem, problem->classification ? "s-classnll" : "mse", problem->classification ? "-classes" : "", sanitized);
        }
        else
        {
            fitted_blobs(std::make_shared<vt::problem_t>(make_multi_problem(rng)), rng.coin() ? "mse" : "mae", "-outputs", sanitized);
        }
    }

    for (size_t i = 0; i < blobs.size(); ++i)
    {
        // byte-level request traces for a sample of the tensors and all parameters/features
        const auto bytelevel = (i < ntensors && i % 7 == 0 && blobs[i].bytes.size() <= 200) || (i >= nsmall0 && i < nsmall) ||
                               (i >= ntensors && i < nsmall0 && i % 5 == 0);
        emit_runs(blobs[i], bytelevel, alterations, rng);
    }
    vt::put(vt::J("Outcomes").s("kind", "end-marker").i("full", 0).a("outcomes", std::vector<int64_t>{0}).b("same", true).b("consumedAll", true));
    return 0;
}
