// C04 conformance driver for the primal-dual interior-point LP/QP solver.
//   program_driver <out.ndjson> <seed> <small-cases> <kkt-cases> <pair-cases>
#include "trace.h"
#include <functional>
#include <nano/program/solver.h>

using namespace nano;

namespace
{
const char* status_name(solver_status s)
{
    switch (s)
    {
    case solver_status::converged: return "converged";
    case solver_status::max_iters: return "max_iters";
    case solver_status::failed: return "failed";
    case solver_status::unfeasible: return "unfeasible";
    case solver_status::unbounded: return "unbounded";
    default: return "other";
    }
}

vector_t rvec(vt::Rng& rng, int64_t n, double lo, double hi)
{
    vector_t v(n);
    for (tensor_size_t i = 0; i < n; ++i)
    {
        v(i) = rng.uniform(lo, hi);
    }
    return v;
}

matrix_t rmat(vt::Rng& rng, int64_t r, int64_t c, double lo, double hi)
{
    matrix_t m(r, c);
    for (tensor_size_t i = 0; i < m.size(); ++i)
    {
        m(i) = rng.uniform(lo, hi);
    }
    return m;
}

// exact rational optimum of min c.x s.t. G x <= h (n <= 3) by vertex enumeration in __int128 (the driver's own oracle for the
// tight tolerance; TLC decides the same question independently)
struct frac_t
{
    __int128 num{0}, den{1};
    bool     feasible{false};
};

__int128 det(const std::vector<std::vector<__int128>>& M)
{
    const auto n = M.size();
    if (n == 1)
    {
        return M[0][0];
    }
    if (n == 2)
    {
        return M[0][0] * M[1][1] - M[0][1] * M[1][0];
    }
    return M[0][0] * (M[1][1] * M[2][2] - M[1][2] * M[2][1]) - M[0][1] * (M[1][0] * M[2][2] - M[1][2] * M[2][0]) +
           M[0][2] * (M[1][0] * M[2][1] - M[1][1] * M[2][0]);
}

frac_t exact_lp(const std::vector<int64_t>& c, const std::vector<std::vector<int64_t>>& G, const std::vector<int64_t>& h)
{
    const auto n = c.size();
    const auto m = G.size();
    frac_t     best;
    std::vector<size_t> idx(n);
    const std::function<void(size_t, size_t)> rec = [&](size_t k, size_t start)
    {
        if (k == n)
        {
            std::vector<std::vector<__int128>> M(n, std::vector<__int128>(n));
            for (size_t i = 0; i < n; ++i)
            {
                for (size_t j = 0; j < n; ++j)
                {
                    M[i][j] = G[idx[i]][j];
                }
            }
            auto d = det(M);
            if (d == 0)
            {
                return;
            }
            std::vector<__int128> num(n);
            for (size_t j = 0; j < n; ++j)
            {
                auto Mj = M;
                for (size_t i = 0; i < n; ++i)
                {
                    Mj[i][j] = h[idx[i]];
                }
                num[j] = det(Mj);
            }
            if (d < 0)
            {
                d = -d;
                for (auto& v : num)
                {
                    v = -v;
                }
            }
            for (size_t i = 0; i < m; ++i)
            {
                __int128 lhs = 0;
                for (size_t j = 0; j < n; ++j)
                {
                    lhs += static_cast<__int128>(G[i][j]) * num[j];
                }
                if (lhs > static_cast<__int128>(h[i]) * d)
                {
                    return;
                }
            }
            __int128 obj = 0;
            for (size_t j = 0; j < n; ++j)
            {
                obj += static_cast<__int128>(c[j]) * num[j];
            }
            if (!best.feasible || obj * best.den < best.num * d)
            {
                best.num      = obj;
                best.den      = d;
                best.feasible = true;
            }
            return;
        }
        for (size_t i = start; i < m; ++i)
        {
            idx[k] = i;
            rec(k + 1, i + 1);
        }
    };
    rec(0, 0);
    return best;
}

struct clauses_t
{
    bool eqOK{true}, ineqOK{true}, objOK{true}, gapOK{true};
};

// the property's clauses on the program as the caller stated it
clauses_t check(const matrix_t& Q, const vector_t& c, const matrix_t& A, const vector_t& b, const matrix_t& G, const vector_t& h,
                const program::solver_state_t& state, const vector_t& xstar, double fstar)
{
    clauses_t  out;
    const auto& x = state.m_x;
    if (A.rows() > 0)
    {
        const vector_t r = A.matrix() * x.vector() - b.vector();
        out.eqOK         = r.lpNorm<Eigen::Infinity>() <= 1e-6 * (1.0 + b.lpNorm<Eigen::Infinity>());
    }
    if (G.rows() > 0)
    {
        const vector_t r = G.matrix() * x.vector() - h.vector();
        out.ineqOK       = r.max() <= 1e-6 * (1.0 + h.lpNorm<Eigen::Infinity>());
    }
    const vector_t Qx  = Q.matrix() * x.vector();
    const auto     fx  = 0.5 * x.dot(Qx) + c.dot(x);
    const auto     mag = 0.5 * std::fabs(x.dot(Qx)) + (c.array() * x.array()).abs().sum() + 1.0;
    out.objOK          = std::fabs(state.m_fx - fx) <= 1e-6 * mag;
    const auto M       = std::max({1e-3, Q.lpNorm<2>(), c.lpNorm<2>()});
    const auto bound   = 1e-8 * M * (1.0 + (x - xstar).lpNorm<2>() + state.m_u.lpNorm<1>() + state.m_v.lpNorm<1>());
    out.gapOK          = std::fabs(fx - fstar) <= bound;
    return out;
}

void small_case(vt::Rng& rng, int64_t icase)
{
    const auto n = rng.range(1, 3);
    const auto m = rng.range(0, 6 - std::min<int64_t>(2 * n, 6) + 2);
    std::vector<int64_t>              c;
    std::vector<std::vector<int64_t>> G;
    std::vector<int64_t>              h;
    for (int64_t j = 0; j < n; ++j)
    {
        c.push_back(rng.range(-3, 3));
    }
    // box -B <= x_j <= B
    const auto B = rng.range(1, 4);
    for (int64_t j = 0; j < n; ++j)
    {
        std::vector<int64_t> up(static_cast<size_t>(n), 0), lo(static_cast<size_t>(n), 0);
        up[static_cast<size_t>(j)] = 1;
        lo[static_cast<size_t>(j)] = -1;
        G.push_back(up);
        h.push_back(B);
        G.push_back(lo);
        h.push_back(B);
    }
    for (int64_t i = 0; i < m; ++i)
    {
        std::vector<int64_t> row;
        for (int64_t j = 0; j < n; ++j)
        {
            row.push_back(rng.range(-3, 3));
        }
        G.push_back(row);
        h.push_back(rng.range(-6, 5));
    }
    const auto rows = static_cast<tensor_size_t>(G.size());
    matrix_t   Gm(rows, n);
    vector_t   hv(rows), cv(n);
    for (tensor_size_t i = 0; i < rows; ++i)
    {
        hv(i) = static_cast<double>(h[static_cast<size_t>(i)]);
        for (tensor_size_t j = 0; j < n; ++j)
        {
            Gm(i, j) = static_cast<double>(G[static_cast<size_t>(i)][static_cast<size_t>(j)]);
        }
    }
    for (tensor_size_t j = 0; j < n; ++j)
    {
        cv(j) = static_cast<double>(c[static_cast<size_t>(j)]);
    }
    const auto program = program::make_linear(cv, program::make_inequality(Gm, hv));
    const auto solver  = program::solver_t{};
    const auto state   = solver.solve(program, make_null_logger());
    const auto exact   = exact_lp(c, G, h);
    bool       feasOK = true, objOK = true, gapOK = true;
    if (state.m_status == solver_status::converged && exact.feasible)
    {
        const auto fstar = static_cast<double>(static_cast<long double>(exact.num) / static_cast<long double>(exact.den));
        const auto cl    = check(matrix_t::zero(n, n), cv, matrix_t{0, n}, vector_t{0}, Gm, hv, state, state.m_x, fstar);
        feasOK           = cl.ineqOK;
        objOK            = cl.objOK;
        gapOK            = cl.gapOK;
    }
    const auto fx1000 = std::isfinite(state.m_fx) ? std::llround(std::clamp(state.m_fx, -1e6, 1e6) * 1000.0) : 0LL;
    vt::put(vt::J("Small").i("case", icase).a("c", c).aa("G", G).a("h", h).s("status", status_name(state.m_status)).i("fx1000", fx1000).b("feasOK", feasOK).b(
        "objOK", objOK).b("gapOK", gapOK));
}

struct kkt_program_t
{
    matrix_t Q, A, G;
    vector_t c, b, h, xstar;
    double   fstar{0};
    bool     linear{false};
};

kkt_program_t make_kkt(vt::Rng& rng)
{
    kkt_program_t P;
    const auto    n     = rng.range(1, 12);
    const auto    p     = rng.range(0, std::max<int64_t>(0, n - 1));
    const auto    m     = rng.range(1, 2 * n + 2);
    const auto    scale = std::pow(10.0, rng.uniform(-2.0, 2.0));
    P.linear            = rng.coin(1, 3);
    if (P.linear)
    {
        P.Q = matrix_t::zero(n, n);
    }
    else
    {
        // Q = D'D possibly rank-deficient
        const auto D = rmat(rng, rng.range(1, n), n, -1.0, 1.0);
        P.Q          = matrix_t(n, n);
        P.Q.matrix() = scale * D.matrix().transpose() * D.matrix();
    }
    P.xstar = rvec(rng, n, -2.0, 2.0);
    P.A     = rmat(rng, p, n, -1.0, 1.0);
    P.b     = vector_t(p);
    if (p > 0)
    {
        P.b.vector() = P.A.matrix() * P.xstar.vector();
    }
    P.G = rmat(rng, m, n, -1.0, 1.0);
    P.h = vector_t(m);
    vector_t u(m), v = rvec(rng, p, -1.0, 1.0);
    // linear programs need n active rows in total to pin the optimum (a vertex); quadratic ones any number
    int64_t active = 0;
    for (tensor_size_t i = 0; i < m; ++i)
    {
        const auto is_active = P.linear ? (active + p < n || rng.coin(1, 4)) : rng.coin(1, 3);
        const auto gx        = P.G.matrix().row(i).dot(P.xstar.vector());
        if (is_active)
        {
            P.h(i) = gx;
            u(i)   = rng.uniform(0.1, 2.0) * scale;
            ++active;
        }
        else
        {
            P.h(i) = gx + rng.uniform(0.1, 2.0);
            u(i)   = 0.0;
        }
    }
    // stationarity: Q x* + c + G'u + A'v = 0
    P.c          = vector_t(n);
    P.c.vector() = -(P.Q.matrix() * P.xstar.vector()) - P.G.matrix().transpose() * u.vector();
    if (p > 0)
    {
        P.c.vector() -= P.A.matrix().transpose() * (v.vector() * scale);
    }
    P.fstar = 0.5 * P.xstar.dot(P.Q.matrix() * P.xstar.vector()) + P.c.dot(P.xstar);
    return P;
}

program::solver_state_t solve(const kkt_program_t& P, const vector_t* x0 = nullptr)
{
    const auto solver = program::solver_t{};
    const auto ineq   = program::make_inequality(P.G, P.h);
    const auto eq     = program::make_equality(P.A, P.b);
    if (P.linear)
    {
        const auto program = P.A.rows() > 0 ? program::make_linear(P.c, ineq, eq) : program::make_linear(P.c, ineq);
        return x0 != nullptr ? solver.solve(program, *x0, make_null_logger()) : solver.solve(program, make_null_logger());
    }
    const auto program = P.A.rows() > 0 ? program::make_quadratic(P.Q, P.c, ineq, eq) : program::make_quadratic(P.Q, P.c, ineq);
    return x0 != nullptr ? solver.solve(program, *x0, make_null_logger()) : solver.solve(program, make_null_logger());
}

void kkt_case(vt::Rng& rng, int64_t icase)
{
    auto        P     = make_kkt(rng);
    const auto  kind  = rng.range(0, 9);
    std::string label = "optimal";
    const auto  n     = P.c.size();
    if (kind == 0)
    {
        // plant an infeasibility: a row and its negation with incompatible bounds
        const auto m = P.G.rows();
        matrix_t   G(m + 2, n);
        vector_t   h(m + 2);
        G.matrix().topRows(m) = P.G.matrix();
        h.vector().head(m)    = P.h.vector();
        const auto q          = rvec(rng, n, -1.0, 1.0);
        G.matrix().row(m)     = q.vector().transpose();
        G.matrix().row(m + 1) = -q.vector().transpose();
        h(m)                  = q.dot(P.xstar) - 1.0;
        h(m + 1)              = -q.dot(P.xstar) - 1.0;
        P.G                   = G;
        P.h                   = h;
        label                 = "infeasible";
    }
    else if (kind == 1)
    {
        // plant an improving ray: a linear objective with a single half-space
        P.linear = true;
        P.Q      = matrix_t::zero(n, n);
        P.A      = matrix_t(0, n);
        P.b      = vector_t(0);
        const auto q = rvec(rng, n, 0.5, 1.5);
        P.G          = matrix_t(1, n);
        P.G.matrix().row(0) = q.vector().transpose();
        P.h          = vector_t(1);
        P.h(0)       = 1.0;
        P.c          = q; // minimise q.x subject to q.x <= 1: unbounded below
        label        = "unbounded";
    }
    program::solver_state_t state;
    if (kind == 2)
    {
        // a user start that is not strictly feasible
        const vector_t x0 = P.xstar.vector() + P.G.matrix().row(0).transpose() * 10.0;
        state             = solve(P, &x0);
        // NB: labelled only when the start really violates an inequality as stated
        label = ((P.G.matrix() * x0.vector() - P.h.vector()).maxCoeff() >= 0.0) ? "badstart" : "optimal";
    }
    else if (kind == 3)
    {
        // a strictly feasible user start: an interior-point iterate of a first solve, moved a little towards the analytic centre-ish side
        state = solve(P);
        if (state.m_status == solver_status::converged && P.G.rows() > 0)
        {
            const vector_t x0 = state.m_x;
            if ((P.G.matrix() * x0.vector() - P.h.vector()).maxCoeff() < 0.0)
            {
                state = solve(P, &x0);
                label = "optimal"; // a strictly feasible start must not be refused
            }
        }
    }
    else
    {
        state = solve(P);
    }
    const auto cl = check(P.Q, P.c, P.A, P.b, P.G, P.h, state, P.xstar, P.fstar);
    vt::put(vt::J("Kkt").i("case", icase).s("label", label).b("linear", P.linear).i("n", n).i("p", P.A.rows()).i("m", P.G.rows()).s(
        "status", status_name(state.m_status)).i("iters", state.m_iters).b("eqOK", cl.eqOK).b("ineqOK", cl.ineqOK).b("objOK", cl.objOK).b("gapOK", cl.gapOK));
}

void pair_case(vt::Rng& rng, int64_t icase)
{
    const auto P = make_kkt(rng);
    auto       R = P;
    const auto n = P.c.size();
    const auto kind = rng.range(0, 4);
    std::string what;
    if (kind == 0 && P.A.rows() > 0)
    {
        // duplicate an equality row and add a linear combination of rows
        const auto p = P.A.rows();
        R.A          = matrix_t(p + 2, n);
        R.b          = vector_t(p + 2);
        R.A.matrix().topRows(p) = P.A.matrix();
        R.b.vector().head(p)    = P.b.vector();
        R.A.matrix().row(p)     = P.A.matrix().row(0);
        R.b(p)                  = P.b(0);
        const auto w            = rvec(rng, p, -1.0, 1.0);
        R.A.matrix().row(p + 1) = (P.A.matrix().transpose() * w.vector()).transpose();
        R.b(p + 1)              = w.dot(P.b);
        what                    = "duplicated/combined equality rows";
    }
    else if (kind == 1)
    {
        for (tensor_size_t i = 0; i < R.G.rows(); ++i)
        {
            const auto s = rng.coin() ? std::pow(2.0, static_cast<double>(rng.range(-3, 3))) : std::pow(10.0, rng.uniform(-2.0, 2.0));
            R.G.matrix().row(i) *= s;
            R.h(i) *= s;
        }
        what = "positively rescaled inequality rows";
    }
    else if (kind == 2)
    {
        // (also far down: below 1e-3 the solver's normalisation of the objective is clamped)
        const auto s = rng.coin() ? std::pow(2.0, static_cast<double>(rng.range(-3, 3))) : std::pow(10.0, rng.uniform(-6.0, 3.0));
        R.Q.matrix() *= s;
        R.c.vector() *= s;
        R.fstar *= s;
        what = "rescaled objective";
    }
    else if (kind == 3 && P.A.rows() > 0)
    {
        for (tensor_size_t i = 0; i < R.A.rows(); ++i)
        {
            const auto s = (rng.coin() ? -1.0 : 1.0) * (rng.coin() ? std::pow(2.0, static_cast<double>(rng.range(-3, 3))) : std::pow(10.0, rng.uniform(-2.0, 2.0)));
            R.A.matrix().row(i) *= s;
            R.b(i) *= s;
        }
        what = "rescaled equality rows";
    }
    else
    {
        // permute the variables
        std::vector<tensor_size_t> perm(static_cast<size_t>(n));
        for (tensor_size_t j = 0; j < n; ++j)
        {
            perm[static_cast<size_t>(j)] = j;
        }
        for (size_t j = perm.size(); j > 1; --j)
        {
            std::swap(perm[j - 1], perm[static_cast<size_t>(rng.range(0, static_cast<int64_t>(j) - 1))]);
        }
        for (tensor_size_t j = 0; j < n; ++j)
        {
            const auto pj = perm[static_cast<size_t>(j)];
            R.c(j)        = P.c(pj);
            R.xstar(j)    = P.xstar(pj);
            for (tensor_size_t i = 0; i < P.G.rows(); ++i)
            {
                R.G(i, j) = P.G(i, pj);
            }
            for (tensor_size_t i = 0; i < P.A.rows(); ++i)
            {
                R.A(i, j) = P.A(i, pj);
            }
            for (tensor_size_t k = 0; k < n; ++k)
            {
                R.Q(j, k) = P.Q(pj, perm[static_cast<size_t>(k)]);
            }
        }
        what = "permuted variables";
    }
    const auto sa = solve(P), sb = solve(R);
    const auto cb = check(R.Q, R.c, R.A, R.b, R.G, R.h, sb, R.xstar, R.fstar);
    // objectives agree (after undoing the objective rescaling) within the sum of the two bounds
    const auto scale = (P.fstar != 0.0 && kind == 2) ? R.fstar / P.fstar : 1.0;
    const auto Ma    = std::max({1e-3, P.Q.lpNorm<2>(), P.c.lpNorm<2>()}), Mb = std::max({1e-3, R.Q.lpNorm<2>(), R.c.lpNorm<2>()});
    const auto ba    = 1e-8 * Ma * (1.0 + (sa.m_x - P.xstar).lpNorm<2>() + sa.m_u.lpNorm<1>() + sa.m_v.lpNorm<1>());
    const auto bb    = 1e-8 * Mb * (1.0 + (sb.m_x - R.xstar).lpNorm<2>() + sb.m_u.lpNorm<1>() + sb.m_v.lpNorm<1>());
    const auto fa    = 0.5 * sa.m_x.dot(P.Q.matrix() * sa.m_x.vector()) + P.c.dot(sa.m_x);
    const auto fb    = 0.5 * sb.m_x.dot(R.Q.matrix() * sb.m_x.vector()) + R.c.dot(sb.m_x);
    const auto agree = std::fabs(fa * scale - fb) <= ba * std::fabs(scale) + bb;
    vt::put(vt::J("Pair").i("case", icase).s("what", what).s("statusA", status_name(sa.m_status)).s("statusB", status_name(sb.m_status)).b("agree", agree).b(
        "okB", cb.eqOK && cb.ineqOK && cb.objOK && cb.gapOK));
}
} // namespace

int main(int argc, char* argv[])
{
    if (argc < 6)
    {
        std::fprintf(stderr, "usage: program_driver <out.ndjson> <seed> <small-cases> <kkt-cases> <pair-cases>\n");
        return 2;
    }
    vt::Trace::get().open(argv[1]);
    vt::Rng    rng(static_cast<uint64_t>(std::atoll(argv[2])));
    const auto ns = std::atoll(argv[3]), nk = std::atoll(argv[4]), np = std::atoll(argv[5]);
    int64_t    icase = 0;
    for (int64_t i = 0; i < ns; ++i)
    {
        small_case(rng, icase++);
    }
    for (int64_t i = 0; i < nk; ++i)
    {
        kkt_case(rng, icase++);
    }
    for (int64_t i = 0; i < np; ++i)
    {
        pair_case(rng, icase++);
    }
    vt::put(vt::J("Kkt").i("case", -1).s("label", "end").b("linear", true).i("n", 0).i("p", 0).i("m", 0).s("status", "max_iters").i("iters", 0).b("eqOK", true).b(
        "ineqOK", true).b("objOK", true).b("gapOK", true));
    return 0;
}
