// C04 conformance driver for the primal-dual interior-point LP/QP solver.
//   program_driver <out.ndjson> <seed> <small-cases> <kkt-cases> <pair-cases> [<extra-cases>]
// extra cases (after the others, so that the first three families see the same random stream as before): restatements with permuted
// rows, programs stated as several constraint blocks (make_less / make_greater / row overloads, shuffled argument order), programs
// without inequalities (the direct KKT solve), further planted infeasible / unbounded programs, generic interior user starts.
#include "trace.h"
#include <functional>
#include <nano/program/solver.h>
#include <optional>
#include <utility>

using namespace nano;

namespace
{
const char* status_name(solver_status s)
{
    switch (s)
    {
    case solver_status::converged: return "converged";
    case solver_status::max_iters: return "max_iters";
    case solver_status::failed: return "failed";
    case solver_status::unfeasible: return "unfeasible";
    case solver_status::unbounded: return "unbounded";
    default: return "other";
    }
}

vector_t rvec(vt::Rng& rng, int64_t n, double lo, double hi)
{
    vector_t v(n);
    for (tensor_size_t i = 0; i < n; ++i)
    {
        v(i) = rng.uniform(lo, hi);
    }
    return v;
}

matrix_t rmat(vt::Rng& rng, int64_t r, int64_t c, double lo, double hi)
{
    matrix_t m(r, c);
    for (tensor_size_t i = 0; i < m.size(); ++i)
    {
        m(i) = rng.uniform(lo, hi);
    }
    return m;
}

// exact rational optimum of min c.x s.t. G x <= h (n <= 3) by vertex enumeration in __int128 (the driver's own oracle for the
// tight tolerance; TLC decides the same question independently)
struct frac_t
{
    __int128 num{0}, den{1};
    bool     feasible{false};
};

__int128 det(const std::vector<std::vector<__int128>>& M)
{
    const auto n = M.size();
    if (n == 1)
    {
        return M[0][0];
    }
    if (n == 2)
    {
        return M[0][0] * M[1][1] - M[0][1] * M[1][0];
    }
    return M[0][0] * (M[1][1] * M[2][2] - M[1][2] * M[2][1]) - M[0][1] * (M[1][0] * M[2][2] - M[1][2] * M[2][0]) +
           M[0][2] * (M[1][0] * M[2][1] - M[1][1] * M[2][0]);
}

frac_t exact_lp(const std::vector<int64_t>& c, const std::vector<std::vector<int64_t>>& G, const std::vector<int64_t>& h)
{
    const auto n = c.size();
    const auto m = G.size();
    frac_t     best;
    std::vector<size_t> idx(n);
    const std::function<void(size_t, size_t)> rec = [&](size_t k, size_t start)
    {
        if (k == n)
        {
            std::vector<std::vector<__int128>> M(n, std::vector<__int128>(n));
            for (size_t i = 0; i < n; ++i)
            {
                for (size_t j = 0; j < n; ++j)
                {
                    M[i][j] = G[idx[i]][j];
                }
            }
            auto d = det(M);
            if (d == 0)
            {
                return;
            }
            std::vector<__int128> num(n);
            for (size_t j = 0; j < n; ++j)
            {
                auto Mj = M;
                for (size_t i = 0; i < n; ++i)
                {
                    Mj[i][j] = h[idx[i]];
                }
                num[j] = det(Mj);
            }
            if (d < 0)
            {
                d = -d;
                for (auto& v : num)
                {
                    v = -v;
                }
            }
            for (size_t i = 0; i < m; ++i)
            {
                __int128 lhs = 0;
                for (size_t j = 0; j < n; ++j)
                {
                    lhs += static_cast<__int128>(G[i][j]) * num[j];
                }
                if (lhs > static_cast<__int128>(h[i]) * d)
                {
                    return;
                }
            }
            __int128 obj = 0;
            for (size_t j = 0; j < n; ++j)
            {
                obj += static_cast<__int128>(c[j]) * num[j];
            }
            if (!best.feasible || obj * best.den < best.num * d)
            {
                best.num      = obj;
                best.den      = d;
                best.feasible = true;
            }
            return;
        }
        for (size_t i = start; i < m; ++i)
        {
            idx[k] = i;
            rec(k + 1, i + 1);
        }
    };
    rec(0, 0);
    return best;
}

struct clauses_t
{
    bool eqOK{true}, ineqOK{true}, objOK{true}, gapOK{true};
};

// the property's clauses on the program as the caller stated it
clauses_t check(const matrix_t& Q, const vector_t& c, const matrix_t& A, const vector_t& b, const matrix_t& G, const vector_t& h,
                const program::solver_state_t& state, const vector_t& xstar, double fstar)
{
    clauses_t  out;
    const auto& x = state.m_x;
    if (A.rows() > 0)
    {
        const vector_t r = A.matrix() * x.vector() - b.vector();
        out.eqOK         = r.lpNorm<Eigen::Infinity>() <= 1e-6 * (1.0 + b.lpNorm<Eigen::Infinity>());
    }
    if (G.rows() > 0)
    {
        const vector_t r = G.matrix() * x.vector() - h.vector();
        out.ineqOK       = r.max() <= 1e-6 * (1.0 + h.lpNorm<Eigen::Infinity>());
    }
    const vector_t Qx  = Q.matrix() * x.vector();
    const auto     fx  = 0.5 * x.dot(Qx) + c.dot(x);
    const auto     mag = 0.5 * std::fabs(x.dot(Qx)) + (c.array() * x.array()).abs().sum() + 1.0;
    out.objOK          = std::fabs(state.m_fx - fx) <= 1e-6 * mag;
    const auto M       = std::max({1e-3, Q.lpNorm<2>(), c.lpNorm<2>()});
    const auto bound   = 1e-8 * M * (1.0 + (x - xstar).lpNorm<2>() + state.m_u.lpNorm<1>() + state.m_v.lpNorm<1>());
    out.gapOK          = std::fabs(fx - fstar) <= bound;
    return out;
}

void small_case(vt::Rng& rng, int64_t icase)
{
    const auto n = rng.range(1, 3);
    const auto m = rng.range(0, 6 - std::min<int64_t>(2 * n, 6) + 2);
    std::vector<int64_t>              c;
    std::vector<std::vector<int64_t>> G;
    std::vector<int64_t>              h;
    for (int64_t j = 0; j < n; ++j)
    {
        c.push_back(rng.range(-3, 3));
    }
    // box -B <= x_j <= B
    const auto B = rng.range(1, 4);
    for (int64_t j = 0; j < n; ++j)
    {
        std::vector<int64_t> up(static_cast<size_t>(n), 0), lo(static_cast<size_t>(n), 0);
        up[static_cast<size_t>(j)] = 1;
        lo[static_cast<size_t>(j)] = -1;
        G.push_back(up);
        h.push_back(B);
        G.push_back(lo);
        h.push_back(B);
    }
    for (int64_t i = 0; i < m; ++i)
    {
        std::vector<int64_t> row;
        for (int64_t j = 0; j < n; ++j)
        {
            row.push_back(rng.range(-3, 3));
        }
        G.push_back(row);
        h.push_back(rng.range(-6, 5));
    }
    const auto rows = static_cast<tensor_size_t>(G.size());
    matrix_t   Gm(rows, n);
    vector_t   hv(rows), cv(n);
    for (tensor_size_t i = 0; i < rows; ++i)
    {
        hv(i) = static_cast<double>(h[static_cast<size_t>(i)]);
        for (tensor_size_t j = 0; j < n; ++j)
        {
            Gm(i, j) = static_cast<double>(G[static_cast<size_t>(i)][static_cast<size_t>(j)]);
        }
    }
    for (tensor_size_t j = 0; j < n; ++j)
    {
        cv(j) = static_cast<double>(c[static_cast<size_t>(j)]);
    }
    const auto program = program::make_linear(cv, program::make_inequality(Gm, hv));
    const auto solver  = program::solver_t{};
    const auto state   = solver.solve(program, make_null_logger());
    const auto exact   = exact_lp(c, G, h);
    bool       feasOK = true, objOK = true, gapOK = true;
    if (state.m_status == solver_status::converged && exact.feasible)
    {
        const auto fstar = static_cast<double>(static_cast<long double>(exact.num) / static_cast<long double>(exact.den));
        const auto cl    = check(matrix_t::zero(n, n), cv, matrix_t{0, n}, vector_t{0}, Gm, hv, state, state.m_x, fstar);
        feasOK           = cl.ineqOK;
        objOK            = cl.objOK;
        gapOK            = cl.gapOK;
    }
    const auto fx1000 = std::isfinite(state.m_fx) ? std::llround(std::clamp(state.m_fx, -1e6, 1e6) * 1000.0) : 0LL;
    vt::put(vt::J("Small").i("case", icase).a("c", c).aa("G", G).a("h", h).s("status", status_name(state.m_status)).i("fx1000", fx1000).b("feasOK", feasOK).b(
        "objOK", objOK).b("gapOK", gapOK));
}

struct kkt_program_t
{
    matrix_t Q, A, G;
    vector_t c, b, h, xstar;
    double   fstar{0};
    bool     linear{false};
    vector_t u, v; // the multipliers of the construction (as they enter the stationarity condition)
};

kkt_program_t make_kkt(vt::Rng& rng)
{
    kkt_program_t P;
    const auto    n     = rng.range(1, 12);
    const auto    p     = rng.range(0, std::max<int64_t>(0, n - 1));
    const auto    m     = rng.range(1, 2 * n + 2);
    const auto    scale = std::pow(10.0, rng.uniform(-2.0, 2.0));
    P.linear            = rng.coin(1, 3);
    if (P.linear)
    {
        P.Q = matrix_t::zero(n, n);
    }
    else
    {
        // Q = D'D possibly rank-deficient
        const auto D = rmat(rng, rng.range(1, n), n, -1.0, 1.0);
        P.Q          = matrix_t(n, n);
        P.Q.matrix() = scale * D.matrix().transpose() * D.matrix();
    }
    P.xstar = rvec(rng, n, -2.0, 2.0);
    P.A     = rmat(rng, p, n, -1.0, 1.0);
    P.b     = vector_t(p);
    if (p > 0)
    {
        P.b.vector() = P.A.matrix() * P.xstar.vector();
    }
    P.G = rmat(rng, m, n, -1.0, 1.0);
    P.h = vector_t(m);
    vector_t u(m), v = rvec(rng, p, -1.0, 1.0);
    // linear programs need n active rows in total to pin the optimum (a vertex); quadratic ones any number
    int64_t active = 0;
    for (tensor_size_t i = 0; i < m; ++i)
    {
        const auto is_active = P.linear ? (active + p < n || rng.coin(1, 4)) : rng.coin(1, 3);
        const auto gx        = P.G.matrix().row(i).dot(P.xstar.vector());
        if (is_active)
        {
            P.h(i) = gx;
            u(i)   = rng.uniform(0.1, 2.0) * scale;
            ++active;
        }
        else
        {
            P.h(i) = gx + rng.uniform(0.1, 2.0);
            u(i)   = 0.0;
        }
    }
    // stationarity: Q x* + c + G'u + A'v = 0
    P.c          = vector_t(n);
    P.c.vector() = -(P.Q.matrix() * P.xstar.vector()) - P.G.matrix().transpose() * u.vector();
    if (p > 0)
    {
        P.c.vector() -= P.A.matrix().transpose() * (v.vector() * scale);
    }
    P.fstar = 0.5 * P.xstar.dot(P.Q.matrix() * P.xstar.vector()) + P.c.dot(P.xstar);
    P.u     = u;
    P.v     = vector_t(p);
    P.v.vector() = v.vector() * scale;
    return P;
}

program::solver_state_t solve(const kkt_program_t& P, const vector_t* x0 = nullptr)
{
    const auto solver = program::solver_t{};
    const auto ineq   = program::make_inequality(P.G, P.h);
    const auto eq     = program::make_equality(P.A, P.b);
    if (P.linear)
    {
        const auto program = P.A.rows() > 0 ? program::make_linear(P.c, ineq, eq) : program::make_linear(P.c, ineq);
        return x0 != nullptr ? solver.solve(program, *x0, make_null_logger()) : solver.solve(program, make_null_logger());
    }
    const auto program = P.A.rows() > 0 ? program::make_quadratic(P.Q, P.c, ineq, eq) : program::make_quadratic(P.Q, P.c, ineq);
    return x0 != nullptr ? solver.solve(program, *x0, make_null_logger()) : solver.solve(program, make_null_logger());
}

void kkt_case(vt::Rng& rng, int64_t icase)
{
    auto        P     = make_kkt(rng);
    const auto  kind  = rng.range(0, 9);
    std::string label = "optimal";
    const auto  n     = P.c.size();
    if (kind == 0)
    {
        // plant an infeasibility: a row and its negation with incompatible bounds
        const auto m = P.G.rows();
        matrix_t   G(m + 2, n);
        vector_t   h(m + 2);
        G.matrix().topRows(m) = P.G.matrix();
        h.vector().head(m)    = P.h.vector();
        const auto q          = rvec(rng, n, -1.0, 1.0);
        G.matrix().row(m)     = q.vector().transpose();
        G.matrix().row(m + 1) = -q.vector().transpose();
        h(m)                  = q.dot(P.xstar) - 1.0;
        h(m + 1)              = -q.dot(P.xstar) - 1.0;
        P.G                   = G;
        P.h                   = h;
        label                 = "infeasible";
    }
    else if (kind == 1)
    {
        // plant an improving ray: a linear objective with a single half-space
        P.linear = true;
        P.Q      = matrix_t::zero(n, n);
        P.A      = matrix_t(0, n);
        P.b      = vector_t(0);
        const auto q = rvec(rng, n, 0.5, 1.5);
        P.G          = matrix_t(1, n);
        P.G.matrix().row(0) = q.vector().transpose();
        P.h          = vector_t(1);
        P.h(0)       = 1.0;
        P.c          = q; // minimise q.x subject to q.x <= 1: unbounded below
        label        = "unbounded";
    }
    program::solver_state_t state;
    if (kind == 2)
    {
        // a user start that is not strictly feasible
        const vector_t x0 = P.xstar.vector() + P.G.matrix().row(0).transpose() * 10.0;
        state             = solve(P, &x0);
        // NB: labelled only when the start really violates an inequality as stated
        label = ((P.G.matrix() * x0.vector() - P.h.vector()).maxCoeff() >= 0.0) ? "badstart" : "optimal";
    }
    else if (kind == 3)
    {
        // a strictly feasible user start: an interior-point iterate of a first solve, moved a little towards the analytic centre-ish side
        state = solve(P);
        if (state.m_status == solver_status::converged && P.G.rows() > 0)
        {
            const vector_t x0 = state.m_x;
            if ((P.G.matrix() * x0.vector() - P.h.vector()).maxCoeff() < 0.0)
            {
                state = solve(P, &x0);
                label = "optimal"; // a strictly feasible start must not be refused
            }
        }
    }
    else
    {
        state = solve(P);
    }
    const auto cl = check(P.Q, P.c, P.A, P.b, P.G, P.h, state, P.xstar, P.fstar);
    vt::put(vt::J("Kkt").i("case", icase).s("label", label).b("linear", P.linear).i("n", n).i("p", P.A.rows()).i("m", P.G.rows()).s(
        "status", status_name(state.m_status)).i("iters", state.m_iters).b("eqOK", cl.eqOK).b("ineqOK", cl.ineqOK).b("objOK", cl.objOK).b("gapOK", cl.gapOK));
}

struct pair_result_t
{
    bool agree{true}, okB{true};
};

// the clauses of the restated program R on its own, and: the objectives of the two solutions agree (after undoing a rescaling of the
// objective) within the sum of the two bounds of the property
pair_result_t compare_pair(const kkt_program_t& P, const kkt_program_t& R, const program::solver_state_t& sa,
                           const program::solver_state_t& sb, const bool rescaled_objective)
{
    const auto cb = check(R.Q, R.c, R.A, R.b, R.G, R.h, sb, R.xstar, R.fstar);
    const auto scale = (P.fstar != 0.0 && rescaled_objective) ? R.fstar / P.fstar : 1.0;
    const auto Ma    = std::max({1e-3, P.Q.lpNorm<2>(), P.c.lpNorm<2>()}), Mb = std::max({1e-3, R.Q.lpNorm<2>(), R.c.lpNorm<2>()});
    const auto ba    = 1e-8 * Ma * (1.0 + (sa.m_x - P.xstar).lpNorm<2>() + sa.m_u.lpNorm<1>() + sa.m_v.lpNorm<1>());
    const auto bb    = 1e-8 * Mb * (1.0 + (sb.m_x - R.xstar).lpNorm<2>() + sb.m_u.lpNorm<1>() + sb.m_v.lpNorm<1>());
    const auto fa    = 0.5 * sa.m_x.dot(P.Q.matrix() * sa.m_x.vector()) + P.c.dot(sa.m_x);
    const auto fb    = 0.5 * sb.m_x.dot(R.Q.matrix() * sb.m_x.vector()) + R.c.dot(sb.m_x);
    pair_result_t out;
    out.agree = std::fabs(fa * scale - fb) <= ba * std::fabs(scale) + bb;
    out.okB   = cb.eqOK && cb.ineqOK && cb.objOK && cb.gapOK;
    return out;
}

void pair_case(vt::Rng& rng, int64_t icase)
{
    const auto P = make_kkt(rng);
    auto       R = P;
    const auto n = P.c.size();
    const auto kind = rng.range(0, 4);
    std::string what;
    if (kind == 0 && P.A.rows() > 0)
    {
        // duplicate an equality row and add a linear combination of rows
        const auto p = P.A.rows();
        R.A          = matrix_t(p + 2, n);
        R.b          = vector_t(p + 2);
        R.A.matrix().topRows(p) = P.A.matrix();
        R.b.vector().head(p)    = P.b.vector();
        R.A.matrix().row(p)     = P.A.matrix().row(0);
        R.b(p)                  = P.b(0);
        const auto w            = rvec(rng, p, -1.0, 1.0);
        R.A.matrix().row(p + 1) = (P.A.matrix().transpose() * w.vector()).transpose();
        R.b(p + 1)              = w.dot(P.b);
        what                    = "duplicated/combined equality rows";
    }
    else if (kind == 1)
    {
        for (tensor_size_t i = 0; i < R.G.rows(); ++i)
        {
            const auto s = rng.coin() ? std::pow(2.0, static_cast<double>(rng.range(-3, 3))) : std::pow(10.0, rng.uniform(-2.0, 2.0));
            R.G.matrix().row(i) *= s;
            R.h(i) *= s;
        }
        what = "positively rescaled inequality rows";
    }
    else if (kind == 2)
    {
        // (also far down: below 1e-3 the solver's normalisation of the objective is clamped)
        const auto s = rng.coin() ? std::pow(2.0, static_cast<double>(rng.range(-3, 3))) : std::pow(10.0, rng.uniform(-6.0, 3.0));
        R.Q.matrix() *= s;
        R.c.vector() *= s;
        R.fstar *= s;
        what = "rescaled objective";
    }
    else if (kind == 3 && P.A.rows() > 0)
    {
        for (tensor_size_t i = 0; i < R.A.rows(); ++i)
        {
            const auto s = (rng.coin() ? -1.0 : 1.0) * (rng.coin() ? std::pow(2.0, static_cast<double>(rng.range(-3, 3))) : std::pow(10.0, rng.uniform(-2.0, 2.0)));
            R.A.matrix().row(i) *= s;
            R.b(i) *= s;
        }
        what = "rescaled equality rows";
    }
    else
    {
        // permute the variables
        std::vector<tensor_size_t> perm(static_cast<size_t>(n));
        for (tensor_size_t j = 0; j < n; ++j)
        {
            perm[static_cast<size_t>(j)] = j;
        }
        for (size_t j = perm.size(); j > 1; --j)
        {
            std::swap(perm[j - 1], perm[static_cast<size_t>(rng.range(0, static_cast<int64_t>(j) - 1))]);
        }
        for (tensor_size_t j = 0; j < n; ++j)
        {
            const auto pj = perm[static_cast<size_t>(j)];
            R.c(j)        = P.c(pj);
            R.xstar(j)    = P.xstar(pj);
            for (tensor_size_t i = 0; i < P.G.rows(); ++i)
            {
                R.G(i, j) = P.G(i, pj);
            }
            for (tensor_size_t i = 0; i < P.A.rows(); ++i)
            {
                R.A(i, j) = P.A(i, pj);
            }
            for (tensor_size_t k = 0; k < n; ++k)
            {
                R.Q(j, k) = P.Q(pj, perm[static_cast<size_t>(k)]);
            }
        }
        what = "permuted variables";
    }
    const auto sa = solve(P), sb = solve(R);
    const auto pr = compare_pair(P, R, sa, sb, kind == 2);
    vt::put(vt::J("Pair").i("case", icase).s("what", what).s("statusA", status_name(sa.m_status)).s("statusB", status_name(sb.m_status)).b("agree", pr.agree).b(
        "okB", pr.okB));
}

// ---------------------------------------------------------------------------------------------------------------------------------
// extra cases
std::vector<tensor_size_t> rperm(vt::Rng& rng, const tensor_size_t n)
{
    std::vector<tensor_size_t> perm(static_cast<size_t>(n));
    for (tensor_size_t j = 0; j < n; ++j)
    {
        perm[static_cast<size_t>(j)] = j;
    }
    for (size_t j = perm.size(); j > 1; --j)
    {
        std::swap(perm[j - 1], perm[static_cast<size_t>(rng.range(0, static_cast<int64_t>(j) - 1))]);
    }
    return perm;
}

void permute_rows(vt::Rng& rng, matrix_t& M, vector_t& v)
{
    const auto perm = rperm(rng, M.rows());
    const auto M0   = M;
    const auto v0   = v;
    for (tensor_size_t i = 0; i < M.rows(); ++i)
    {
        M.matrix().row(i) = M0.matrix().row(perm[static_cast<size_t>(i)]);
        v(i)              = v0(perm[static_cast<size_t>(i)]);
    }
}

// restatement with permuted rows: the same inequalities and the same equalities in another order
void rowperm_case(vt::Rng& rng, int64_t icase)
{
    const auto P = make_kkt(rng);
    auto       R = P;
    permute_rows(rng, R.G, R.h);
    if (R.A.rows() > 0)
    {
        permute_rows(rng, R.A, R.b);
    }
    const auto sa = solve(P), sb = solve(R);
    const auto pr = compare_pair(P, R, sa, sb, false);
    vt::put(vt::J("Pair").i("case", icase).s("what", "permuted rows").s("statusA", status_name(sa.m_status)).s("statusB", status_name(sb.m_status)).b(
        "agree", pr.agree).b("okB", pr.okB));
}

// a KKT-constructed program whose inequalities are a box (one or two sides, scalar or per-variable bounds) and a few general rows,
// so that it can be stated in one block or as make_less / make_greater / general blocks
struct box_program_t : kkt_program_t
{
    bool          upper{false}, lower{false}, scalar{false}, eq_row{false};
    double        ub_s{0}, lb_s{0};
    vector_t      ub, lb;
    tensor_size_t rest{0};
};

box_program_t make_kkt_box(vt::Rng& rng)
{
    box_program_t P;
    const auto    n       = rng.range(1, 12);
    const auto    p       = rng.range(0, std::max<int64_t>(0, n - 1));
    const auto    boxkind = rng.range(0, 3);
    P.upper               = boxkind != 3;
    P.lower               = boxkind != 2;
    const auto nbox       = (P.upper ? n : 0) + (P.lower ? n : 0);
    P.rest                = rng.range(0, 2 * n + 2 - nbox);
    P.scalar              = rng.coin(1, 3);
    P.eq_row              = rng.coin();
    const auto m          = nbox + P.rest;
    const auto scale      = std::pow(10.0, rng.uniform(-2.0, 2.0));
    P.linear              = rng.coin(1, 3);
    if (P.linear)
    {
        P.Q = matrix_t::zero(n, n);
    }
    else
    {
        const auto D = rmat(rng, rng.range(1, n), n, -1.0, 1.0);
        P.Q          = matrix_t(n, n);
        P.Q.matrix() = scale * D.matrix().transpose() * D.matrix();
    }
    P.xstar = rvec(rng, n, -2.0, 2.0);
    if (P.scalar)
    {
        P.ub_s = rng.uniform(0.5, 2.0);
        P.lb_s = rng.uniform(-2.0, -0.5);
        for (tensor_size_t j = 0; j < n; ++j)
        {
            const auto t = rng.range(0, 3);
            P.xstar(j)   = (t == 0 && P.upper) ? P.ub_s : (t == 1 && P.lower) ? P.lb_s : rng.uniform(P.lb_s + 0.1, P.ub_s - 0.1);
        }
    }
    P.A = rmat(rng, p, n, -1.0, 1.0);
    P.b = vector_t(p);
    if (p > 0)
    {
        P.b.vector() = P.A.matrix() * P.xstar.vector();
    }
    P.G = matrix_t::zero(m, n);
    P.h = vector_t(m);
    tensor_size_t row = 0;
    if (P.upper)
    {
        for (tensor_size_t j = 0; j < n; ++j)
        {
            P.G(row++, j) = 1.0;
        }
    }
    if (P.lower)
    {
        for (tensor_size_t j = 0; j < n; ++j)
        {
            P.G(row++, j) = -1.0;
        }
    }
    for (; row < m; ++row)
    {
        P.G.matrix().row(row) = rvec(rng, n, -1.0, 1.0).vector().transpose();
    }
    P.u = vector_t::zero(m);
    std::vector<bool> is_active(static_cast<size_t>(m), false);
    int64_t           active = 0;
    if (P.scalar)
    {
        // the box rows are fixed by the scalar bounds
        for (tensor_size_t i = 0; i < nbox; ++i)
        {
            const auto is_upper = P.upper && i < n;
            P.h(i)              = is_upper ? P.ub_s : -P.lb_s;
            if (P.G.matrix().row(i).dot(P.xstar.vector()) == P.h(i))
            {
                is_active[static_cast<size_t>(i)] = true;
                ++active;
            }
        }
    }
    for (const auto i : rperm(rng, m))
    {
        if (P.scalar && i < nbox)
        {
            continue;
        }
        // (never both sides of one variable active: no strictly feasible point otherwise)
        const auto other    = (i >= nbox || !P.upper || !P.lower) ? tensor_size_t{-1} : (i < n ? i + n : i - n);
        const auto blocked  = other >= 0 && is_active[static_cast<size_t>(other)];
        const auto activate = !blocked && (P.linear ? (active + p < n || rng.coin(1, 4)) : rng.coin(1, 3));
        const auto gx       = P.G.matrix().row(i).dot(P.xstar.vector());
        if (activate)
        {
            P.h(i)                            = gx;
            is_active[static_cast<size_t>(i)] = true;
            ++active;
        }
        else
        {
            P.h(i) = gx + rng.uniform(0.1, 2.0);
        }
    }
    for (tensor_size_t i = 0; i < m; ++i)
    {
        if (is_active[static_cast<size_t>(i)])
        {
            P.u(i) = rng.uniform(0.1, 2.0) * scale;
        }
    }
    P.v          = rvec(rng, p, -1.0, 1.0);
    P.v.vector() *= scale;
    P.c          = vector_t(n);
    P.c.vector() = -(P.Q.matrix() * P.xstar.vector()) - P.G.matrix().transpose() * P.u.vector();
    if (p > 0)
    {
        P.c.vector() -= P.A.matrix().transpose() * P.v.vector();
    }
    P.fstar = 0.5 * P.xstar.dot(P.Q.matrix() * P.xstar.vector()) + P.c.dot(P.xstar);
    if (P.upper)
    {
        P.ub = P.h.vector().head(n);
    }
    if (P.lower)
    {
        P.lb = -P.h.vector().segment(P.upper ? n : 0, n);
    }
    return P;
}

// the blocks of a box program (kept alive while the program is stated: the library's constraints may refer to them)
struct blocks_t
{
    explicit blocks_t(const box_program_t& P)
        : m_P(P)
    {
        const auto n    = P.c.size();
        const auto nbox = (P.upper ? n : 0) + (P.lower ? n : 0);
        m_Grest         = matrix_t(P.rest, n);
        m_hrest         = vector_t(P.rest);
        if (P.rest > 0)
        {
            m_Grest.matrix() = P.G.matrix().bottomRows(P.rest);
            m_hrest.vector() = P.h.vector().tail(P.rest);
            m_grow           = m_Grest.matrix().row(0).transpose();
        }
        (void)nbox;
        const auto p = P.A.rows();
        // equalities: the last row on its own (row overload) when there are several (or when there is one and the coin says so)
        m_has_e2 = p >= 2 || (p == 1 && P.eq_row);
        m_p1     = m_has_e2 ? p - 1 : p;
        m_A1     = matrix_t(m_p1, n);
        m_b1     = vector_t(m_p1);
        if (m_p1 > 0)
        {
            m_A1.matrix() = P.A.matrix().topRows(m_p1);
            m_b1.vector() = P.b.vector().head(m_p1);
        }
        if (m_has_e2)
        {
            m_arow = P.A.matrix().row(p - 1).transpose();
            m_brow = P.b(p - 1);
        }
    }

    const box_program_t& m_P;
    matrix_t             m_Grest, m_A1;
    vector_t             m_hrest, m_b1, m_grow, m_arow;
    double               m_brow{0};
    bool                 m_has_e2{false};
    tensor_size_t        m_p1{0};
};

struct stated_t
{
    std::optional<program::linear_program_t>    m_linear;
    std::optional<program::quadratic_program_t> m_quadratic;
    int                                         m_blocks{0};
};

enum block_category
{
    cL,
    cG,
    cR,
    cE1,
    cE2
};

template <int... cats>
using cats_t = std::integer_sequence<int, cats...>;

// state the program with the blocks collected so far (in the order of the arguments)
template <bool scalar, class... tconstraints>
stated_t state_blocks(cats_t<>, const blocks_t& B, const tconstraints&... constraints)
{
    const auto& P = B.m_P;
    stated_t    out;
    out.m_blocks = static_cast<int>(sizeof...(constraints));
    if constexpr (sizeof...(constraints) > 0)
    {
        if (P.linear)
        {
            out.m_linear = program::make_linear(P.c, constraints...);
        }
        else
        {
            out.m_quadratic = program::make_quadratic(P.Q, P.c, constraints...);
        }
    }
    return out;
}

// append the next kind of block (if the program has it) and go on
template <bool scalar, int cat, int... cats, class... tconstraints>
stated_t state_blocks(cats_t<cat, cats...>, const blocks_t& B, const tconstraints&... constraints)
{
    const auto& P    = B.m_P;
    const auto  n    = P.c.size();
    const auto  next = cats_t<cats...>{};
    const auto  with = [&](const auto& constraint) { return state_blocks<scalar>(next, B, constraints..., constraint); };
    const auto  skip = [&]() { return state_blocks<scalar>(next, B, constraints...); };
    if constexpr (cat == cL)
    {
        if constexpr (scalar)
        {
            return !P.upper ? skip() : with(program::make_less(n, P.ub_s));
        }
        else
        {
            return !P.upper ? skip() : with(program::make_less(P.ub));
        }
    }
    else if constexpr (cat == cG)
    {
        if constexpr (scalar)
        {
            return !P.lower ? skip() : with(program::make_greater(n, P.lb_s));
        }
        else
        {
            return !P.lower ? skip() : with(program::make_greater(P.lb));
        }
    }
    else if constexpr (cat == cR)
    {
        return P.rest == 0 ? skip() : P.rest == 1 ? with(program::make_inequality(B.m_grow, B.m_hrest(0))) : with(program::make_inequality(B.m_Grest, B.m_hrest));
    }
    else if constexpr (cat == cE1)
    {
        return B.m_p1 == 0 ? skip() : with(program::make_equality(B.m_A1, B.m_b1));
    }
    else
    {
        return !B.m_has_e2 ? skip() : with(program::make_equality(B.m_arow, B.m_brow));
    }
}

// the rows [M | v] as a sorted list (the order of the stacked rows is the library's business)
std::vector<std::vector<double>> sorted_rows(const matrix_t& M, const vector_t& v)
{
    std::vector<std::vector<double>> rows;
    for (tensor_size_t i = 0; i < M.rows(); ++i)
    {
        std::vector<double> row;
        for (tensor_size_t j = 0; j < M.cols(); ++j)
        {
            row.push_back(M(i, j));
        }
        row.push_back(i < v.size() ? v(i) : std::numeric_limits<double>::quiet_NaN());
        rows.push_back(row);
    }
    std::sort(rows.begin(), rows.end());
    return rows;
}

void blocks_case(vt::Rng& rng, int64_t icase)
{
    const auto P     = make_kkt_box(rng);
    const auto B     = blocks_t{P};
    // the order of the arguments: inequalities first, or equalities first and interleaved
    const auto order = rng.range(0, 1);
    const auto o0 = cats_t<cL, cG, cR, cE1, cE2>{};
    const auto o1 = cats_t<cE2, cG, cE1, cR, cL>{};
    const auto S  = order == 0 ? (P.scalar ? state_blocks<true>(o0, B) : state_blocks<false>(o0, B)) : (P.scalar ? state_blocks<true>(o1, B) : state_blocks<false>(o1, B));
    const auto& constrained = P.linear ? static_cast<const program::linear_constrained_t&>(*S.m_linear)
                                       : static_cast<const program::linear_constrained_t&>(*S.m_quadratic);
    // the stated program has exactly the caller's rows (in whatever order)
    const auto stackOK = constrained.m_ineq.m_A.cols() == P.G.cols() && constrained.m_ineq.m_b.size() == P.h.size() &&
                         constrained.m_eq.m_b.size() == P.b.size() && (P.A.rows() == 0 || constrained.m_eq.m_A.cols() == P.A.cols()) &&
                         sorted_rows(constrained.m_ineq.m_A, constrained.m_ineq.m_b) == sorted_rows(P.G, P.h) &&
                         sorted_rows(constrained.m_eq.m_A, constrained.m_eq.m_b) == sorted_rows(P.A, P.b);
    const auto solver  = program::solver_t{};
    const auto sa      = solve(P);
    const auto sb      = P.linear ? solver.solve(*S.m_linear, make_null_logger()) : solver.solve(*S.m_quadratic, make_null_logger());
    // (the clauses do not depend on the order of the rows: the blocks state the rows of P)
    const auto pr = compare_pair(P, P, sa, sb, false);
    vt::put(vt::J("Blocks").i("case", icase).i("order", order).i("blocks", S.m_blocks).b("scalar", P.scalar).b("linear", P.linear).i("n", P.c.size()).i(
        "p", P.A.rows()).i("m", P.G.rows()).s("statusA", status_name(sa.m_status)).s("statusB", status_name(sb.m_status)).b("agree", pr.agree).b(
        "okB", pr.okB).b("stackOK", stackOK));
}

// dyadic numbers (exact sums and products in double precision)
double dyadic(vt::Rng& rng, const int64_t den, const int64_t lo, const int64_t hi)
{
    return static_cast<double>(rng.range(lo * den, hi * den)) / static_cast<double>(den);
}

// a direction d with entries in {-1, 0, +1}
vector_t make_direction(vt::Rng& rng, const tensor_size_t n)
{
    vector_t d = vector_t::zero(n);
    for (tensor_size_t j = 0; j < n; ++j)
    {
        if (rng.coin())
        {
            d(j) = rng.coin() ? 1.0 : -1.0;
        }
    }
    if (d.lpNorm<1>() == 0.0)
    {
        d(rng.range(0, n - 1)) = rng.coin() ? 1.0 : -1.0;
    }
    return d;
}

// a matrix of dyadic numbers with M d = 0 exactly
matrix_t make_dyadic_orthogonal(vt::Rng& rng, const tensor_size_t rows, const vector_t& d)
{
    const auto    n    = d.size();
    tensor_size_t last = 0;
    for (tensor_size_t j = 0; j < n; ++j)
    {
        if (d(j) != 0.0)
        {
            last = j;
        }
    }
    matrix_t M(rows, n);
    for (tensor_size_t i = 0; i < rows; ++i)
    {
        double sum = 0.0;
        for (tensor_size_t j = 0; j < n; ++j)
        {
            M(i, j) = dyadic(rng, 16, -1, 1);
            if (j != last)
            {
                sum += M(i, j) * d(j);
            }
        }
        M(i, last) = -d(last) * sum;
    }
    return M;
}

// an unbounded program: the ray x0 + t d is feasible for all t >= 0 (G d < 0, A d = 0 exactly), Q d = 0 exactly, c.d < 0
kkt_program_t make_unbounded(vt::Rng& rng, const bool with_inequalities)
{
    kkt_program_t P;
    const auto    n = rng.range(1, 12);
    const auto    p = rng.range(0, std::max<int64_t>(0, n - 1));
    const auto    m = with_inequalities ? rng.range(1, 2 * n + 2) : 0;
    const auto    d = make_direction(rng, n);
    P.linear        = rng.coin(1, 3);
    if (P.linear)
    {
        P.Q = matrix_t::zero(n, n);
    }
    else
    {
        const auto D = make_dyadic_orthogonal(rng, rng.range(1, std::max<int64_t>(1, n - 1)), d);
        P.Q          = matrix_t(n, n);
        P.Q.matrix() = std::pow(2.0, static_cast<double>(rng.range(-6, 6))) * (D.matrix().transpose() * D.matrix());
    }
    P.xstar = rvec(rng, n, -2.0, 2.0); // a feasible point
    P.A     = make_dyadic_orthogonal(rng, p, d);
    P.b     = vector_t(p);
    if (p > 0)
    {
        P.b.vector() = P.A.matrix() * P.xstar.vector();
    }
    P.G = matrix_t(m, n);
    P.h = vector_t(m);
    for (tensor_size_t i = 0; i < m; ++i)
    {
        vector_t g;
        do
        {
            g = rvec(rng, n, -1.0, 1.0);
        } while (std::fabs(g.dot(d)) < 0.05);
        if (g.dot(d) > 0.0)
        {
            g.vector() = -g.vector();
        }
        P.G.matrix().row(i) = g.vector().transpose();
        P.h(i)              = g.dot(P.xstar) + rng.uniform(0.1, 2.0);
    }
    P.c = rvec(rng, n, -1.0, 1.0);
    P.c.vector() *= std::pow(10.0, rng.uniform(-2.0, 2.0));
    if (const auto cd = P.c.dot(d); cd > -0.05 * P.c.lpNorm<2>())
    {
        P.c.vector() -= ((cd + rng.uniform(0.1, 1.0) * std::max(P.c.lpNorm<2>(), 1e-2)) / d.dot(d)) * d.vector();
    }
    P.fstar = -std::numeric_limits<double>::infinity();
    return P;
}

// an infeasible program: the equalities are inconsistent (exactly: dyadic coefficients; one row is a multiple / a sum of other rows
// with another right-hand side), the inequalities alone are strictly feasible
kkt_program_t make_inconsistent(vt::Rng& rng, const bool with_inequalities)
{
    kkt_program_t P;
    const auto    n  = rng.range(3, 12);
    const auto    p0 = rng.range(1, n - 2);
    const auto    m  = with_inequalities ? rng.range(1, 2 * n + 2) : 0;
    P.linear         = rng.coin(1, 3);
    if (P.linear)
    {
        P.Q = matrix_t::zero(n, n);
    }
    else
    {
        const auto D = rmat(rng, rng.range(1, n), n, -1.0, 1.0);
        P.Q          = matrix_t(n, n);
        P.Q.matrix() = std::pow(10.0, rng.uniform(-2.0, 2.0)) * D.matrix().transpose() * D.matrix();
    }
    P.xstar = vector_t(n);
    for (tensor_size_t j = 0; j < n; ++j)
    {
        P.xstar(j) = dyadic(rng, 8, -2, 2);
    }
    P.A = matrix_t(p0 + 1, n);
    P.b = vector_t(p0 + 1);
    for (tensor_size_t i = 0; i < p0; ++i)
    {
        for (tensor_size_t j = 0; j < n; ++j)
        {
            P.A(i, j) = dyadic(rng, 16, -1, 1);
        }
        P.b(i) = P.A.matrix().row(i).dot(P.xstar.vector());
    }
    const auto delta = (rng.coin() ? 1.0 : -1.0) * dyadic(rng, 8, 1, 2);
    const auto i0    = rng.range(0, p0 - 1);
    if (p0 >= 2 && rng.coin())
    {
        const auto i1        = (i0 + rng.range(1, p0 - 1)) % p0;
        P.A.matrix().row(p0) = P.A.matrix().row(i0) + P.A.matrix().row(i1);
        P.b(p0)              = P.b(i0) + P.b(i1) + delta;
    }
    else
    {
        const auto s         = std::vector<double>{1.0, -1.0, 2.0, 0.5, -4.0}[static_cast<size_t>(rng.range(0, 4))];
        P.A.matrix().row(p0) = s * P.A.matrix().row(i0);
        P.b(p0)              = s * P.b(i0) + delta;
    }
    permute_rows(rng, P.A, P.b);
    P.G = rmat(rng, m, n, -1.0, 1.0);
    P.h = vector_t(m);
    for (tensor_size_t i = 0; i < m; ++i)
    {
        P.h(i) = P.G.matrix().row(i).dot(P.xstar.vector()) + rng.uniform(0.1, 2.0);
    }
    P.c = rvec(rng, n, -1.0, 1.0);
    P.c.vector() *= std::pow(10.0, rng.uniform(-2.0, 2.0));
    P.fstar = std::numeric_limits<double>::infinity();
    return P;
}

// a program without inequalities whose optimum is fixed by construction: Q x* + c + A'v = 0, A x* = b
kkt_program_t make_kkt_noineq(vt::Rng& rng, const bool linear)
{
    kkt_program_t P;
    const auto    n     = rng.range(linear ? 2 : 1, 12);
    const auto    p     = (!linear && rng.coin(1, 3)) ? 0 : rng.range(linear ? 1 : 0, std::max<int64_t>(0, n - 1)); // (unconstrained now and then)
    const auto    scale = std::pow(10.0, rng.uniform(-2.0, 2.0));
    P.linear            = linear;
    if (P.linear)
    {
        P.Q = matrix_t::zero(n, n);
    }
    else
    {
        // (mostly of a rank that makes the optimum unique: rank(Q) + p >= n)
        const auto D = rmat(rng, rng.coin(2, 3) ? rng.range(std::max<int64_t>(1, n - p), n) : rng.range(1, n), n, -1.0, 1.0);
        P.Q          = matrix_t(n, n);
        P.Q.matrix() = scale * D.matrix().transpose() * D.matrix();
    }
    P.xstar = rvec(rng, n, -2.0, 2.0);
    P.A     = rmat(rng, p, n, -1.0, 1.0);
    P.b     = vector_t(p);
    P.G     = matrix_t(0, n);
    P.h     = vector_t(0);
    P.u     = vector_t(0);
    P.v     = rvec(rng, p, -1.0, 1.0);
    P.v.vector() *= scale;
    P.c          = vector_t(n);
    P.c.vector() = -(P.Q.matrix() * P.xstar.vector());
    if (p > 0)
    {
        P.b.vector() = P.A.matrix() * P.xstar.vector();
        P.c.vector() -= P.A.matrix().transpose() * P.v.vector();
    }
    P.fstar = 0.5 * P.xstar.dot(P.Q.matrix() * P.xstar.vector()) + P.c.dot(P.xstar);
    return P;
}

// a program without inequalities as the caller states it: the equalities (if any) in one block, no block at all otherwise
program::solver_state_t solve_noineq(const kkt_program_t& P, const vector_t* x0)
{
    const auto solver = program::solver_t{};
    const auto eq     = program::make_equality(P.A, P.b);
    if (P.linear)
    {
        const auto program = P.A.rows() > 0 ? program::make_linear(P.c, eq) : program::linear_program_t{P.c};
        return x0 != nullptr ? solver.solve(program, *x0, make_null_logger()) : solver.solve(program, make_null_logger());
    }
    const auto program = P.A.rows() > 0 ? program::make_quadratic(P.Q, P.c, eq) : program::quadratic_program_t{P.Q, P.c};
    return x0 != nullptr ? solver.solve(program, *x0, make_null_logger()) : solver.solve(program, make_null_logger());
}

void put_kkt(int64_t icase, const char* family, const std::string& label, const kkt_program_t& P, const program::solver_state_t& state)
{
    const auto cl = check(P.Q, P.c, P.A, P.b, P.G, P.h, state, P.xstar, P.fstar);
    vt::put(vt::J("Kkt").i("case", icase).s("label", label).b("linear", P.linear).i("n", P.c.size()).i("p", P.A.rows()).i("m", P.G.rows()).s(
        "status", status_name(state.m_status)).i("iters", state.m_iters).b("eqOK", cl.eqOK).b("ineqOK", cl.ineqOK).b("objOK", cl.objOK).b("gapOK", cl.gapOK).s(
        "fam", family));
}

void noineq_case(vt::Rng& rng, int64_t icase)
{
    const auto    kind = rng.range(0, 7);
    kkt_program_t P;
    std::string   label = "optimal";
    if (kind <= 2)
    {
        P = make_kkt_noineq(rng, false);
    }
    else if (kind <= 4)
    {
        P = make_kkt_noineq(rng, true);
    }
    else if (kind == 5)
    {
        // a linear objective that is not a combination of the equality rows / a null direction of Q along which the objective decreases
        P     = make_unbounded(rng, false);
        label = "unbounded";
    }
    else if (kind == 6)
    {
        P     = make_kkt_noineq(rng, true);
        P.c   = rvec(rng, P.c.size(), -1.0, 1.0);
        label = "unbounded";
    }
    else
    {
        P     = make_inconsistent(rng, false);
        label = "infeasible";
    }
    const auto x0    = rvec(rng, P.c.size(), -3.0, 3.0);
    const auto state = solve_noineq(P, rng.coin() ? &x0 : nullptr);
    put_kkt(icase, "noineq", label, P, state);
}

void plant_case(vt::Rng& rng, int64_t icase)
{
    const auto kind = rng.range(0, 2);
    if (kind == 0)
    {
        const auto P = make_unbounded(rng, true);
        put_kkt(icase, "plant", "unbounded", P, solve(P));
    }
    else if (kind == 1)
    {
        const auto P = make_inconsistent(rng, true);
        put_kkt(icase, "plant", "infeasible", P, solve(P));
    }
    else
    {
        // an equality q.x = t together with the inequality q.x <= t - 1 (the other constraints hold at x*; at most n - 1 equalities)
        auto P = make_kkt(rng);
        while (P.c.size() < 2)
        {
            P = make_kkt(rng);
        }
        const auto n = P.c.size();
        const auto p = std::min(P.A.rows(), n - 2);
        const auto m = P.G.rows();
        const auto q = rvec(rng, n, -1.0, 1.0);
        matrix_t   A(p + 1, n), G(m + 1, n);
        vector_t   b(p + 1), h(m + 1);
        A.matrix().topRows(p) = P.A.matrix().topRows(p);
        b.vector().head(p)    = P.b.vector().head(p);
        A.matrix().row(p)     = q.vector().transpose();
        b(p)                  = q.dot(P.xstar);
        G.matrix().topRows(m) = P.G.matrix();
        h.vector().head(m)    = P.h.vector();
        G.matrix().row(m)     = q.vector().transpose();
        h(m)                  = q.dot(P.xstar) - 1.0;
        P.A                   = A;
        P.b                   = b;
        P.G                   = G;
        P.h                   = h;
        permute_rows(rng, P.A, P.b);
        permute_rows(rng, P.G, P.h);
        put_kkt(icase, "plant", "infeasible", P, solve(P));
    }
}

// a generic strictly interior user start, far from the optimum and off the equalities: the rows that would exclude the start are
// mirrored (active ones: -G_i x <= -h_i is active at x* as well) or relaxed (inactive ones), the objective is re-derived from the
// stationarity condition
void interior_case(vt::Rng& rng, int64_t icase)
{
    auto       P  = make_kkt(rng);
    const auto n  = P.c.size();
    vector_t   x0 = P.xstar;
    x0.vector() += rvec(rng, n, -1.0, 1.0).vector() * std::pow(10.0, rng.uniform(-0.5, 1.0));
    for (tensor_size_t i = 0; i < P.G.rows(); ++i)
    {
        const auto gx0 = P.G.matrix().row(i).dot(x0.vector());
        if (gx0 < P.h(i))
        {
            continue;
        }
        if (P.u(i) > 0.0)
        {
            P.G.matrix().row(i) *= -1.0;
            P.h(i) = -P.h(i);
        }
        else
        {
            P.h(i) = gx0 + rng.uniform(0.1, 2.0);
        }
    }
    P.c.vector() = -(P.Q.matrix() * P.xstar.vector()) - P.G.matrix().transpose() * P.u.vector();
    if (P.A.rows() > 0)
    {
        P.c.vector() -= P.A.matrix().transpose() * P.v.vector();
    }
    P.fstar            = 0.5 * P.xstar.dot(P.Q.matrix() * P.xstar.vector()) + P.c.dot(P.xstar);
    const auto strict  = (P.G.matrix() * x0.vector() - P.h.vector()).maxCoeff() < 0.0;
    const auto offeq   = P.A.rows() == 0 || (P.A.matrix() * x0.vector() - P.b.vector()).lpNorm<Eigen::Infinity>() > 1e-3;
    const auto state   = solve(P, &x0);
    put_kkt(icase, "interior", strict ? (offeq ? "interior" : "optimal") : "badstart", P, state);
}

void extra_case(vt::Rng& rng, int64_t icase, int64_t index)
{
    switch (index % 6)
    {
    case 0: rowperm_case(rng, icase); break;
    case 1: blocks_case(rng, icase); break;
    case 2: noineq_case(rng, icase); break;
    case 3: plant_case(rng, icase); break;
    case 4: interior_case(rng, icase); break;
    default: noineq_case(rng, icase); break;
    }
}
} // namespace

int main(int argc, char* argv[])
{
    if (argc < 6)
    {
        std::fprintf(stderr, "usage: program_driver <out.ndjson> <seed> <small-cases> <kkt-cases> <pair-cases> [<extra-cases>]\n");
        return 2;
    }
    vt::Trace::get().open(argv[1]);
    vt::Rng    rng(static_cast<uint64_t>(std::atoll(argv[2])));
    const auto ns = std::atoll(argv[3]), nk = std::atoll(argv[4]), np = std::atoll(argv[5]), nx = argc > 6 ? std::atoll(argv[6]) : 0LL;
    int64_t    icase = 0;
    for (int64_t i = 0; i < ns; ++i)
    {
        small_case(rng, icase++);
    }
    for (int64_t i = 0; i < nk; ++i)
    {
        kkt_case(rng, icase++);
    }
    for (int64_t i = 0; i < np; ++i)
    {
        pair_case(rng, icase++);
    }
    for (int64_t i = 0; i < nx; ++i)
    {
        extra_case(rng, icase++, i);
    }
    vt::put(vt::J("Kkt").i("case", -1).s("label", "end").b("linear", true).i("n", 0).i("p", 0).i("m", 0).s("status", "max_iters").i("iters", 0).b("eqOK", true).b(
        "ineqOK", true).b("objOK", true).b("gapOK", true));
    return 0;
}
