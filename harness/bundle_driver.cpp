// C03 conformance driver: (a) step sequences on a real bundle_t in one dimension with integer piecewise-linear objectives,
// (b) RQB / FPBA1 / FPBA2 / ellipsoid on sharp objectives with a known minimum.
//   bundle_driver <out.ndjson> <seed> <bundle-cases> <sharp-cases>
#include "counting.h"
#include "objectives.h"
#include <nano/core/verif.h>
#include <nano/solver.h>
#include <sstream>
#include <nano/solver/bundle.h>

using namespace nano;

namespace
{
// f(z) = sum_k a_k |z - b_k| in one dimension
class pwl1d_t final : public function_t
{
public:
    pwl1d_t(std::vector<int64_t> a, std::vector<int64_t> b)
        : function_t("verif-pwl1d", 1)
        , m_a(std::move(a))
        , m_b(std::move(b))
    {
        convex(convexity::yes);
        smooth(smoothness::no);
    }

    rfunction_t clone() const override { return std::make_unique<pwl1d_t>(*this); }

    scalar_t do_vgrad(vector_cmap_t x, vector_map_t gx) const override
    {
        double f = 0, g = 0;
        for (size_t k = 0; k < m_a.size(); ++k)
        {
            const auto d = x(0) - static_cast<double>(m_b[k]);
            f += static_cast<double>(m_a[k]) * std::fabs(d);
            g += static_cast<double>(m_a[k]) * (d >= 0.0 ? +1.0 : -1.0); // the code's convention: sign(0) = +1
        }
        if (gx.size() == 1)
        {
            gx(0) = g;
        }
        return f;
    }

    std::vector<int64_t> m_a, m_b;
};

// f(x) = |A (x - x*)|_p + (mu / 2) |x - x*|^2, p in {1, inf}
class sharp_t final : public function_t
{
public:
    sharp_t(matrix_t A, vector_t xstar, bool linf, scalar_t mu)
        : function_t("verif-sharp", xstar.size())
        , m_A(std::move(A))
        , m_xstar(std::move(xstar))
        , m_linf(linf)
        , m_mu(mu)
    {
        convex(convexity::yes);
        smooth(smoothness::no);
    }

    rfunction_t clone() const override { return std::make_unique<sharp_t>(*this); }

    scalar_t do_vgrad(vector_cmap_t x, vector_map_t gx) const override
    {
        const vector_t z = x.vector() - m_xstar.vector();
        const vector_t v = m_A.matrix() * z.vector();
        double         f = 0;
        vector_t       w = vector_t::zero(v.size());
        if (m_linf)
        {
            tensor_size_t k = 0;
            for (tensor_size_t i = 1; i < v.size(); ++i)
            {
                if (std::fabs(v(i)) > std::fabs(v(k)))
                {
                    k = i;
                }
            }
            f    = std::fabs(v(k));
            w(k) = v(k) >= 0.0 ? +1.0 : -1.0;
        }
        else
        {
            for (tensor_size_t i = 0; i < v.size(); ++i)
            {
                f += std::fabs(v(i));
                w(i) = v(i) >= 0.0 ? +1.0 : -1.0;
            }
        }
        if (gx.size() == x.size())
        {
            gx = m_A.matrix().transpose() * w.vector() + m_mu * z.vector();
        }
        return f + 0.5 * m_mu * z.dot(z);
    }

    matrix_t m_A;
    vector_t m_xstar;
    bool     m_linf;
    scalar_t m_mu;
};

matrix_t random_orthogonal(vt::Rng& rng, int64_t n)
{
    matrix_t Q(n, n);
    for (tensor_size_t i = 0; i < Q.size(); ++i)
    {
        Q(i) = rng.uniform(-1.0, 1.0);
    }
    for (tensor_size_t c = 0; c < n; ++c)
    {
        for (tensor_size_t p = 0; p < c; ++p)
        {
            const auto dot = Q.matrix().col(c).dot(Q.matrix().col(p));
            Q.matrix().col(c) -= dot * Q.matrix().col(p);
        }
        const auto norm = Q.matrix().col(c).norm();
        if (norm < 1e-8)
        {
            Q.matrix().col(c).setZero();
            Q(c, c) = 1.0;
            --c;
            continue;
        }
        Q.matrix().col(c) /= norm;
    }
    return Q;
}

void bundle_case(vt::Rng& rng, int64_t icase)
{
    std::vector<int64_t> a, b;
    for (int64_t k = 0, m = rng.range(1, 4); k < m; ++k)
    {
        a.push_back(rng.range(1, 3));
        b.push_back(rng.range(-4, 4));
    }
    pwl1d_t    function(a, b);
    const auto x0       = static_cast<double>(rng.range(-6, 6));
    const auto max_size = rng.pick(std::vector<int64_t>{2, 3, 4, 6, 20, 100});
    auto       state    = solver_state_t{function, make_vector<scalar_t>(x0)};
    auto       bundle   = bundle_t{state, max_size};

    const auto cuts_of = [&](bool& exact)
    {
        std::vector<std::vector<int64_t>> cuts;
        for (tensor_size_t i = 0; i < bundle.size(); ++i)
        {
            int64_t s = 0, e = 0;
            exact = vt::to_lattice(bundle.verif_bundleS()(i, 0), 1.0, s) && exact;
            exact = vt::to_lattice(bundle.verif_bundleE()(i), 1.0, e) && exact;
            cuts.push_back({s, e});
        }
        return cuts;
    };
    bool exact = true;
    vt::put(vt::J("BInit").i("case", icase).a("as", a).a("bs", b).i("x", static_cast<int64_t>(bundle.x()(0))).i("fx", static_cast<int64_t>(bundle.fx())).aa(
        "cuts", cuts_of(exact)).i("size", bundle.size()).i("cap", bundle.verif_capacity()));
    const auto steps = rng.range(1, 14);
    for (int64_t k = 0; k < steps; ++k)
    {
        // as the solvers do: solve the bundle problem (sets the multipliers the deletion rules read), then a step
        bundle.solve(std::pow(2.0, static_cast<double>(rng.range(-3, 3))), make_null_logger());
        const auto y  = make_vector<scalar_t>(static_cast<double>(rng.range(-6, 6)));
        vector_t   gy(1);
        const auto fy      = function.vgrad(y, gy);
        const auto serious = fy < bundle.fx() ? rng.coin(2, 3) : false;
        // when the bundle is (nearly) full the largest-error cuts are replaced by their aggregation: a convex combination of
        // cuts, in general not an integer cut and never "a previous cut": then only the lower-bound test applies
        const auto maybe_aggregated = bundle.size() + 1 >= bundle.verif_capacity();
        if (serious)
        {
            bundle.moveto(y, gy, fy);
        }
        else
        {
            bundle.append(y, gy, fy);
        }
        exact = true;
        const auto cuts = cuts_of(exact);
        const auto integral = exact;
        exact = exact && !maybe_aggregated;
        // real-valued check of the actual cuts (also valid when aggregation made them non-integer)
        bool lbOK = true, errOK = true;
        for (tensor_size_t i = 0; i < bundle.size(); ++i)
        {
            const auto s = bundle.verif_bundleS()(i, 0), e = bundle.verif_bundleE()(i);
            errOK        = errOK && e >= -1e-9;
            for (int z = -8; z <= 8; ++z)
            {
                vector_t gz(1);
                const auto fz = function.vgrad(make_vector<scalar_t>(static_cast<double>(z)), gz);
                lbOK          = lbOK && fz >= bundle.fx() + s * (static_cast<double>(z) - bundle.x()(0)) - e - 1e-9 * (1.0 + std::fabs(fz));
            }
        }
        vt::J j("BStep");
        j.s("kind", serious ? "serious" : "null").i("y", static_cast<int64_t>(y(0))).i("fy", static_cast<int64_t>(fy)).i("gy", static_cast<int64_t>(gy(0)));
        j.i("x", static_cast<int64_t>(bundle.x()(0))).i("fx", static_cast<int64_t>(bundle.fx())).i("size", bundle.size()).i("cap", bundle.verif_capacity());
        j.b("exact", exact).b("lbOK", lbOK).b("errOK", errOK);
        if (integral)
        {
            j.aa("cuts", cuts);
        }
        else
        {
            j.aa("cuts", std::vector<std::vector<int64_t>>(static_cast<size_t>(bundle.size()), std::vector<int64_t>{0, 0}));
        }
        vt::put(j);
        if (!integral)
        {
            break; // after an aggregation the cuts are real-valued: the exact replay of this case ends here
        }
    }
}

// observer of the cutting plane model inside the bundle solvers (hook after every update of bundle_t): every stored cut must be a
// lower bound of the (convex) objective - tested at the minimiser and at a few probe points -, with a non-negative linearisation
// error, and the bundle must stay below its capacity (the invariants of Bundle.tla / BundleSize.tla on the real solver runs)
struct model_watch_t
{
    std::vector<vector_t> m_points;
    std::vector<double>   m_values;
    int64_t               m_updates{0}, m_firstbad{-1};
    bool                  m_cutsOK{true}, m_errsOK{true}, m_sizeOK{true};
    double                m_worst{0.0};
    // the largest |f| evaluated so far: the linearisation errors are differences of such values (with proximity parameters near the ends of
    // their domains the trial points are 1e5 and more away), so their rounding error is a few ulp of THAT magnitude, not of |f(x)|
    const vt::counting_function_t* m_counting{nullptr};
    size_t                m_seen{0};
    double                m_maxf{0.0};
};
model_watch_t* g_watch = nullptr;

void watch_bundle(const char*, const void* object)
{
    if (g_watch == nullptr)
    {
        return;
    }
    auto&       w      = *g_watch;
    const auto& bundle = *static_cast<const bundle_t*>(object);
    ++w.m_updates;
    for (; w.m_counting != nullptr && w.m_seen < w.m_counting->evals().size(); ++w.m_seen)
    {
        const auto f = std::fabs(w.m_counting->evals()[w.m_seen].f);
        w.m_maxf     = std::isfinite(f) ? std::max(w.m_maxf, f) : w.m_maxf;
    }
    w.m_sizeOK = w.m_sizeOK && bundle.size() >= 1 && bundle.size() < bundle.verif_capacity();
    if (!std::isfinite(bundle.fx()))
    {
        // a run that diverged until the objective overflowed (seen with proximity parameters near the ends of their domains: the momentum
        // step of FPBA moves the bundle to a point with a non-finite value, the solver then stops with `failed`): the cuts are NaN, the
        // model invariants say nothing about them
        return;
    }
    for (tensor_size_t i = 0; i < bundle.size(); ++i)
    {
        const auto s = bundle.verif_bundleS().vector(i);
        const auto e = bundle.verif_bundleE()(i);
        w.m_errsOK   = w.m_errsOK && e >= -1e-9 * (1.0 + std::fabs(bundle.fx())) - 2e-14 * w.m_maxf;
        for (size_t k = 0; k < w.m_points.size(); ++k)
        {
            const auto lin   = s.dot(w.m_points[k].vector() - bundle.x().vector());
            const auto lower = bundle.fx() + lin - e;
            const auto tol   = 1e-8 * (1.0 + std::fabs(bundle.fx()) + std::fabs(lin) + std::fabs(e) + std::fabs(w.m_values[k])) + 2e-14 * w.m_maxf;
            if (lower > w.m_values[k] + tol)
            {
                w.m_cutsOK   = false;
                w.m_worst    = std::max(w.m_worst, lower - w.m_values[k]);
                w.m_firstbad = w.m_firstbad < 0 ? w.m_updates : w.m_firstbad;
            }
        }
    }
}

void sharp_case(vt::Rng& rng, int64_t icase, bool small_bundle = false)
{
    // small_bundle: the lower end of the bundle sizes (aggregation at nearly every step), bundle solvers only
    const auto id = small_bundle ? rng.pick(std::vector<std::string>{"rqb", "fpba1", "fpba2", "fpba2"}) : rng.pick(std::vector<std::string>{"rqb", "fpba1", "fpba2", "ellipsoid"});
    const auto n  = rng.range(1, 8);
    matrix_t   A(n, n);
    const auto wide = rng.coin(1, 4);
    {
        const auto Q1 = random_orthogonal(rng, n), Q2 = random_orthogonal(rng, n);
        vector_t   d(n);
        for (tensor_size_t i = 0; i < n; ++i)
        {
            d(i) = (i == 0) ? 1.0 : std::pow(10.0, rng.uniform(0.0, wide ? 2.5 : 0.7)); // smallest singular value >= 1, no upper bound
        }
        A.matrix() = Q1.matrix() * d.vector().asDiagonal() * Q2.matrix().transpose();
    }
    const auto xstar = vt::random_x0(rng, n, 3.0);
    const auto linf  = rng.coin();
    const auto mu    = rng.coin() ? 0.0 : rng.uniform(0.1, 2.0);
    sharp_t    function(A, xstar, linf, mu);
    // x0 within distance 4 of x*
    auto       dir = vt::random_x0(rng, n, 1.0);
    const auto nrm = std::max(1e-6, dir.lpNorm<2>());
    // x0 within distance 4 of x*: anywhere, also warm starts very close to the minimiser
    const auto     dist0 = rng.coin(1, 10) ? rng.pick(std::vector<double>{0.0, 4.0}) : rng.coin(1, 4) ? std::pow(10.0, rng.uniform(-7.0, -2.0)) : rng.uniform(0.01, 4.0);
    const vector_t x0    = xstar.vector() + dir.vector() * (dist0 / nrm);

    auto       solver = solver_t::all().get(id);
    const auto eps    = std::pow(10.0, rng.uniform(-8.0, -3.0));
    int64_t    shaken = 0, pairs = 0; // number of curve-search / proximity parameters drawn (pair parameters among them)
    const auto evals  = id == "ellipsoid" ? int64_t{20000} : (rng.coin(1, 3) ? rng.pick(std::vector<int64_t>{100, 20000}) : static_cast<int64_t>(std::pow(10.0, rng.uniform(2.0, 4.3))));
    solver->parameter("solver::epsilon")   = eps;
    solver->parameter("solver::max_evals") = evals;
    if (id != "ellipsoid")
    {
        solver->parameter("solver::" + id + "::bundle::max_size") =
            small_bundle ? rng.range(2, 6) : rng.coin(1, 3) ? rng.pick(std::vector<int64_t>{2, 3, 100}) : rng.range(2, 100);
        // curve-search / proximity parameters inside their domains (within a factor 4 of the defaults)
        if (rng.coin())
        {
            for (const auto& p0 : solver->parameters())
            {
                const auto& name = p0.name();
                if ((name.find("csearch") == std::string::npos && name.find("prox") == std::string::npos) || !rng.coin())
                {
                    continue;
                }
                if (const auto* r = std::get_if<parameter_t::frange_t>(&p0.storage()); r != nullptr)
                {
                    auto v = r->m_value * std::pow(4.0, rng.uniform(-1.0, 1.0));
                    if (rng.coin(1, 3))
                    {
                        // anywhere in the declared (open) domain, towards its ends: uniform if the domain is short, log-uniform otherwise
                        const auto lo = r->m_min, hi = r->m_max;
                        v = (hi - lo <= 100.0 && lo >= 1.0) ? lo + (hi - lo) * std::pow(10.0, rng.uniform(-3.0, -0.005))
                          : (hi <= 1.0)                     ? (rng.coin() ? lo + (hi - lo) * rng.uniform(0.01, 0.99) : lo + (hi - lo) * std::pow(10.0, rng.uniform(-16.0, -0.005)))
                                                            : lo + std::pow(10.0, rng.uniform(-6.0, std::log10(hi - lo) - 0.005));
                    }
                    if (std::isfinite(v) && v > r->m_min && v < r->m_max)
                    {
                        solver->parameter(name) = v;
                        shaken += 1;
                    }
                }
                // the pair parameters: csearch::m1m2 (0 < m1 < m2 < 1) and prox::miu0_range (0 < min < max < 1e6)
                if (const auto* r = std::get_if<parameter_t::fprange_t>(&p0.storage()); r != nullptr)
                {
                    double v1 = 0, v2 = 0;
                    if (r->m_max <= 1.0)
                    {
                        v1 = r->m_min + (r->m_max - r->m_min) * (rng.coin(1, 4) ? std::pow(10.0, rng.uniform(-6.0, -0.3)) : rng.uniform(0.01, 0.98));
                        v2 = v1 + (r->m_max - v1) * (rng.coin(1, 4) ? rng.pick(std::vector<double>{1e-3, 0.999}) : rng.uniform(0.02, 0.98));
                    }
                    else
                    {
                        const auto top = std::log10(r->m_max - r->m_min) - 0.005;
                        v1 = r->m_min + std::pow(10.0, rng.uniform(-6.0, top - 0.01));
                        v2 = rng.coin(1, 4) ? v1 * (1.0 + std::pow(10.0, rng.uniform(-6.0, -1.0))) : r->m_min + std::pow(10.0, rng.uniform(std::log10(v1 - r->m_min), top));
                    }
                    if (std::isfinite(v1) && std::isfinite(v2) && r->m_min < v1 && v1 < v2 && v2 < r->m_max)
                    {
                        solver->parameter(name) = std::make_tuple(v1, v2);
                        shaken += 1;
                        pairs += 1;
                    }
                }
            }
        }
    }
    else
    {
        // the ellipsoid's initial radius: x* must lie inside it
        solver->parameter("solver::ellipsoid::R") = rng.coin() ? 10.0 : std::max(1e-3, dist0) * std::pow(10.0, rng.uniform(0.01, 1.5));
    }
    vt::counting_function_t counting(function);
    solver_state_t          state;
    model_watch_t           watch;
    watch.m_points.push_back(xstar);
    watch.m_points.push_back(x0);
    for (int k = 0; k < 4; ++k)
    {
        vector_t z = xstar.vector() + vt::random_x0(rng, n, k < 2 ? 0.01 : 5.0).vector();
        watch.m_points.push_back(z);
    }
    for (const auto& z : watch.m_points)
    {
        watch.m_values.push_back(function.vgrad(z));
    }
    watch.m_counting = &counting;
    g_watch          = &watch;
    try
    {
        state = solver->minimize(counting, x0, make_null_logger());
    }
    catch (const std::exception& e)
    {
        g_watch = nullptr;
        vt::put(vt::J("Abort").s("why", e.what()).i("case", icase));
        return;
    }
    g_watch = nullptr;
    const auto status = state.status() == solver_status::converged ? "converged" : state.status() == solver_status::failed ? "failed" : "max_iters";
    // gap recomputed from the driver's own objective (f* = 0 at x*)
    const auto gap   = function.vgrad(state.x());
    const auto dist  = (state.x() - xstar).lpNorm<2>();
    // (+ the rounding of the evaluations themselves: with a tiny proximity parameter the trial points lie 1e5..1e7 away, the linearisation
    // errors are differences of values of that size and the certificate cannot be more accurate than a few ulp of the largest |f| seen)
    double maxf = 0.0;
    for (const auto& ev : counting.evals())
    {
        maxf = std::isfinite(ev.f) ? std::max(maxf, std::fabs(ev.f)) : maxf;
    }
    const auto bound = (id == "ellipsoid" ? 10.0 * eps : 2.0 * eps * std::sqrt(static_cast<double>(n)) * (1.0 + dist)) + 1e-13 * maxf;
    if (std::getenv("VERIF_DEBUG") != nullptr && state.status() == solver_status::converged && !(gap <= bound))
    {
        std::fprintf(stderr, "case %lld %s n=%d gap=%.6g bound=%.6g dist=%.6g eps=%.6g maxf=%.6g evals=%lld\n", static_cast<long long>(icase), id.c_str(), static_cast<int>(n), gap, bound, dist, eps, maxf,
                     static_cast<long long>(counting.evals().size()));
        for (const auto& p : solver->parameters())
        {
            std::ostringstream os;
            os << p;
            std::fprintf(stderr, "    %s\n", os.str().c_str());
        }
    }
    int64_t    nF = static_cast<int64_t>(counting.evals().size()), nG = 0;
    for (const auto& e : counting.evals())
    {
        nG += e.grad ? 1 : 0;
    }
    vt::put(vt::J("Sharp").i("case", icase).s("solver", id).i("n", n).s("status", status).b("gapOK", gap <= bound).b("mustConverge", id == "ellipsoid" && n <= 6).i(
        "evals", nF + nG).b("linf", linf).i("eps_e12", static_cast<int64_t>(std::llround(eps * 1e12))).i(
        "dist_e6", static_cast<int64_t>(std::llround(dist0 * 1e6))).i("updates", watch.m_updates).b("cutsOK", watch.m_cutsOK).b("errsOK", watch.m_errsOK).b(
        "sizeOK", watch.m_sizeOK).i("firstbad", watch.m_firstbad).i("worst_e6", static_cast<int64_t>(std::llround(std::min(watch.m_worst, 1e3) * 1e6))).i(
        "shaken", shaken).i("pairs", pairs));
}

// the recorded finding (known_findings.json, C03): with epsilon <= 1e-7 and a start very close to the minimiser the ellipsoid method
// can report `converged` with a gap above 10 epsilon (its matrix degenerates numerically); one fixed instance, run in every check
void known_ellipsoid_case(int64_t icase)
{
    const tensor_size_t n = 3;
    matrix_t            A = matrix_t::identity(n, n);
    vector_t            xstar(n), x0(n);
    xstar(0) = 0x1.a3871a73c634cp+0;
    xstar(1) = -0x1.0e1ba95985fb2p+0;
    xstar(2) = -0x1.74d6e30b4ac02p+0;
    x0(0)    = 0x1.a3875928f637fp+0;
    x0(1)    = -0x1.0e1be88259fap+0;
    x0(2)    = -0x1.74d771433d138p+0;
    sharp_t    function(A, xstar, false, 0.0);
    const auto eps    = 1e-8;
    auto       solver = solver_t::all().get("ellipsoid");
    solver->parameter("solver::epsilon")   = eps;
    solver->parameter("solver::max_evals") = 20000;
    vt::counting_function_t counting(function);
    const auto              state  = solver->minimize(counting, x0, make_null_logger());
    const auto              status = state.status() == solver_status::converged ? "converged" : state.status() == solver_status::failed ? "failed" : "max_iters";
    const auto              gap    = function.vgrad(state.x());
    vt::put(vt::J("Sharp").i("case", icase).s("solver", "ellipsoid").i("n", n).s("status", status).b("gapOK", gap <= 10.0 * eps).b("mustConverge", true).i(
        "evals", static_cast<int64_t>(counting.evals().size())).b("linf", false).i("eps_e12", 10000).i("dist_e6", static_cast<int64_t>(std::llround((x0 - xstar).lpNorm<2>() * 1e6))).i(
        "updates", 0).b("cutsOK", true).b("errsOK", true).b("sizeOK", true).i("firstbad", -1).i("worst_e6", 0));
}
} // namespace

int main(int argc, char* argv[])
{
    if (argc < 5)
    {
        std::fprintf(stderr, "usage: bundle_driver <out.ndjson> <seed> <bundle-cases> <sharp-cases>\n");
        return 2;
    }
    vt::Trace::get().open(argv[1]);
    vt::Rng    rng(static_cast<uint64_t>(std::atoll(argv[2])));
    const auto nb = std::atoll(argv[3]), ns = std::atoll(argv[4]), nsmall = argc > 5 ? std::atoll(argv[5]) : 0;
    ::nano::verif::object_sink().store(&watch_bundle);
    for (int64_t i = 0; i < nb; ++i)
    {
        bundle_case(rng, i);
    }
    for (int64_t i = 0; i < ns; ++i)
    {
        sharp_case(rng, nb + i);
    }
    for (int64_t i = 0; i < nsmall; ++i)
    {
        sharp_case(rng, nb + ns + i, true);
    }
    known_ellipsoid_case(-2);
    vt::put(vt::J("Sharp").i("case", -1).s("solver", "end").i("n", 0).s("status", "max_iters").b("gapOK", true).b("mustConverge", false).i("evals", 0).b(
        "linf", false).i("updates", 0).b("cutsOK", true).b("errsOK", true).b("sizeOK", true));
    return 0;
}
