// C07 conformance driver: runs the five line-search strategies from random states along random directions with a counting
// wrapper around the objective; records Search / Trial / LsRet events for LineSearchTrace.tla.
//   lsearch_driver <out.ndjson> <seed> <cases>
#include "counting.h"
#include "objectives.h"
#include <nano/lsearchk.h>
#include <nano/solver/state.h>

using namespace nano;

namespace
{
// randomly re-configure the strategy inside its parameter domains; returns true if anything changed
bool shake(lsearchk_t& ls, vt::Rng& rng)
{
    bool changed = false;
    for (const auto& param0 : ls.parameters())
    {
        const auto& name = param0.name();
        if (name == "lsearchk::tolerance" || !rng.coin(1, 2))
        {
            continue;
        }
        auto& param = ls.parameter(name);
        std::visit(overloaded{[&](const parameter_t::irange_t&)
                              {
                                  param   = rng.pick(std::vector<int64_t>{1, 2, 3, 5, 10, 40, 128, 1000, 10000});
                                  changed = true;
                              },
                              [&](const parameter_t::frange_t& r)
                              {
                                  const auto lo = std::max(r.m_min, r.m_value / 8.0), hi = std::min(r.m_max, r.m_value * 8.0 + 1e-3);
                                  const auto v  = lo + rng.uniform(0.02, 0.98) * (hi - lo);
                                  if (v > r.m_min && v < r.m_max)
                                  {
                                      param   = v;
                                      changed = true;
                                  }
                              },
                              [&](const parameter_t::fprange_t& r)
                              {
                                  const auto v1 = r.m_min + rng.uniform(0.05, 0.95) * (r.m_value2 - r.m_min);
                                  const auto v2 = v1 + rng.uniform(0.05, 0.95) * (r.m_max - v1);
                                  if (r.m_min < v1 && v1 < v2 && v2 <= r.m_max)
                                  {
                                      try
                                      {
                                          param   = std::make_tuple(v1, v2);
                                          changed = true;
                                      }
                                      catch (const std::exception&)
                                      {
                                      }
                                  }
                              },
                              [&](const parameter_t::enum_t& e)
                              {
                                  param   = e.m_domain[static_cast<size_t>(rng.range(0, static_cast<int64_t>(e.m_domain.size()) - 1))];
                                  changed = true;
                              },
                              [&](const auto&) {}},
                   param0.storage());
    }
    return changed;
}

// the wrapped objective inside a ball, +inf or NaN (with a NaN gradient) outside: a function with a bounded domain, as the solvers meet them
// (log / sqrt terms, overflow); trial steps that leave the ball produce invalid states
class barrier_t final : public function_t
{
public:
    explicit barrier_t(const function_t& inner)
        : function_t("verif-barrier", inner.size())
        , m_inner(inner)
    {
        convex(inner.convex() ? convexity::yes : convexity::no);
        smooth(inner.smooth() ? smoothness::yes : smoothness::no);
    }

    rfunction_t clone() const override { return std::make_unique<barrier_t>(*this); }

    void set(vector_t center, double radius, bool nan)
    {
        m_center = std::move(center);
        m_radius = radius;
        m_nan    = nan;
    }

    scalar_t do_vgrad(vector_cmap_t x, vector_map_t gx) const override
    {
        if (m_center.size() == x.size() && (x.vector() - m_center.vector()).norm() > m_radius)
        {
            if (gx.size() == x.size())
            {
                gx.full(std::nan(""));
            }
            return m_nan ? std::nan("") : HUGE_VAL;
        }
        return m_inner.vgrad(x, gx);
    }

private:
    const function_t& m_inner;
    vector_t          m_center;
    double            m_radius{HUGE_VAL};
    bool              m_nan{false};
};

double absdot(const vector_t& a, const vector_t& b)
{
    double s = 0;
    for (tensor_size_t i = 0; i < a.size(); ++i)
    {
        s += std::fabs(a(i) * b(i));
    }
    return s;
}
} // namespace

int main(int argc, char* argv[])
{
    if (argc < 4)
    {
        std::fprintf(stderr, "usage: lsearch_driver <out.ndjson> <seed> <cases>\n");
        return 2;
    }
    vt::Trace::get().open(argv[1]);
    vt::Rng    rng(static_cast<uint64_t>(std::atoll(argv[2])));
    const auto cases = std::atoll(argv[3]);

    function_t::config_t config;
    config.m_min_dims   = 1;
    config.m_max_dims   = 16;
    config.m_summands   = 20;
    config.m_smoothness = smoothness::yes;
    auto functions = function_t::make(config);
    // (function_t::make only instantiates dims 1, 2, 3, 4, 8, 16: add the other dimensions)
    for (const auto& fid : function_t::all().ids())
    {
        try
        {
            auto f = function_t::all().get(fid)->make(rng.range(1, 16), rng.range(5, 40));
            if (f && f->smooth())
            {
                functions.push_back(std::move(f));
            }
        }
        catch (const std::exception&)
        {
        }
    }
    const auto ids       = lsearchk_t::all().ids();
    constexpr auto eps   = std::numeric_limits<double>::epsilon();

    for (int64_t icase = 0; icase < cases; ++icase)
    {
        const auto& id = ids[static_cast<size_t>(icase % static_cast<int64_t>(ids.size()))];
        auto        ls = lsearchk_t::all().get(id);
        const auto  quadratic = rng.coin(1, 3);
        bool        defaults  = true;
        double      c1 = 1e-4, c2 = 0.1;
        // the tolerance pairs the solvers install themselves: (1e-4, 0.9) (lbfgs, quasi-Newton) and (0.1, 0.9) (gd), strategy parameters at
        // their defaults
        const auto installed = rng.coin(1, 6);
        if (installed)
        {
            std::tie(c1, c2) = rng.coin() ? std::make_tuple(1e-4, 0.9) : std::make_tuple(0.1, 0.9);
            ls->parameter("lsearchk::tolerance") = std::make_tuple(c1, c2);
        }
        else if (!(quadratic && rng.coin(2, 3)))
        {
            c1 = rng.coin(1, 6) ? rng.uniform(0.4, 0.99) : std::pow(10.0, rng.uniform(-8.0, -0.4));
            c2 = c1 + (1.0 - c1) * (rng.coin(1, 6) ? rng.pick(std::vector<double>{1e-3, 0.999}) : rng.uniform(0.02, 0.98));
            ls->parameter("lsearchk::tolerance") = std::make_tuple(c1, c2);
            defaults = false;
            if (shake(*ls, rng))
            {
                defaults = false;
            }
        }
        std::tie(c1, c2) = ls->parameter("lsearchk::tolerance").value_pair<scalar_t>();

        std::unique_ptr<function_t> own;
        const function_t*           inner = nullptr;
        vt::quad_info_t             qinfo;
        if (quadratic)
        {
            own   = vt::make_quadratic(rng, rng.range(1, 16), qinfo);
            inner = own.get();
        }
        else
        {
            inner = functions[static_cast<size_t>(rng.range(0, static_cast<int64_t>(functions.size()) - 1))].get();
        }
        const auto n = inner->size();
        // extreme: 0 = none; 1 = the objective is +inf / NaN outside a ball around x (radius relative to the first trial step: the initial
        // step, or a later extrapolation, leaves the domain); 2 = a direction 1e-15..1e-9 times the gradient (the first trials do not change
        // the value); only the general clauses apply to these searches
        const int extreme = rng.coin(1, 5) ? static_cast<int>(rng.range(1, 2)) : 0;
        barrier_t barrier(*inner);
        vt::counting_function_t function(extreme == 1 ? static_cast<const function_t&>(barrier) : *inner);
        const auto radius = std::pow(10.0, quadratic ? rng.uniform(-1.0, 1.0) : rng.uniform(-2.0, 3.0));
        const auto x0     = vt::random_x0(rng, n, radius);

        solver_state_t state(function, x0);
        if (!state.valid() || state.gx().lpNorm<Eigen::Infinity>() < 1e-12)
        {
            continue;
        }
        const auto state0 = state;
        // direction: perturbed negative gradient, quasi-Newton-like -Hg, or a non-descent one
        vector_t   d    = -state.gx();
        const auto kind = rng.range(0, 9);
        if (kind <= 3)
        {
            for (tensor_size_t i = 0; i < n; ++i)
            {
                d(i) *= rng.uniform(0.5, 1.5);
            }
        }
        else if (kind <= 6)
        {
            // H = I + sum of a few rank-one terms (SPD)
            vector_t hd = d;
            for (int k = 0; k < 3; ++k)
            {
                const auto u = vt::random_x0(rng, n, 1.0);
                hd.vector() += u.vector() * (u.dot(d) * rng.uniform(0.0, 2.0));
            }
            d = hd;
        }
        else if (kind == 7)
        {
            d = state.gx(); // ascent
        }
        else if (kind == 8 && n >= 2)
        {
            // orthogonal to the gradient: dg = 0 (not a descent direction)
            d        = vector_t::zero(n);
            d(0)     = state.gx()(1);
            d(1)     = -state.gx()(0);
        }
        d.vector() *= std::pow(10.0, extreme == 2 ? rng.uniform(-15.0, -9.0) : rng.uniform(-2.0, 2.0));
        const auto dg0     = state.gx().dot(d);
        const auto descent = dg0 < 0.0;
        const auto t0      = rng.coin(1, 10) ? rng.pick(std::vector<double>{std::nan(""), HUGE_VAL, -HUGE_VAL, 0.0, -1.0}) : std::pow(10.0, rng.uniform(-3.0, 3.0));
        const auto defaults_run = defaults && extreme == 0 && kind <= 6 && std::isfinite(t0) && t0 <= 10.0 && t0 >= 1e-2;
        if (extreme == 1)
        {
            const auto tfirst = std::isfinite(t0) ? std::clamp(t0, 10.0 * eps, 1.0) : 1.0;
            barrier.set(x0, tfirst * d.lpNorm<2>() * std::pow(10.0, rng.coin(1, 4) ? rng.uniform(0.0, 1.5) : rng.uniform(-3.0, 0.0)), rng.coin());
        }

        vt::put(vt::J("Search").i("case", icase).s("algo", id).b("descent", descent).b("quadratic", quadratic && extreme != 1).b("defaults", defaults_run).s(
            "function", inner->name()).i("extreme", extreme).b("installed", installed));
        const auto nbefore = function.evals().size();
        bool       ok = false;
        double     t  = 0;
        try
        {
            std::tie(ok, t) = ls->get(state, d, t0, make_null_logger());
        }
        catch (const std::exception& e)
        {
            vt::put(vt::J("Abort").s("why", e.what()));
            continue;
        }
        const auto& evals = function.evals();
        const auto& e0    = evals.front();
        int64_t     rid   = 0;
        const vector_t xt = state0.x() + t * d;
        for (size_t i = nbefore; i < evals.size(); ++i)
        {
            const auto& e = evals[i];
            // step length of this trial along d (the accepted one uses the returned t)
            const vector_t dx = e.x - e0.x;
            const auto tk     = dx.dot(d) / d.dot(d);
            const auto slackf = 64.0 * eps * std::max({std::fabs(e0.f), std::fabs(e.f), std::fabs(tk * c1 * dg0)});
            const auto dgk    = e.grad ? e.g.dot(d) : std::nan("");
            const auto slackg = e.grad ? 64.0 * eps * (absdot(e.g, d) + absdot(e0.g, d)) : 0.0;
            const auto is_ret = vt::same_bits(e.x, xt);
            const auto tt     = is_ret ? t : tk;
            const auto armijo = e.f <= e0.f + tt * c1 * dg0 + slackf;
            const auto wolfe  = e.grad && dgk >= c2 * dg0 - slackg;
            const auto swolfe = e.grad && std::fabs(dgk) <= c2 * std::fabs(dg0) + slackg;
            // approximate Wolfe of CG_DESCENT: (2 c1 - 1) dg0 >= dgk >= c2 dg0 (its value condition f <= f0 + epsilon_k is internal)
            const auto awolfe2 = e.grad && (2.0 * c1 - 1.0) * dg0 >= dgk - slackg && dgk >= c2 * dg0 - slackg;
            vt::put(vt::J("Trial").i("id", static_cast<int64_t>(i) + 1).b("finite", std::isfinite(e.f) && (!e.grad || vt::all_finite(e.g))).b("armijo", armijo).b(
                "wolfe", wolfe).b("swolfe", swolfe).b("awolfe", awolfe2));
            if (is_ret && vt::same_bits(e.f, state.fx()) && e.grad && vt::same_bits(e.g, state.gx()))
            {
                rid = static_cast<int64_t>(i) + 1;
            }
        }
        const auto untouched = vt::same_bits(state.x(), state0.x()) && vt::same_bits(state.fx(), state0.fx()) && vt::same_bits(state.gx(), state0.gx()) &&
                               evals.size() == nbefore;
        vt::put(vt::J("LsRet").b("ok", ok).i("id", rid).b("tOK", std::isfinite(t) && t > 0.0).b("stateOK", rid > 0).b("untouched", untouched));
    }
    vt::put(vt::J("Search").i("case", -1).s("algo", "end").b("descent", true).b("quadratic", false).b("defaults", false).s("function", ""));
    return 0;
}
