// C10 conformance driver: (a) RSS fits of stump / hinge / affine / dense-table / dstep-table on small integer datasets, recorded
// with the data for a brute-force search by TLC (WeakLearner.tla; the tables over single-label and multi-label features); (b) the
// algebraic consistency clauses for all weak learners (predictions / groups also for sub-lists, unsorted and repeated sample lists;
// trees also on >= 100 samples where the minimum node size matters).
//   wlearner_driver <out.ndjson> <seed> <exact-cases> <algebra-cases>
#include "tabledata.h"
#include <nano/dataset.h>
#include <nano/generator/elemwise_identity.h>
#include <nano/wlearner.h>
#include <nano/wlearner/dtree.h>
#include <nano/wlearner/single.h>
#include <nano/wlearner/util.h>

using namespace nano;

namespace
{
constexpr int64_t Missing = -999;

struct data_t
{
    std::unique_ptr<vt::table_datasource_t> source;
    std::unique_ptr<dataset_t>              dataset;
    int64_t                                 n{0}, tsize{1};
};

data_t make_data(vt::Rng& rng, int64_t n, int64_t nscalar, int64_t nsclass, int64_t nmclass, int64_t tsize, int64_t vrange, bool missing, int64_t maxclasses = 4)
{
    data_t D;
    D.n     = n;
    D.tsize = tsize;
    std::vector<vt::column_t> columns;
    int64_t                   id = 0;
    for (int64_t c = 0; c < nscalar; ++c)
    {
        auto col = vt::make_scalar_column("f" + std::to_string(id++), rng.coin() ? feature_type::int16 : feature_type::float64, n);
        for (int64_t s = 0; s < n; ++s)
        {
            col.flat[static_cast<size_t>(s)]    = static_cast<double>(rng.range(-vrange, vrange));
            col.missing[static_cast<size_t>(s)] = static_cast<char>(missing && rng.coin(1, 6));
        }
        columns.push_back(col);
    }
    for (int64_t c = 0; c < nsclass; ++c)
    {
        const auto classes = rng.range(1, maxclasses);
        auto       col     = vt::make_sclass_column("f" + std::to_string(id++), classes, n);
        for (int64_t s = 0; s < n; ++s)
        {
            col.flat[static_cast<size_t>(s)]    = static_cast<double>(rng.range(0, classes - 1));
            col.missing[static_cast<size_t>(s)] = static_cast<char>(missing && rng.coin(1, 6));
        }
        columns.push_back(col);
    }
    for (int64_t c = 0; c < nmclass; ++c)
    {
        const auto classes = rng.range(1, std::max<int64_t>(3, maxclasses - 2));
        auto       col     = vt::make_mclass_column("f" + std::to_string(id++), classes, n);
        for (auto& v : col.flat)
        {
            v = static_cast<double>(rng.range(0, 1));
        }
        for (int64_t s = 0; s < n; ++s)
        {
            col.missing[static_cast<size_t>(s)] = static_cast<char>(missing && rng.coin(1, 6));
        }
        columns.push_back(col);
    }
    auto target = tsize == 1 ? vt::make_scalar_column("y", feature_type::float64, n) : vt::make_struct_column("y", feature_type::float64, make_dims(tsize, 1, 1), n);
    columns.push_back(target);
    D.source = std::make_unique<vt::table_datasource_t>(n, columns, columns.size() - 1U);
    D.source->load();
    D.dataset = std::make_unique<dataset_t>(*D.source, static_cast<size_t>(rng.range(1, 16)));
    D.dataset->add<sclass_identity_generator_t>();
    D.dataset->add<mclass_identity_generator_t>();
    D.dataset->add<scalar_identity_generator_t>();
    D.dataset->add<struct_identity_generator_t>();
    return D;
}

tensor4d_t make_gradients(vt::Rng& rng, const data_t& D, bool integer)
{
    tensor4d_t g(cat_dims(D.n, D.dataset->target_dims()));
    for (tensor_size_t i = 0; i < g.size(); ++i)
    {
        g(i) = integer ? static_cast<double>(rng.range(-4, 4)) : rng.uniform(-2.0, 2.0);
    }
    return g;
}

indices_t make_positions(vt::Rng& rng, int64_t n, int64_t minsize, int64_t maxsize)
{
    if (rng.coin(1, 3))
    {
        return arange(0, n);
    }
    indices_t pos(rng.range(std::min(minsize, maxsize), maxsize));
    for (auto& p : pos)
    {
        p = rng.range(0, n - 1);
    }
    if (rng.coin())
    {
        std::sort(pos.begin(), pos.end());
    }
    return pos;
}

void exact_case(vt::Rng& rng, int64_t icase)
{
    const auto n     = rng.range(2, 12);
    const auto kind  = rng.pick(std::vector<std::string>{"stump", "hinge", "affine", "dense-table", "dstep-table"});
    const auto table = kind == "dense-table" || kind == "dstep-table";
    // tables: single-label and multi-label features (at least one of them); a multi-label value is the set of its labels
    const auto nsclass = table ? rng.range(0, 2) : rng.range(0, 1);
    const auto nmclass = table ? rng.range(nsclass == 0 ? 1 : 0, 2) : 0;
    const auto D       = make_data(rng, n, table ? rng.range(0, 1) : rng.range(1, 3), nsclass, nmclass, rng.range(1, 2), 3, true);
    const auto g     = make_gradients(rng, D, true);
    const auto pos   = make_positions(rng, n, 2, 12);

    auto wlearner = wlearner_t::all().get(kind);
    wlearner->parameter("wlearner::criterion") = "rss";
    const auto score  = wlearner->fit(*D.dataset, pos, g);
    const auto fitted = std::isfinite(score) && score != wlearner_t::no_fit_score();

    // the features as the dataset presents them (order of the generated features)
    std::vector<std::vector<int64_t>> X;
    std::string                       kinds = "[";
    for (tensor_size_t f = 0; f < D.dataset->features(); ++f)
    {
        const auto feature = D.dataset->feature(f);
        const auto col     = static_cast<size_t>(std::atoll(feature.name().c_str() + 1));
        const auto& column = D.source->columns()[col];
        std::vector<int64_t> values;
        for (int64_t s = 0; s < n; ++s)
        {
            if (column.missing[static_cast<size_t>(s)] != 0)
            {
                values.push_back(Missing);
            }
            else if (feature.is_mclass())
            {
                // the label set as a bit mask
                int64_t mask = 0;
                for (int64_t k = 0; k < column.width; ++k)
                {
                    mask += column.at(s, k) != 0.0 ? (int64_t{1} << k) : 0;
                }
                values.push_back(mask);
            }
            else
            {
                values.push_back(static_cast<int64_t>(column.at(s)));
            }
        }
        X.push_back(values);
        kinds += std::string(f ? "," : "") + (feature.is_sclass() ? "\"sclass\"" : feature.is_mclass() ? "\"mclass\"" : "\"scalar\"");
    }
    kinds += "]";
    std::vector<std::vector<int64_t>> R;
    for (int64_t s = 0; s < n; ++s)
    {
        std::vector<int64_t> r;
        for (int64_t k = 0; k < D.tsize; ++k)
        {
            r.push_back(static_cast<int64_t>(g.tensor(s)(k)));
        }
        R.push_back(r);
    }
    bool predOK = true;
    if (fitted)
    {
        const auto pred = wlearner->predict(*D.dataset, pos);
        double     rss  = 0;
        for (tensor_size_t i = 0; i < pos.size(); ++i)
        {
            for (int64_t k = 0; k < D.tsize; ++k)
            {
                const auto d = g.tensor(pos(i))(k) + pred.tensor(i)(k); // the learners fit the residuals -g
                rss += d * d;
            }
        }
        predOK = std::fabs(rss - score) <= 1e-9 * (1.0 + std::fabs(score));
    }
    vt::put(vt::J("WFit").i("case", icase).s("kind", kind).aa("X", X).raw("kinds", kinds).aa("R", R).a("pos", std::vector<int64_t>(pos.begin(), pos.end())).b(
        "fitted", fitted).i("score1000", fitted ? std::llround(score * 1000.0) : 0).b("predOK", predOK));
}

bool close(const tensor4d_t& a, const tensor4d_t& b, double tol = 1e-12)
{
    if (a.dims() != b.dims())
    {
        return false;
    }
    for (tensor_size_t i = 0; i < a.size(); ++i)
    {
        if (!(a(i) == b(i) || std::fabs(a(i) - b(i)) <= tol * (1.0 + std::fabs(a(i)) + std::fabs(b(i)))))
        {
            return false;
        }
    }
    return true;
}

const tensor4d_t* tables_of(const wlearner_t& w)
{
    if (const auto* s = dynamic_cast<const single_feature_wlearner_t*>(&w); s != nullptr)
    {
        return &s->tables();
    }
    if (const auto* d = dynamic_cast<const dtree_wlearner_t*>(&w); d != nullptr)
    {
        return &d->tables();
    }
    return nullptr;
}

void algebra_case(vt::Rng& rng, int64_t icase)
{
    const auto kind = rng.pick(std::vector<std::string>{"affine", "hinge", "stump", "dense-table", "kbest-table", "ksplit-table", "dstep-table", "dtree"});
    // trees stop splitting nodes with less than min(10, samples * min_split / 100) samples: that needs >= 100 samples to matter
    const auto large = kind == "dtree" && rng.coin(1, 2);
    const auto n     = large ? rng.range(100, 200) : rng.range(2, 60);
    const auto crit = rng.pick(std::vector<std::string>{"rss", "aic", "aicc", "bic"});
    const auto scalar_only = kind == "dtree" && !large && rng.coin();
    // 1..8 features: scalar, categorical with 1..6 classes, multi-label
    const auto D = make_data(rng, n, rng.range(1, 4), scalar_only ? 0 : rng.range(0, 3), scalar_only ? 0 : rng.range(0, 2), rng.range(1, 3), rng.coin() ? 3 : 50,
                             true, 6);
    const auto g   = make_gradients(rng, D, rng.coin());
    const auto pos = make_positions(rng, n, 2, 60);

    auto wlearner = wlearner_t::all().get(kind);
    wlearner->parameter("wlearner::criterion") = crit;
    if (kind == "dtree")
    {
        wlearner->parameter("wlearner::dtree::max_depth") = scalar_only ? 1 : large ? rng.range(2, 4) : rng.range(1, 4);
        wlearner->parameter("wlearner::dtree::min_split") = large ? rng.range(1, 10) : rng.range(1, 3);
    }
    const auto score = wlearner->fit(*D.dataset, pos, g);
    if (!std::isfinite(score) || score == wlearner_t::no_fit_score())
    {
        return;
    }
    const auto& dataset = *D.dataset;
    const auto  all     = arange(0, n);
    const auto  base    = wlearner->predict(dataset, all);

    // predictions are added to the given outputs
    tensor4d_t outputs(cat_dims(n, dataset.target_dims()));
    for (tensor_size_t i = 0; i < outputs.size(); ++i)
    {
        outputs(i) = static_cast<double>(rng.range(-5, 5));
    }
    const auto before = outputs;
    wlearner->predict(dataset, all, outputs.tensor());
    tensor4d_t delta(outputs.dims());
    delta.vector() = outputs.vector() - before.vector();
    const auto addsOK = close(delta, base, 1e-11);

    // zero for samples whose selected feature(s) are all missing
    bool       missingZeroOK = true;
    const auto features      = wlearner->features();
    for (int64_t s = 0; s < n; ++s)
    {
        bool all_missing = features.size() > 0;
        for (const auto f : features)
        {
            const auto col = static_cast<size_t>(std::atoll(dataset.feature(f).name().c_str() + 1));
            all_missing    = all_missing && D.source->columns()[col].missing[static_cast<size_t>(s)] != 0;
        }
        if (all_missing)
        {
            for (tensor_size_t k = 0; k < base.tensor(s).size(); ++k)
            {
                missingZeroOK = missingZeroOK && base.tensor(s)(k) == 0.0;
            }
        }
    }
    // depends only on the sample: permuted / duplicated sample lists
    bool sampleOnlyOK = true;
    {
        indices_t list(rng.range(1, 2 * n));
        for (auto& s : list)
        {
            s = rng.range(0, n - 1);
        }
        const auto pred = wlearner->predict(dataset, list);
        for (tensor_size_t i = 0; i < list.size(); ++i)
        {
            for (tensor_size_t k = 0; k < pred.tensor(i).size(); ++k)
            {
                sampleOnlyOK = sampleOnlyOK && pred.tensor(i)(k) == base.tensor(list(i))(k);
            }
        }
    }
    // the group reported by split(): its table is the prediction (table-like learners); a group iff the feature is given
    bool        splitOK = true;
    const auto  cluster = wlearner->split(dataset, all);
    const auto* tables  = tables_of(*wlearner);
    const auto  tablelike = kind == "stump" || kind == "dtree" || kind.find("table") != std::string::npos;
    for (int64_t s = 0; s < n && tables != nullptr; ++s)
    {
        const auto group = cluster.group(s);
        if (group >= 0 && tablelike)
        {
            splitOK = splitOK && group < tables->size<0>();
            for (tensor_size_t k = 0; splitOK && k < base.tensor(s).size(); ++k)
            {
                splitOK = base.tensor(s)(k) == tables->tensor(group)(k);
            }
        }
        else if (group < 0)
        {
            for (tensor_size_t k = 0; k < base.tensor(s).size(); ++k)
            {
                splitOK = splitOK && base.tensor(s)(k) == 0.0;
            }
        }
    }
    // the same two clauses for lists that are not 0..n-1: strict subsets, any order, with repetitions
    bool addsListOK = true, splitListOK = true;
    {
        indices_t list(rng.range(1, rng.coin() ? n : 2 * n));
        for (auto& s : list)
        {
            s = rng.range(0, n - 1);
        }
        if (rng.coin())
        {
            // without repetitions
            std::sort(list.begin(), list.end());
            const auto size = static_cast<tensor_size_t>(std::unique(list.begin(), list.end()) - list.begin());
            indices_t  unique(size);
            std::copy(list.begin(), list.begin() + size, unique.begin());
            for (tensor_size_t i = size; i > 1; --i)
            {
                std::swap(unique(i - 1), unique(rng.range(0, i - 1)));
            }
            list = unique;
        }
        // predictions are added to the given outputs: row i belongs to sample list(i)
        tensor4d_t outs(cat_dims(list.size(), dataset.target_dims()));
        for (tensor_size_t i = 0; i < outs.size(); ++i)
        {
            outs(i) = static_cast<double>(rng.range(-5, 5));
        }
        const auto outs0 = outs;
        wlearner->predict(dataset, list, outs.tensor());
        for (tensor_size_t i = 0; i < list.size(); ++i)
        {
            for (tensor_size_t k = 0; k < base.tensor(list(i)).size(); ++k)
            {
                const auto added    = outs.tensor(i)(k) - outs0.tensor(i)(k);
                const auto expected = base.tensor(list(i))(k);
                addsListOK          = addsListOK && std::fabs(added - expected) <= 1e-11 * (1.0 + std::fabs(added) + std::fabs(expected));
            }
        }
        // split(list): only listed samples get a group, only when the selected feature is given (always then for the learners that
        // predict for every given value); the prediction is the table of the group, zero without a group
        const auto        sub = wlearner->split(dataset, list);
        std::vector<char> listed(static_cast<size_t>(n), 0);
        for (const auto s : list)
        {
            listed[static_cast<size_t>(s)] = 1;
        }
        const auto single = dynamic_cast<const single_feature_wlearner_t*>(wlearner.get()) != nullptr;
        splitListOK       = sub.samples() == n;
        for (int64_t s = 0; s < n && splitListOK; ++s)
        {
            const auto group = sub.group(s);
            bool       given = true;
            for (const auto f : features)
            {
                const auto col = static_cast<size_t>(std::atoll(dataset.feature(f).name().c_str() + 1));
                given          = given && D.source->columns()[col].missing[static_cast<size_t>(s)] == 0;
            }
            if (listed[static_cast<size_t>(s)] == 0)
            {
                splitListOK = group < 0;
                continue;
            }
            if (single)
            {
                splitListOK = splitListOK && (group < 0 || given);
                if (kind == "stump" || kind == "affine")
                {
                    splitListOK = splitListOK && (group >= 0) == given;
                }
            }
            if (group >= 0 && tablelike && tables != nullptr)
            {
                splitListOK = splitListOK && group < tables->size<0>();
                for (tensor_size_t k = 0; splitListOK && k < base.tensor(s).size(); ++k)
                {
                    splitListOK = base.tensor(s)(k) == tables->tensor(group)(k);
                }
            }
            else if (group < 0)
            {
                for (tensor_size_t k = 0; k < base.tensor(s).size(); ++k)
                {
                    splitListOK = splitListOK && base.tensor(s)(k) == 0.0;
                }
            }
        }
    }
    // scale(s) multiplies the predictions by s (per group for the table-like learners)
    bool scaleOK = true;
    {
        auto       scaled = wlearner->clone();
        const auto groups = (tablelike && tables != nullptr && rng.coin()) ? tables->size<0>() : tensor_size_t{1};
        vector_t   s(groups);
        for (tensor_size_t i = 0; i < groups; ++i)
        {
            s(i) = static_cast<double>(rng.range(0, 8)) / 4.0;
        }
        scaled->scale(s);
        const auto pred = scaled->predict(dataset, all);
        for (int64_t i = 0; i < n; ++i)
        {
            const auto group  = cluster.group(i);
            const auto factor = groups == 1 ? s(0) : (group >= 0 ? s(std::min<tensor_size_t>(group, groups - 1)) : 0.0);
            for (tensor_size_t k = 0; k < base.tensor(i).size(); ++k)
            {
                const auto expected = base.tensor(i)(k) * factor;
                scaleOK = scaleOK && std::fabs(pred.tensor(i)(k) - expected) <= 1e-12 * (1.0 + std::fabs(expected));
            }
        }
    }
    // merging a list of learners leaves the sum of their predictions unchanged
    bool mergeOK = true;
    {
        rwlearners_t list;
        tensor4d_t   sum(cat_dims(n, dataset.target_dims()));
        sum.zero();
        const auto kinds = std::vector<std::string>{kind, kind, rng.pick(std::vector<std::string>{"affine", "stump", "dense-table", "hinge"}), kind};
        for (const auto& k : kinds)
        {
            auto       w  = wlearner_t::all().get(k);
            w->parameter("wlearner::criterion") = crit;
            const auto gk = make_gradients(rng, D, false);
            const auto sc = w->fit(dataset, rng.coin() ? pos : all, rng.coin() ? g : gk);
            if (std::isfinite(sc) && sc != wlearner_t::no_fit_score())
            {
                w->predict(dataset, all, sum.tensor());
                list.push_back(std::move(w));
            }
        }
        wlearner::merge(list);
        tensor4d_t merged(sum.dims());
        merged.zero();
        for (const auto& w : list)
        {
            w->predict(dataset, all, merged.tensor());
        }
        mergeOK = close(merged, sum, 1e-10);
    }
    // a tree of depth 1 over scalar features is a stump
    bool tree1OK = true;
    if (kind == "dtree" && scalar_only)
    {
        auto stump = wlearner_t::all().get("stump");
        stump->parameter("wlearner::criterion") = crit;
        auto tree = wlearner_t::all().get("dtree");
        tree->parameter("wlearner::criterion")       = crit;
        tree->parameter("wlearner::dtree::max_depth") = 1;
        tree->parameter("wlearner::dtree::min_split") = 1;
        const auto s1 = stump->fit(dataset, pos, g);
        const auto s2 = tree->fit(dataset, pos, g);
        const auto f1 = std::isfinite(s1) && s1 != wlearner_t::no_fit_score(), f2 = std::isfinite(s2) && s2 != wlearner_t::no_fit_score();
        tree1OK       = f1 == f2 && (!f1 || close(stump->predict(dataset, all), tree->predict(dataset, all), 1e-12));
    }
    vt::put(vt::J("WAlg").i("case", icase).s("kind", kind).s("criterion", crit).i("n", n).b("addsOK", addsOK).b("missingZeroOK", missingZeroOK).b(
        "sampleOnlyOK", sampleOnlyOK).b("splitOK", splitOK).b("scaleOK", scaleOK).b("mergeOK", mergeOK).b("tree1OK", tree1OK).b("addsListOK", addsListOK).b("splitListOK", splitListOK));
}
} // namespace

int main(int argc, char* argv[])
{
    if (argc < 5)
    {
        std::fprintf(stderr, "usage: wlearner_driver <out.ndjson> <seed> <exact-cases> <algebra-cases>\n");
        return 2;
    }
    vt::Trace::get().open(argv[1]);
    vt::Rng    rng(static_cast<uint64_t>(std::atoll(argv[2])));
    const auto ne = std::atoll(argv[3]), na = std::atoll(argv[4]);
    for (int64_t i = 0; i < ne; ++i)
    {
        try
        {
            exact_case(rng, i);
        }
        catch (const std::exception& e)
        {
            vt::put(vt::J("Abort").s("why", e.what()).i("case", i));
        }
    }
    for (int64_t i = 0; i < na; ++i)
    {
        try
        {
            algebra_case(rng, ne + i);
        }
        catch (const std::exception& e)
        {
            vt::put(vt::J("Abort").s("why", e.what()).i("case", ne + i));
        }
    }
    vt::put(vt::J("WAlg").i("case", -1).s("kind", "end").s("criterion", "").i("n", 0).b("addsOK", true).b("missingZeroOK", true).b("sampleOnlyOK", true).b(
        "splitOK", true).b("scaleOK", true).b("mergeOK", true).b("tree1OK", true).b("addsListOK", true).b("splitListOK", true));
    return 0;
}
