// X01 conformance driver (outside the listed properties): command line processing - cmdline_t::add / process, cmdresult_t::has /
// has_value / get, cmdconfig_t::setup and the report of unused extras at destruction. Random call sequences; every call is logged with
// its arguments and the full projected result, validated by TLC against spec/cmdline/CmdlineTrace.tla (actions of Cmdline.tla).
// usage: cmdline_driver <out.ndjson> <seed> <cases>
#include "trace.h"
#include <nano/configurable.h>
#include <nano/core/cmdline.h>
#include <sstream>

using namespace nano;

namespace
{
const std::vector<std::string> valid_names{"-a", "--aa", "-b", "--bb", "--p", "-p", "-q", "--q", "-n", "--nn", "-1", "--x-y"};
const std::vector<std::string> invalid_names{"x", "--", "-", "---x", "p", "1"};
const std::vector<std::string> values{"1", "7", "z", "hello"};
const std::string              none = "<none>";

struct object_t final : public configurable_t
{
    object_t()
    {
        register_parameter(parameter_t::make_integer("p", 0, LE, 0, LE, 10));
        register_parameter(parameter_t::make_string("q", "dflt"));
    }
};

std::string quote(const std::string& s)
{
    return "\"" + s + "\"";
}

std::string list_of(const std::vector<std::string>& v)
{
    std::string out = "[";
    for (size_t i = 0; i < v.size(); ++i)
    {
        out += (i > 0 ? "," : "") + quote(v[i]);
    }
    return out + "]";
}

void one_case(vt::Rng& rng, int64_t icase)
{
    cmdline_t                cmdline("title");
    std::vector<std::string> registered{"-h", "--help", "-v", "--version", "-g", "--git-hash"};
    vt::put(vt::J("Reset").i("case", icase));

    // ---- registrations (a rejected one fails at its FIRST keyword: see the note in Cmdline.tla)
    const auto nadds = rng.range(0, 4);
    for (int64_t k = 0; k < nadds; ++k)
    {
        std::vector<std::string> keys;
        const auto               fail = rng.coin(1, 4);
        if (fail)
        {
            keys.push_back(rng.coin() ? rng.pick(invalid_names) : rng.pick(registered));
            if (rng.coin())
            {
                keys.push_back(rng.pick(valid_names));
            }
        }
        else
        {
            const auto nkeys = rng.range(1, 3);
            for (int64_t q = 0; q < nkeys; ++q)
            {
                const auto name = rng.pick(valid_names);
                if (std::find(registered.begin(), registered.end(), name) == registered.end() && std::find(keys.begin(), keys.end(), name) == keys.end())
                {
                    keys.push_back(name);
                }
            }
            if (keys.empty())
            {
                continue;
            }
        }
        const auto  with_default = rng.coin();
        const auto  def          = with_default ? rng.pick(values) : none;
        std::string joined;
        for (const auto& key : keys)
        {
            joined += (joined.empty() ? "" : ",") + key;
        }
        bool threw = false;
        try
        {
            if (with_default)
            {
                cmdline.add(joined, "description", def);
            }
            else
            {
                cmdline.add(joined, "description");
            }
            registered.insert(registered.end(), keys.begin(), keys.end());
        }
        catch (const std::exception&)
        {
            threw = true;
        }
        vt::put(vt::J("Add").raw("keys", list_of(keys)).s("def", def).s("outcome", threw ? "threw" : "ok"));
    }

    // ---- processing, queries, setup of a configurable object, report of the unused extras
    const auto nruns = rng.range(1, 3);
    object_t   object;
    for (int64_t run = 0; run < nruns; ++run)
    {
        std::vector<std::string> tokens;
        const auto               ntokens = rng.range(0, 7);
        bool                     p_seen = false, q_seen = false;
        for (int64_t k = 0; k < ntokens; ++k)
        {
            const auto kind = rng.range(0, 9);
            if (kind <= 4)
            {
                auto name = rng.coin() ? rng.pick(valid_names) : rng.pick(registered);
                // (two spellings of one parameter of the object in one command line: the order of the two assignments is unspecified)
                const auto is_p = name == "-p" || name == "--p", is_q = name == "-q" || name == "--q";
                if ((is_p && p_seen) || (is_q && q_seen))
                {
                    name = "-n";
                }
                p_seen = p_seen || is_p;
                q_seen = q_seen || is_q;
                tokens.push_back(name);
            }
            else
            {
                // the value after a spelling of the integer parameter must be one the parameter accepts (else setup throws half-way)
                const auto after_p = !tokens.empty() && (tokens.back() == "-p" || tokens.back() == "--p") &&
                                     std::find(registered.begin(), registered.end(), tokens.back()) == registered.end();
                tokens.push_back(after_p ? rng.pick(std::vector<std::string>{"1", "7"}) : kind <= 8 ? rng.pick(values) : rng.pick(invalid_names));
            }
        }
        std::vector<const char*> argv{"program"};
        for (const auto& token : tokens)
        {
            argv.push_back(token.c_str());
        }
        cmdresult_t result;
        bool        threw = false;
        try
        {
            result = rng.coin() ? cmdline.process(static_cast<int>(argv.size()), argv.data()) : [&]
            {
                std::string config;
                for (const auto& token : tokens)
                {
                    config += (config.empty() ? "" : (rng.coin() ? " " : " \t\n")) + token;
                }
                return cmdline.process(config);
            }();
        }
        catch (const std::exception&)
        {
            threw = true;
        }
        vt::J j("Process");
        j.raw("tokens", list_of(tokens)).s("outcome", threw ? "threw" : "ok");
        if (!threw)
        {
            // the full projected result: every name of the universe
            std::string res = "[";
            auto        universe = valid_names;
            universe.insert(universe.end(), {"-h", "--help", "-v", "--version", "-g", "--git-hash", "x", "--"});
            bool first = true;
            for (const auto& name : universe)
            {
                std::string got = "threw";
                try
                {
                    got = result.get(name);
                }
                catch (const std::exception&)
                {
                }
                res += std::string(first ? "" : ",") + "{\"n\":" + quote(name) + ",\"has\":" + (result.has(name) ? "true" : "false") +
                       ",\"hv\":" + (result.has_value(name) ? "true" : "false") + ",\"get\":" + quote(got) + "}";
                first = false;
            }
            j.raw("res", res + "]");
        }
        else
        {
            j.raw("res", "[]");
        }
        vt::put(j);
        if (threw)
        {
            continue;
        }
        std::ostringstream warnings;
        {
            cmdconfig_t config(result, make_stream_logger(warnings));
            const auto  nsetups = rng.range(0, 2);
            for (int64_t k = 0; k < nsetups; ++k)
            {
                bool sthrew = false;
                try
                {
                    config.setup(object);
                }
                catch (const std::exception&)
                {
                    sthrew = true;
                }
                vt::put(vt::J("Setup").s("outcome", sthrew ? "threw" : "ok").s("p", std::to_string(object.parameter("p").value<int64_t>())).s(
                    "q", object.parameter("q").value<string_t>()));
            }
        }
        // ~cmdconfig_t logged: parameter 'NAME' was not used.
        std::vector<std::string> unused;
        const auto               text = warnings.str();
        for (size_t at = text.find("parameter '"); at != std::string::npos; at = text.find("parameter '", at + 1))
        {
            const auto begin = at + 11, end = text.find('\'', begin);
            unused.push_back(text.substr(begin, end - begin));
        }
        std::sort(unused.begin(), unused.end());
        vt::put(vt::J("Unused").raw("names", list_of(unused)));
    }
}
} // namespace

int main(int argc, char* argv[])
{
    if (argc < 4)
    {
        std::fprintf(stderr, "usage: cmdline_driver <out.ndjson> <seed> <cases>\n");
        return 2;
    }
    vt::Trace::get().open(argv[1]);
    vt::Rng    rng(static_cast<uint64_t>(std::atoll(argv[2])));
    const auto cases = std::atoll(argv[3]);
    for (int64_t i = 0; i < cases; ++i)
    {
        one_case(rng, i);
    }
    vt::put(vt::J("Reset").i("case", -1));
    return 0;
}
