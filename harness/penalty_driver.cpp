// C05 conformance driver: (a) evaluations of the three penalty functions on the integer lattice for re-computation by TLC,
// (b) runs of the penalty / augmented-Lagrangian solvers on random constrained problems with the return contract recomputed.
//   penalty_driver <out.ndjson> <seed> <lattice-cases> <solver-cases>
#include "counting.h"
#include "objectives.h"
#include <nano/function/penalty.h>
#include <nano/function/program.h>
#include <optional>
#include <nano/solver/augmented.h>
#include <nano/solver/penalty.h>

using namespace nano;

namespace
{
// f(x) = sum a_i x_i^2 + b . x
class intquad_t final : public function_t
{
public:
    intquad_t(vector_t a, vector_t b)
        : function_t("verif-intquad", a.size())
        , m_a(std::move(a))
        , m_b(std::move(b))
    {
        convex(m_a.min() >= 0.0 ? convexity::yes : convexity::no);
        smooth(smoothness::yes);
    }

    rfunction_t clone() const override { return std::make_unique<intquad_t>(*this); }

    scalar_t do_vgrad(vector_cmap_t x, vector_map_t gx) const override
    {
        if (gx.size() == x.size())
        {
            gx = 2.0 * m_a.array() * x.array() + m_b.array();
        }
        return (m_a.array() * x.array() * x.array()).sum() + m_b.dot(x);
    }

    vector_t m_a, m_b;
};

// c(x) = sum x_i^2 + q . x + r  (functional constraints)
class poly_t final : public function_t
{
public:
    poly_t(vector_t q, scalar_t r)
        : function_t("verif-poly", q.size())
        , m_q(std::move(q))
        , m_r(r)
    {
        convex(convexity::yes);
        smooth(smoothness::yes);
    }

    rfunction_t clone() const override { return std::make_unique<poly_t>(*this); }

    scalar_t do_vgrad(vector_cmap_t x, vector_map_t gx) const override
    {
        if (gx.size() == x.size())
        {
            gx = 2.0 * x.array() + m_q.array();
        }
        return x.dot(x) + m_q.dot(x) + m_r;
    }

    vector_t m_q;
    scalar_t m_r;
};

vector_t ivec(vt::Rng& rng, int64_t n, int64_t lo, int64_t hi)
{
    vector_t v(n);
    for (tensor_size_t i = 0; i < n; ++i)
    {
        v(i) = static_cast<double>(rng.range(lo, hi));
    }
    return v;
}

std::vector<int64_t> ints(const vector_t& v, bool& exact, double scale = 1.0)
{
    std::vector<int64_t> out;
    for (tensor_size_t i = 0; i < v.size(); ++i)
    {
        int64_t k = 0;
        if (!vt::to_lattice(v(i), scale, k))
        {
            exact = false;
        }
        out.push_back(k);
    }
    return out;
}

int64_t int1(double v, bool& exact, double scale = 1.0)
{
    int64_t k = 0;
    if (!vt::to_lattice(v, scale, k))
    {
        exact = false;
    }
    return k;
}

std::string jvec(const std::vector<int64_t>& v)
{
    std::string s = "[";
    for (size_t i = 0; i < v.size(); ++i)
    {
        s += (i ? "," : "") + std::to_string(v[i]);
    }
    return s + "]";
}

// evaluations of the three penalty functions of `function` = (objective sum a_i x_i^2 + b . x, constraints `cs` as stated by the driver) at
// lattice points, for re-computation by TLC (Penalty.tla)
void lattice_evals(vt::Rng& rng, int64_t icase, const function_t& function, const vector_t& a, const vector_t& b, const std::string& cs, bool exact)
{
    const auto n     = function.size();
    const auto ncons = static_cast<int64_t>(function.constraints().size());
    // several points / penalties / multipliers per problem
    for (int rep = 0; rep < 4; ++rep)
    {
        const auto emit = [&](const vector_t& x, const double rho, const std::vector<int64_t>& mult, const function_t& lin, const function_t& quad,
                              const function_t& al, const function_t& al0, const char* how)
        {
            vector_t glin(n), gquad(n), gal(n), g0(n), gc(n);
            const auto flin = lin.vgrad(x, glin), fquad = quad.vgrad(x, gquad), fal = al.vgrad(x, gal), fal0 = al0.vgrad(x, g0);
            const auto same = lin.vgrad(x) == flin && quad.vgrad(x) == fquad && al.vgrad(x) == fal;
            std::vector<int64_t> cvals;
            for (const auto& c : function.constraints())
            {
                cvals.push_back(int1(::nano::vgrad(c, x, gc), exact));
            }
            vt::J j("Pen");
            j.i("case", icase).i("ncons", ncons).a("a", ints(a, exact)).a("b", ints(b, exact)).raw("cs", cs).a("x", ints(x, exact)).i(
                "rho", static_cast<int64_t>(rho)).a("mult", mult).a("cvals", cvals);
            j.i("f", int1(function.vgrad(x), exact)).i("lin", int1(flin, exact)).a("glin", ints(glin, exact)).i("quad", int1(fquad, exact)).a("gquad", ints(gquad, exact));
            j.i("al2rho", int1(fal, exact, 2.0 * rho)).a("gal", ints(gal, exact)).i("al0", int1(fal0, exact, 2.0 * rho)).b("valueOnlySame", same).s("how", how);
            if (!exact)
            {
                vt::put(vt::J("Inexact").i("case", icase));
                exact = true;
            }
            else
            {
                vt::put(j);
            }
        };
        const auto x   = ivec(rng, n, -4, 4);
        const auto rho = static_cast<double>(1 << rng.range(0, 3));
        vector_t   lambda(count_equalities(function)), miu(count_inequalities(function)), zl(lambda.size()), zm(miu.size());
        zl.full(0.0);
        zm.full(0.0);
        std::vector<int64_t> mult;
        const auto           draw_multipliers = [&]()
        {
            mult.clear();
            tensor_size_t il = 0, im = 0;
            for (const auto& c : function.constraints())
            {
                const auto m = static_cast<double>(is_equality(c) ? rng.range(-3, 3) : rng.range(-3, 4)); // "any multiplier values": negative ones for inequalities too
                (is_equality(c) ? lambda(il++) : miu(im++)) = m;
                mult.push_back(static_cast<int64_t>(m));
            }
        };
        draw_multipliers();
        auto lin  = linear_penalty_function_t{function};
        auto quad = quadratic_penalty_function_t{function};
        auto al   = augmented_lagrangian_function_t{function, lambda, miu};
        auto al0  = augmented_lagrangian_function_t{function, zl, zm};
        lin.penalty(rho);
        quad.penalty(rho);
        al.penalty(rho);
        al0.penalty(rho);
        emit(x, rho, mult, lin, quad, al, al0, "fresh");
        // as the solvers use them: the SAME objects evaluated again after penalty() was called once more and after the multipliers (held by
        // reference by the augmented Lagrangian) were changed in place - or copies made by clone() at that moment; still the defining formulas
        if (rng.coin())
        {
            draw_multipliers();
            const auto rho2 = rng.coin(1, 3) ? rho : static_cast<double>(1 << rng.range(0, 3));
            lin.penalty(rho2);
            quad.penalty(rho2);
            al.penalty(rho2);
            al0.penalty(rho2);
            const auto x2 = rng.coin() ? x : ivec(rng, n, -4, 4);
            if (rng.coin())
            {
                emit(x2, rho2, mult, lin, quad, al, al0, "reused");
            }
            else
            {
                const auto clin = lin.clone(), cquad = quad.clone(), cal = al.clone(), cal0 = al0.clone();
                emit(x2, rho2, mult, *clin, *cquad, *cal, *cal0, "clone");
            }
        }
    }
}

void lattice_case(vt::Rng& rng, int64_t icase)
{
    const auto n = rng.range(1, 4);
    intquad_t  function(ivec(rng, n, -2, 3), ivec(rng, n, -3, 3));
    std::string cs = "[";
    const auto  nc = rng.range(0, 8);
    bool        exact = true;
    const auto  add = [&](const std::string& kind, const vector_t& q, double r, const matrix_t* P, int64_t d)
    {
        std::string p = "[]";
        if (P != nullptr)
        {
            p = "[";
            for (tensor_size_t i = 0; i < P->rows(); ++i)
            {
                vector_t row(P->cols());
                for (tensor_size_t j = 0; j < P->cols(); ++j)
                {
                    row(j) = (*P)(i, j);
                }
                p += (i ? "," : "") + jvec(ints(row, exact));
            }
            p += "]";
        }
        cs += std::string(cs.size() > 1 ? "," : "") + "{\"kind\":\"" + kind + "\",\"q\":" + jvec(ints(q, exact)) + ",\"r\":" + std::to_string(int1(r, exact)) +
              ",\"P\":" + p + ",\"d\":" + std::to_string(d + 1) + "}";
    };
    for (int64_t k = 0; k < nc; ++k)
    {
        const auto kind = rng.range(0, 10);
        const auto d    = rng.range(0, n - 1);
        const auto r    = static_cast<double>(rng.range(-3, 3));
        const auto q    = ivec(rng, n, -2, 2);
        bool       ok   = true;
        switch (kind)
        {
        case 0: ok = function.constrain(constraint::constant_t{r, d}); if (ok) add("constant", vector_t::zero(n), r, nullptr, d); break;
        case 1: ok = function.constrain(constraint::minimum_t{r, d}); if (ok) add("minimum", vector_t::zero(n), r, nullptr, d); break;
        case 2: ok = function.constrain(constraint::maximum_t{r, d}); if (ok) add("maximum", vector_t::zero(n), r, nullptr, d); break;
        case 3: ok = function.constrain(constraint::euclidean_ball_equality_t{q, std::fabs(r) + 1.0}); if (ok) add("ball_eq", q, std::fabs(r) + 1.0, nullptr, 0); break;
        case 4: ok = function.constrain(constraint::euclidean_ball_inequality_t{q, std::fabs(r) + 1.0}); if (ok) add("ball_ineq", q, std::fabs(r) + 1.0, nullptr, 0); break;
        case 5: ok = function.constrain(constraint::linear_equality_t{q, r}); if (ok) add("linear_eq", q, r, nullptr, 0); break;
        case 6: ok = function.constrain(constraint::linear_inequality_t{q, r}); if (ok) add("linear_ineq", q, r, nullptr, 0); break;
        case 7:
        case 8:
        {
            matrix_t P(n, n);
            for (tensor_size_t i = 0; i < n; ++i)
            {
                for (tensor_size_t j = i; j < n; ++j)
                {
                    P(i, j) = P(j, i) = 2.0 * static_cast<double>(rng.range(i == j ? 0 : -1, 2));
                }
            }
            if (kind == 7)
            {
                ok = function.constrain(constraint::quadratic_equality_t{P, q, r});
                if (ok) add("quadratic_eq", q, r, &P, 0);
            }
            else
            {
                ok = function.constrain(constraint::quadratic_inequality_t{P, q, r});
                if (ok) add("quadratic_ineq", q, r, &P, 0);
            }
            break;
        }
        case 9: ok = function.constrain(constraint::functional_equality_t{poly_t{q, r}}); if (ok) add("functional_eq", q, r, nullptr, 0); break;
        default: ok = function.constrain(constraint::functional_inequality_t{poly_t{q, r}}); if (ok) add("functional_ineq", q, r, nullptr, 0); break;
        }
    }
    cs += "]";
    lattice_evals(rng, icase, function, function.m_a, function.m_b, cs, exact);
}

matrix_t imat(vt::Rng& rng, int64_t rows, int64_t cols, int64_t lo, int64_t hi)
{
    matrix_t m(rows, cols);
    for (tensor_size_t i = 0; i < m.size(); ++i)
    {
        m(i) = static_cast<double>(rng.range(lo, hi));
    }
    return m;
}

// the linear constraints of a program as the driver states them: A x = b, G x <= h, stacked from the given blocks
struct rows_t
{
    std::vector<vector_t> m_q;   // row
    std::vector<double>   m_rhs; // right-hand side
    void add(const matrix_t& M, const vector_t& rhs)
    {
        for (tensor_size_t i = 0; i < M.rows(); ++i)
        {
            vector_t q(M.cols());
            for (tensor_size_t j = 0; j < M.cols(); ++j)
            {
                q(j) = M(i, j);
            }
            m_q.push_back(q);
            m_rhs.push_back(rhs(i));
        }
    }
};

// attach equality / inequality blocks to a linear or quadratic program through the library's own interface (either order)
template <class tprogram>
void constrain_program(tprogram& program, const matrix_t& A, const vector_t& b, const matrix_t& G, const vector_t& h, int64_t box, double lo, double hi, bool eq_first)
{
    const auto n = program.m_c.size();
    if (A.rows() > 0 && G.rows() > 0 && box != 0)
    {
        program.constrain(program::make_equality(A, b), program::make_inequality(G, h), program::make_greater(n, lo), program::make_less(n, hi));
    }
    else if (A.rows() > 0 && G.rows() > 0)
    {
        eq_first ? program.constrain(program::make_equality(A, b), program::make_inequality(G, h))
                 : program.constrain(program::make_inequality(G, h), program::make_equality(A, b));
    }
    else if (A.rows() > 0 && box != 0)
    {
        program.constrain(program::make_greater(n, lo), program::make_equality(A, b), program::make_less(n, hi));
    }
    else if (G.rows() > 0 && box != 0)
    {
        program.constrain(program::make_inequality(G, h), program::make_greater(n, lo), program::make_less(n, hi));
    }
    else if (A.rows() > 0)
    {
        program.constrain(program::make_equality(A, b));
    }
    else if (G.rows() > 0)
    {
        program.constrain(program::make_inequality(G, h));
    }
    else if (box != 0)
    {
        program.constrain(program::make_greater(n, lo), program::make_less(n, hi));
    }
}

// a linear / quadratic program with integer data converted to a constrained function by nano::make_function: its objective must be
// c.x (+ 0.5 x'Qx) and its constraints A x - b (= 0) and G x - h (<= 0) as computed by the driver (exact on the lattice; the order of the
// constraints inside the function is the library's business: they are matched by (equality?, gradient, value)); when Q is diagonal the
// penalty functions of the converted function are then re-computed by TLC like those of the hand-made functions
void program_case(vt::Rng& rng, int64_t icase)
{
    const auto n = rng.range(1, 4), me = rng.range(0, 2), mi = rng.range(0, 3), box = int64_t{rng.range(0, 2) == 0 ? 1 : 0};
    const auto qp = rng.coin(2, 3), diagonal = !qp || rng.coin();
    const auto c  = ivec(rng, n, -3, 3);
    vector_t   a  = vector_t::zero(n);
    matrix_t   Q  = matrix_t::zero(n, n);
    if (qp)
    {
        for (tensor_size_t i = 0; i < n; ++i)
        {
            for (tensor_size_t j = i; j < n; ++j)
            {
                if (i == j)
                {
                    a(i)    = static_cast<double>(rng.range(0, 3));
                    Q(i, i) = 2.0 * a(i);
                }
                else if (!diagonal)
                {
                    Q(i, j) = Q(j, i) = 2.0 * static_cast<double>(rng.range(-1, 1));
                }
            }
        }
    }
    const auto A = imat(rng, me, n, -2, 2), G = imat(rng, mi, n, -2, 2);
    const auto b = ivec(rng, me, -3, 3), h = ivec(rng, mi, -3, 3);
    const auto lo = static_cast<double>(rng.range(-3, 0)), hi = static_cast<double>(rng.range(0, 3));
    const auto eq_first = rng.coin();

    // the program must outlive the function made from it
    std::optional<program::linear_program_t>    lp;
    std::optional<program::quadratic_program_t> qpp;
    rfunction_t                                 function;
    if (qp)
    {
        qpp.emplace(Q, c);
        constrain_program(*qpp, A, b, G, h, box, lo, hi, eq_first);
        function = make_function(*qpp);
    }
    else
    {
        lp.emplace(c);
        constrain_program(*lp, A, b, G, h, box, lo, hi, eq_first);
        function = make_function(*lp);
    }
    // the driver's statement of the constraints
    rows_t eqs, ineqs;
    eqs.add(A, b);
    ineqs.add(G, h);
    if (box != 0)
    {
        const matrix_t I = matrix_t::identity(n, n);
        matrix_t       mI(n, n);
        mI.matrix() = -I.matrix();
        ineqs.add(mI, vector_t::constant(n, -lo)); // lo <= x
        ineqs.add(I, vector_t::constant(n, hi));   // x <= hi
    }
    const auto dimOK = function && function->size() == n;
    bool       objOK = dimOK, gradOK = dimOK, consOK = dimOK;
    if (!dimOK)
    {
        vt::put(vt::J("Prog").i("case", icase).b("qp", qp).i("n", n).b("dimOK", false).b("objOK", false).b("gradOK", false).b("consOK", false));
        return;
    }
    for (int k = 0; k < 4; ++k)
    {
        const auto x = ivec(rng, n, -4, 4);
        vector_t   g(n), gref(n);
        gref.vector() = Q.matrix() * x.vector() + c.vector();
        const auto fref = 0.5 * x.dot(Q.matrix() * x.vector()) + c.dot(x); // integers: exact
        const auto f    = function->vgrad(x, g);
        objOK  = objOK && f == fref && function->vgrad(x) == fref;
        gradOK = gradOK && vt::same_bits(g, gref);
    }
    // match the function's constraints with the driver's rows
    bool                 exact = true;
    std::string          cs    = "[";
    std::vector<bool>    used_eq(eqs.m_q.size(), false), used_ineq(ineqs.m_q.size(), false);
    const auto           p0 = ivec(rng, n, -4, 4);
    consOK = consOK && count_equalities(*function) == static_cast<tensor_size_t>(eqs.m_q.size()) &&
             count_inequalities(*function) == static_cast<tensor_size_t>(ineqs.m_q.size());
    for (const auto& constraint : function->constraints())
    {
        vector_t   gc(n);
        const auto v    = ::nano::vgrad(constraint, p0, gc);
        const auto eq   = is_equality(constraint);
        auto&      rows = eq ? eqs : ineqs;
        auto&      used = eq ? used_eq : used_ineq;
        bool       found = false;
        for (size_t r = 0; r < rows.m_q.size() && !found; ++r)
        {
            if (!used[r] && v == rows.m_q[r].dot(p0) - rows.m_rhs[r] && (gc - rows.m_q[r]).lpNorm<Eigen::Infinity>() == 0.0)
            {
                used[r] = found = true;
                cs += std::string(cs.size() > 1 ? "," : "") + "{\"kind\":\"" + (eq ? "linear_eq" : "linear_ineq") + "\",\"q\":" + jvec(ints(rows.m_q[r], exact)) +
                      ",\"r\":" + std::to_string(int1(-rows.m_rhs[r], exact)) + ",\"P\":[],\"d\":1}";
            }
        }
        consOK = consOK && found;
    }
    cs += "]";
    vt::put(vt::J("Prog").i("case", icase).b("qp", qp).i("n", n).i("neq", static_cast<int64_t>(eqs.m_q.size())).i("nineq", static_cast<int64_t>(ineqs.m_q.size())).b(
        "dimOK", dimOK).b("objOK", objOK).b("gradOK", gradOK).b("consOK", consOK));
    if (diagonal && consOK)
    {
        lattice_evals(rng, icase, *function, a, c, cs, exact);
    }
}

void solver_case(vt::Rng& rng, int64_t icase)
{
    // convex quadratic / linear objective with linear constraints built around a feasible point, boxes and balls
    const auto                   n = rng.range(1, 6);
    vt::quad_info_t              qinfo;
    std::unique_ptr<function_t>  function;
    // (programs converted by nano::make_function must outlive the function)
    std::optional<program::linear_program_t>    lp;
    std::optional<program::quadratic_program_t> qpp;
    const auto xhat = vt::random_x0(rng, n, 2.0);
    // kinds 0..4: hand-made constraint sets; 5: NO constraint at all (the constrained solvers must then behave like any other solver);
    // 6, 7: a random convex linear / quadratic program (feasible at xhat, bounded) converted to a constrained function by the library
    const auto kind = rng.coin(1, 4) ? rng.range(5, 7) : rng.range(0, 4);
    if (kind >= 6)
    {
        const auto me = rng.range(0, std::max<int64_t>(0, n - 1)), mi = rng.range(me == 0 ? 1 : 0, n + 2);
        matrix_t   A(me, n), G(mi, n);
        vector_t   b(me), h(mi);
        for (tensor_size_t i = 0; i < A.size(); ++i)
        {
            A(i) = rng.uniform(-1.0, 1.0);
        }
        for (tensor_size_t i = 0; i < G.size(); ++i)
        {
            G(i) = rng.uniform(-1.0, 1.0);
        }
        b.vector() = A.matrix() * xhat.vector();
        h.vector() = G.matrix() * xhat.vector();
        for (tensor_size_t i = 0; i < mi; ++i)
        {
            h(i) += rng.uniform(0.0, 1.0);
        }
        const auto quadratic = rng.coin(2, 3);
        const int64_t box     = (!quadratic || rng.coin(1, 3)) ? 1 : 0; // keep linear programs bounded
        if (quadratic)
        {
            const auto q = vt::make_quadratic(rng, n, qinfo);
            qpp.emplace(q->m_A, q->m_a);
            constrain_program(*qpp, A, b, G, h, box, -5.0, 5.0, rng.coin());
            function = make_function(*qpp);
        }
        else
        {
            lp.emplace(ivec(rng, n, -3, 3));
            constrain_program(*lp, A, b, G, h, box, -5.0, 5.0, rng.coin());
            function = make_function(*lp);
        }
    }
    else if (kind == 5 || rng.coin(2, 3))
    {
        function = vt::make_quadratic(rng, n, qinfo);
    }
    else
    {
        function = std::make_unique<intquad_t>(vector_t::zero(n), ivec(rng, n, -3, 3)); // linear objective
    }
    if (kind == 4)
    {
        // a convex quadratic inequality 0.5 (x - xhat)' P (x - xhat) <= r around the feasible point (+ sometimes a linear equality through it)
        matrix_t B(n, n);
        for (tensor_size_t i = 0; i < B.size(); ++i)
        {
            B(i) = rng.uniform(-1.0, 1.0);
        }
        matrix_t P(n, n);
        P.matrix() = B.matrix().transpose() * B.matrix() + matrix_t::identity(n, n).matrix() * rng.uniform(0.1, 1.0);
        vector_t q(n);
        q.vector() = -P.matrix() * xhat.vector();
        const auto r = 0.5 * xhat.dot(P.matrix() * xhat.vector()) - rng.uniform(0.2, 2.0);
        function->constrain(constraint::quadratic_inequality_t{P, q, r});
        if (n > 1 && rng.coin())
        {
            const auto a = vt::random_x0(rng, n, 1.0);
            function->constrain(constraint::linear_equality_t{a, -a.dot(xhat)});
        }
    }
    if (kind == 0 || kind == 3)
    {
        for (int64_t k = 0, m = rng.range(1, n + 2); k < m; ++k)
        {
            const auto q = vt::random_x0(rng, n, 1.0);
            function->constrain(constraint::linear_inequality_t{q, -q.dot(xhat) - rng.uniform(0.0, 1.0)});
        }
        for (int64_t k = 0, m = rng.range(0, std::max<int64_t>(0, n - 1)); k < m; ++k)
        {
            const auto q = vt::random_x0(rng, n, 1.0);
            function->constrain(constraint::linear_equality_t{q, -q.dot(xhat)});
        }
    }
    if (kind == 1 || kind == 3)
    {
        function->constrain(-rng.uniform(0.5, 3.0), rng.uniform(0.5, 3.0));
    }
    if (kind == 2)
    {
        if (rng.coin())
        {
            function->constrain(constraint::euclidean_ball_inequality_t{xhat, rng.uniform(0.5, 2.0)});
        }
        else
        {
            function->constrain(constraint::euclidean_ball_equality_t{xhat, rng.uniform(0.5, 2.0)});
        }
    }
    if (dynamic_cast<intquad_t*>(function.get()) != nullptr && kind == 0)
    {
        function->constrain(-5.0, 5.0); // keep linear programs bounded
    }
    // sometimes an EMPTY feasible set is planted: two parallel hyperplanes, or a ball and a half-space that does not meet it (the margin is
    // far above any epsilon drawn below): no point is feasible within epsilon, so `converged` must never be reported by the augmented Lagrangian
    const auto planted = kind != 5 && rng.coin(1, 8);
    if (planted)
    {
        auto u = vt::random_x0(rng, n, 1.0);
        u.vector() /= std::max(1e-3, u.lpNorm<2>());
        if (rng.coin())
        {
            const auto s1 = rng.uniform(0.5, 2.0), s2 = rng.uniform(0.5, 2.0), r = rng.uniform(-2.0, 2.0), gap = rng.uniform(0.05, 2.0);
            vector_t   u1 = u, u2 = u;
            u1.vector() *= s1;
            u2.vector() *= s2;
            function->constrain(constraint::linear_equality_t{u1, -s1 * r});           // u.x = r
            function->constrain(constraint::linear_equality_t{u2, -s2 * (r + gap)});   // u.x = r + gap
        }
        else
        {
            const auto radius = rng.uniform(0.5, 2.0), gap = rng.uniform(0.1, 2.0);
            vector_t   mu = u;
            mu.vector() *= -1.0;
            function->constrain(constraint::euclidean_ball_inequality_t{xhat, radius});                  // |x - xhat| <= radius
            function->constrain(constraint::linear_inequality_t{mu, u.dot(xhat) + radius + gap});         // u.(x - xhat) >= radius + gap
        }
    }

    rsolver_t solver;
    const auto which = rng.range(0, 3);
    if (which <= 1)
    {
        solver = std::make_unique<solver_augmented_lagrangian_t>();
    }
    else if (which == 2)
    {
        solver = std::make_unique<solver_quadratic_penalty_t>();
    }
    else
    {
        solver = std::make_unique<solver_linear_penalty_t>();
    }
    const auto eps = std::pow(10.0, rng.uniform(-10.0, -4.0));
    solver->parameter("solver::epsilon")   = eps;
    const auto max_evals = rng.coin(1, 2) ? rng.pick(std::vector<int64_t>{200, 1000, 5000}) : rng.range(10, 5000);
    solver->parameter("solver::max_evals") = max_evals;
    // the outer budget: the whole run performs at most max_outer_iters inner solves, each within its own evaluation budget
    const auto outers_name = std::string(which <= 1 ? "solver::augmented::max_outer_iters" : "solver::penalty::max_outer_iters");
    if (rng.coin(1, 2))
    {
        solver->parameter(outers_name) = rng.range(10, rng.coin(1, 2) ? 12 : 100);
    }
    const auto max_outers = solver->parameter(outers_name).value<int64_t>();
    // the other parameters of the outer loops, anywhere in their declared domains (closed ends included): the return contract, the budget
    // per inner solve and `converged => feasible within epsilon` do not depend on them
    bool shaken = false;
    if (rng.coin(1, 2))
    {
        shaken = true;
        const auto log10u = [&](double lo, double hi) { return std::pow(10.0, rng.uniform(lo, hi)); };
        if (which <= 1)
        {
            if (rng.coin()) solver->parameter("solver::augmented::epsilon0") = rng.coin(1, 6) ? 1e-2 : log10u(-10.0, -2.0);
            if (rng.coin()) solver->parameter("solver::augmented::epsilonK") = rng.coin(1, 4) ? 1.0 : rng.coin(1, 3) ? log10u(-12.0, -1.0) : rng.uniform(0.01, 1.0);
            if (rng.coin()) solver->parameter("solver::augmented::tau") = rng.coin(1, 4) ? rng.pick(std::vector<double>{1e-3, 0.999}) : rng.uniform(0.01, 0.99);
            if (rng.coin()) solver->parameter("solver::augmented::gamma") = 1.0 + log10u(-2.0, 3.0);
            if (rng.coin()) solver->parameter("solver::augmented::miu_max") = rng.coin() ? log10u(-3.0, 1.0) : log10u(1.0, 30.0);
            if (rng.coin())
            {
                // the interval the equality multipliers are clamped to: usually around zero, tight or wide; sometimes one-sided
                const auto l1 = rng.coin(1, 6) ? log10u(-3.0, 0.0) : -(rng.coin() ? log10u(-3.0, 1.0) : log10u(1.0, 30.0));
                const auto l2 = std::max(l1, 0.0) + (rng.coin() ? log10u(-3.0, 1.0) : log10u(1.0, 30.0));
                solver->parameter("solver::augmented::lambda") = std::make_tuple(l1, l2);
            }
        }
        else
        {
            if (rng.coin()) solver->parameter("solver::penalty::epsilon0") = rng.coin(1, 6) ? 1e-2 : log10u(-10.0, -2.0);
            if (rng.coin()) solver->parameter("solver::penalty::epsilonK") = rng.coin(1, 4) ? 1.0 : rng.coin(1, 3) ? log10u(-12.0, -1.0) : rng.uniform(0.01, 1.0);
            if (rng.coin()) solver->parameter("solver::penalty::eta") = rng.coin(1, 6) ? 1e+3 : std::min(1e+3, 1.0 + log10u(-2.0, 3.0));
            if (rng.coin()) solver->parameter("solver::penalty::penalty0") = rng.coin(1, 6) ? 1e+3 : log10u(-3.0, 3.0);
        }
    }

    vt::counting_function_t counting(*function);
    const auto x0 = vt::random_x0(rng, n, rng.coin() ? 1.0 : 5.0);
    // the wrapper is not always fresh: evaluations made through it BEFORE the run do not belong to the run (the counts reported by the
    // returned state must not include them); the wrapper's own log is read from here on
    if (rng.coin(1, 3))
    {
        vector_t g(n);
        for (int64_t k = 0, m = rng.range(1, 5); k < m; ++k)
        {
            rng.coin() ? counting.vgrad(x0, g) : counting.vgrad(xhat);
        }
        counting.reset();
    }
    solver_state_t state;
    try
    {
        state = solver->minimize(counting, x0, make_null_logger());
    }
    catch (const std::exception& e)
    {
        vt::put(vt::J("Abort").s("why", e.what()).i("case", icase));
        return;
    }
    // recompute everything at the returned point from the problem as stated
    const auto& x = state.x();
    bool        feasOK = true, storedOK = state.x().size() == n;
    tensor_size_t ie = 0, ii = 0;
    double      kkt1 = 0.0, kkt2 = 0.0;
    vector_t    gc(n);
    for (const auto& c : function->constraints())
    {
        const auto v = ::nano::vgrad(c, x, gc);
        if (is_equality(c))
        {
            feasOK   = feasOK && std::fabs(v) <= eps;
            storedOK = storedOK && ie < state.ceq().size() && vt::same_bits(state.ceq()(ie), v);
            kkt2     = std::max(kkt2, std::fabs(v));
            ++ie;
        }
        else
        {
            feasOK   = feasOK && std::max(0.0, v) <= eps;
            storedOK = storedOK && ii < state.cineq().size() && vt::same_bits(state.cineq()(ii), v);
            kkt1     = std::max(kkt1, std::max(0.0, v));
            ++ii;
        }
    }
    storedOK = storedOK && ie == state.ceq().size() && ii == state.cineq().size() && state.kkt_optimality_test1() == kkt1 &&
               state.kkt_optimality_test2() == kkt2;
    int64_t nF = static_cast<int64_t>(counting.evals().size()), nG = 0;
    for (const auto& e : counting.evals())
    {
        nG += e.grad ? 1 : 0;
    }
    const auto status = state.status() == solver_status::converged ? "converged" : state.status() == solver_status::failed ? "failed" : "max_iters";
    vt::put(vt::J("Solve")
                .i("case", icase)
                .s("solver", solver->type_id())
                .s("status", status)
                .i("ncons", static_cast<int64_t>(function->constraints().size()))
                .b("dimOK", x.size() == n)
                .b("valueOK", vt::same_bits(state.fx(), function->vgrad(x)))
                .b("storedOK", storedOK)
                .b("finite", std::isfinite(state.fx()) && vt::all_finite(x))
                .b("feasOK", feasOK)
                .i("fcalls", state.fcalls())
                .i("gcalls", state.gcalls())
                .i("nF", nF)
                .i("nG", nG)
                .i("n", n)
                .i("maxEvals", max_evals)
                .i("maxOuters", max_outers)
                .i("kind", kind)
                .b("planted", planted)
                .b("shaken", shaken));
}
} // namespace

int main(int argc, char* argv[])
{
    if (argc < 5)
    {
        std::fprintf(stderr, "usage: penalty_driver <out.ndjson> <seed> <lattice-cases> <solver-cases>\n");
        return 2;
    }
    vt::Trace::get().open(argv[1]);
    vt::Rng    rng(static_cast<uint64_t>(std::atoll(argv[2])));
    const auto nl = std::atoll(argv[3]), ns = std::atoll(argv[4]);
    for (int64_t i = 0; i < nl; ++i)
    {
        lattice_case(rng, i);
        if (i % 4 == 3)
        {
            program_case(rng, 1000000 + i); // linear / quadratic programs converted by nano::make_function
        }
    }
    for (int64_t i = 0; i < ns; ++i)
    {
        solver_case(rng, nl + i);
    }
    vt::put(vt::J("Solve").i("case", -1).s("solver", "end").s("status", "max_iters").i("ncons", 0).b("dimOK", true).b("valueOK", true).b("storedOK", true).b(
        "finite", true).b("feasOK", true).i("fcalls", 0).i("gcalls", 0).i("nF", 0).i("nG", 0).i("n", 1).i("maxEvals", 10).i("maxOuters", 10).i("kind", 0).b("planted", false).b("shaken", false));
    return 0;
}
