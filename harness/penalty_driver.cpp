// C05 conformance driver: (a) evaluations of the three penalty functions on the integer lattice for re-computation by TLC,
// (b) runs of the penalty / augmented-Lagrangian solvers on random constrained problems with the return contract recomputed.
//   penalty_driver <out.ndjson> <seed> <lattice-cases> <solver-cases>
#include "counting.h"
#include "objectives.h"
#include <nano/function/penalty.h>
#include <nano/solver/augmented.h>
#include <nano/solver/penalty.h>

using namespace nano;

namespace
{
// f(x) = sum a_i x_i^2 + b . x
class intquad_t final : public function_t
{
public:
    intquad_t(vector_t a, vector_t b)
        : function_t("verif-intquad", a.size())
        , m_a(std::move(a))
        , m_b(std::move(b))
    {
        convex(m_a.min() >= 0.0 ? convexity::yes : convexity::no);
        smooth(smoothness::yes);
    }

    rfunction_t clone() const override { return std::make_unique<intquad_t>(*this); }

    scalar_t do_vgrad(vector_cmap_t x, vector_map_t gx) const override
    {
        if (gx.size() == x.size())
        {
            gx = 2.0 * m_a.array() * x.array() + m_b.array();
        }
        return (m_a.array() * x.array() * x.array()).sum() + m_b.dot(x);
    }

    vector_t m_a, m_b;
};

// c(x) = sum x_i^2 + q . x + r  (functional constraints)
class poly_t final : public function_t
{
public:
    poly_t(vector_t q, scalar_t r)
        : function_t("verif-poly", q.size())
        , m_q(std::move(q))
        , m_r(r)
    {
        convex(convexity::yes);
        smooth(smoothness::yes);
    }

    rfunction_t clone() const override { return std::make_unique<poly_t>(*this); }

    scalar_t do_vgrad(vector_cmap_t x, vector_map_t gx) const override
    {
        if (gx.size() == x.size())
        {
            gx = 2.0 * x.array() + m_q.array();
        }
        return x.dot(x) + m_q.dot(x) + m_r;
    }

    vector_t m_q;
    scalar_t m_r;
};

vector_t ivec(vt::Rng& rng, int64_t n, int64_t lo, int64_t hi)
{
    vector_t v(n);
    for (tensor_size_t i = 0; i < n; ++i)
    {
        v(i) = static_cast<double>(rng.range(lo, hi));
    }
    return v;
}

std::vector<int64_t> ints(const vector_t& v, bool& exact, double scale = 1.0)
{
    std::vector<int64_t> out;
    for (tensor_size_t i = 0; i < v.size(); ++i)
    {
        int64_t k = 0;
        if (!vt::to_lattice(v(i), scale, k))
        {
            exact = false;
        }
        out.push_back(k);
    }
    return out;
}

int64_t int1(double v, bool& exact, double scale = 1.0)
{
    int64_t k = 0;
    if (!vt::to_lattice(v, scale, k))
    {
        exact = false;
    }
    return k;
}

std::string jvec(const std::vector<int64_t>& v)
{
    std::string s = "[";
    for (size_t i = 0; i < v.size(); ++i)
    {
        s += (i ? "," : "") + std::to_string(v[i]);
    }
    return s + "]";
}

void lattice_case(vt::Rng& rng, int64_t icase)
{
    const auto n = rng.range(1, 4);
    intquad_t  function(ivec(rng, n, -2, 3), ivec(rng, n, -3, 3));
    std::string cs = "[";
    const auto  nc = rng.range(0, 8);
    bool        exact = true;
    const auto  add = [&](const std::string& kind, const vector_t& q, double r, const matrix_t* P, int64_t d)
    {
        std::string p = "[]";
        if (P != nullptr)
        {
            p = "[";
            for (tensor_size_t i = 0; i < P->rows(); ++i)
            {
                vector_t row(P->cols());
                for (tensor_size_t j = 0; j < P->cols(); ++j)
                {
                    row(j) = (*P)(i, j);
                }
                p += (i ? "," : "") + jvec(ints(row, exact));
            }
            p += "]";
        }
        cs += std::string(cs.size() > 1 ? "," : "") + "{\"kind\":\"" + kind + "\",\"q\":" + jvec(ints(q, exact)) + ",\"r\":" + std::to_string(int1(r, exact)) +
              ",\"P\":" + p + ",\"d\":" + std::to_string(d + 1) + "}";
    };
    for (int64_t k = 0; k < nc; ++k)
    {
        const auto kind = rng.range(0, 10);
        const auto d    = rng.range(0, n - 1);
        const auto r    = static_cast<double>(rng.range(-3, 3));
        const auto q    = ivec(rng, n, -2, 2);
        bool       ok   = true;
        switch (kind)
        {
        case 0: ok = function.constrain(constraint::constant_t{r, d}); if (ok) add("constant", vector_t::zero(n), r, nullptr, d); break;
        case 1: ok = function.constrain(constraint::minimum_t{r, d}); if (ok) add("minimum", vector_t::zero(n), r, nullptr, d); break;
        case 2: ok = function.constrain(constraint::maximum_t{r, d}); if (ok) add("maximum", vector_t::zero(n), r, nullptr, d); break;
        case 3: ok = function.constrain(constraint::euclidean_ball_equality_t{q, std::fabs(r) + 1.0}); if (ok) add("ball_eq", q, std::fabs(r) + 1.0, nullptr, 0); break;
        case 4: ok = function.constrain(constraint::euclidean_ball_inequality_t{q, std::fabs(r) + 1.0}); if (ok) add("ball_ineq", q, std::fabs(r) + 1.0, nullptr, 0); break;
        case 5: ok = function.constrain(constraint::linear_equality_t{q, r}); if (ok) add("linear_eq", q, r, nullptr, 0); break;
        case 6: ok = function.constrain(constraint::linear_inequality_t{q, r}); if (ok) add("linear_ineq", q, r, nullptr, 0); break;
        case 7:
        case 8:
        {
            matrix_t P(n, n);
            for (tensor_size_t i = 0; i < n; ++i)
            {
                for (tensor_size_t j = i; j < n; ++j)
                {
                    P(i, j) = P(j, i) = 2.0 * static_cast<double>(rng.range(i == j ? 0 : -1, 2));
                }
            }
            if (kind == 7)
            {
                ok = function.constrain(constraint::quadratic_equality_t{P, q, r});
                if (ok) add("quadratic_eq", q, r, &P, 0);
            }
            else
            {
                ok = function.constrain(constraint::quadratic_inequality_t{P, q, r});
                if (ok) add("quadratic_ineq", q, r, &P, 0);
            }
            break;
        }
        case 9: ok = function.constrain(constraint::functional_equality_t{poly_t{q, r}}); if (ok) add("functional_eq", q, r, nullptr, 0); break;
        default: ok = function.constrain(constraint::functional_inequality_t{poly_t{q, r}}); if (ok) add("functional_ineq", q, r, nullptr, 0); break;
        }
    }
    cs += "]";
    const auto ncons = static_cast<int64_t>(function.constraints().size());
    // several points / penalties / multipliers per problem
    for (int rep = 0; rep < 4; ++rep)
    {
        const auto x   = ivec(rng, n, -4, 4);
        const auto rho = static_cast<double>(1 << rng.range(0, 3));
        vector_t   lambda(count_equalities(function)), miu(count_inequalities(function)), zl(lambda.size()), zm(miu.size());
        zl.full(0.0);
        zm.full(0.0);
        std::vector<int64_t> mult;
        tensor_size_t        il = 0, im = 0;
        for (const auto& c : function.constraints())
        {
            const auto m = static_cast<double>(is_equality(c) ? rng.range(-3, 3) : rng.range(0, 4));
            (is_equality(c) ? lambda(il++) : miu(im++)) = m;
            mult.push_back(static_cast<int64_t>(m));
        }
        auto lin  = linear_penalty_function_t{function};
        auto quad = quadratic_penalty_function_t{function};
        auto al   = augmented_lagrangian_function_t{function, lambda, miu};
        auto al0  = augmented_lagrangian_function_t{function, zl, zm};
        lin.penalty(rho);
        quad.penalty(rho);
        al.penalty(rho);
        al0.penalty(rho);
        vector_t glin(n), gquad(n), gal(n), g0(n), gc(n);
        const auto flin = lin.vgrad(x, glin), fquad = quad.vgrad(x, gquad), fal = al.vgrad(x, gal), fal0 = al0.vgrad(x, g0);
        const auto same = lin.vgrad(x) == flin && quad.vgrad(x) == fquad && al.vgrad(x) == fal;
        std::vector<int64_t> cvals;
        for (const auto& c : function.constraints())
        {
            cvals.push_back(int1(::nano::vgrad(c, x, gc), exact));
        }
        vt::J j("Pen");
        j.i("case", icase).i("ncons", ncons).a("a", ints(function.m_a, exact)).a("b", ints(function.m_b, exact)).raw("cs", cs).a("x", ints(x, exact)).i(
            "rho", static_cast<int64_t>(rho)).a("mult", mult).a("cvals", cvals);
        j.i("f", int1(function.vgrad(x), exact)).i("lin", int1(flin, exact)).a("glin", ints(glin, exact)).i("quad", int1(fquad, exact)).a("gquad", ints(gquad, exact));
        j.i("al2rho", int1(fal, exact, 2.0 * rho)).a("gal", ints(gal, exact)).i("al0", int1(fal0, exact, 2.0 * rho)).b("valueOnlySame", same);
        if (!exact)
        {
            vt::put(vt::J("Inexact").i("case", icase));
            exact = true;
        }
        else
        {
            vt::put(j);
        }
    }
}

void solver_case(vt::Rng& rng, int64_t icase)
{
    // convex quadratic / linear objective with linear constraints built around a feasible point, boxes and balls
    const auto                   n = rng.range(1, 6);
    vt::quad_info_t              qinfo;
    std::unique_ptr<function_t>  function;
    if (rng.coin(2, 3))
    {
        function = vt::make_quadratic(rng, n, qinfo);
    }
    else
    {
        function = std::make_unique<intquad_t>(vector_t::zero(n), ivec(rng, n, -3, 3)); // linear objective
    }
    const auto xhat = vt::random_x0(rng, n, 2.0);
    const auto kind = rng.range(0, 4);
    if (kind == 4)
    {
        // a convex quadratic inequality 0.5 (x - xhat)' P (x - xhat) <= r around the feasible point (+ sometimes a linear equality through it)
        matrix_t B(n, n);
        for (tensor_size_t i = 0; i < B.size(); ++i)
        {
            B(i) = rng.uniform(-1.0, 1.0);
        }
        matrix_t P(n, n);
        P.matrix() = B.matrix().transpose() * B.matrix() + matrix_t::identity(n, n).matrix() * rng.uniform(0.1, 1.0);
        vector_t q(n);
        q.vector() = -P.matrix() * xhat.vector();
        const auto r = 0.5 * xhat.dot(P.matrix() * xhat.vector()) - rng.uniform(0.2, 2.0);
        function->constrain(constraint::quadratic_inequality_t{P, q, r});
        if (n > 1 && rng.coin())
        {
            const auto a = vt::random_x0(rng, n, 1.0);
            function->constrain(constraint::linear_equality_t{a, -a.dot(xhat)});
        }
    }
    if (kind == 0 || kind == 3)
    {
        for (int64_t k = 0, m = rng.range(1, n + 2); k < m; ++k)
        {
            const auto q = vt::random_x0(rng, n, 1.0);
            function->constrain(constraint::linear_inequality_t{q, -q.dot(xhat) - rng.uniform(0.0, 1.0)});
        }
        for (int64_t k = 0, m = rng.range(0, std::max<int64_t>(0, n - 1)); k < m; ++k)
        {
            const auto q = vt::random_x0(rng, n, 1.0);
            function->constrain(constraint::linear_equality_t{q, -q.dot(xhat)});
        }
    }
    if (kind == 1 || kind == 3)
    {
        function->constrain(-rng.uniform(0.5, 3.0), rng.uniform(0.5, 3.0));
    }
    if (kind == 2)
    {
        if (rng.coin())
        {
            function->constrain(constraint::euclidean_ball_inequality_t{xhat, rng.uniform(0.5, 2.0)});
        }
        else
        {
            function->constrain(constraint::euclidean_ball_equality_t{xhat, rng.uniform(0.5, 2.0)});
        }
    }
    if (dynamic_cast<intquad_t*>(function.get()) != nullptr && kind == 0)
    {
        function->constrain(-5.0, 5.0); // keep linear programs bounded
    }

    rsolver_t solver;
    const auto which = rng.range(0, 3);
    if (which <= 1)
    {
        solver = std::make_unique<solver_augmented_lagrangian_t>();
    }
    else if (which == 2)
    {
        solver = std::make_unique<solver_quadratic_penalty_t>();
    }
    else
    {
        solver = std::make_unique<solver_linear_penalty_t>();
    }
    const auto eps = std::pow(10.0, rng.uniform(-10.0, -4.0));
    solver->parameter("solver::epsilon")   = eps;
    const auto max_evals = rng.coin(1, 2) ? rng.pick(std::vector<int64_t>{200, 1000, 5000}) : rng.range(10, 5000);
    solver->parameter("solver::max_evals") = max_evals;
    // the outer budget: the whole run performs at most max_outer_iters inner solves, each within its own evaluation budget
    const auto outers_name = std::string(which <= 1 ? "solver::augmented::max_outer_iters" : "solver::penalty::max_outer_iters");
    if (rng.coin(1, 2))
    {
        solver->parameter(outers_name) = rng.range(10, rng.coin(1, 2) ? 12 : 100);
    }
    const auto max_outers = solver->parameter(outers_name).value<int64_t>();

    vt::counting_function_t counting(*function);
    const auto x0 = vt::random_x0(rng, n, rng.coin() ? 1.0 : 5.0);
    solver_state_t state;
    try
    {
        state = solver->minimize(counting, x0, make_null_logger());
    }
    catch (const std::exception& e)
    {
        vt::put(vt::J("Abort").s("why", e.what()).i("case", icase));
        return;
    }
    // recompute everything at the returned point from the problem as stated
    const auto& x = state.x();
    bool        feasOK = true, storedOK = state.x().size() == n;
    tensor_size_t ie = 0, ii = 0;
    double      kkt1 = 0.0, kkt2 = 0.0;
    vector_t    gc(n);
    for (const auto& c : function->constraints())
    {
        const auto v = ::nano::vgrad(c, x, gc);
        if (is_equality(c))
        {
            feasOK   = feasOK && std::fabs(v) <= eps;
            storedOK = storedOK && ie < state.ceq().size() && vt::same_bits(state.ceq()(ie), v);
            kkt2     = std::max(kkt2, std::fabs(v));
            ++ie;
        }
        else
        {
            feasOK   = feasOK && std::max(0.0, v) <= eps;
            storedOK = storedOK && ii < state.cineq().size() && vt::same_bits(state.cineq()(ii), v);
            kkt1     = std::max(kkt1, std::max(0.0, v));
            ++ii;
        }
    }
    storedOK = storedOK && ie == state.ceq().size() && ii == state.cineq().size() && state.kkt_optimality_test1() == kkt1 &&
               state.kkt_optimality_test2() == kkt2;
    int64_t nF = static_cast<int64_t>(counting.evals().size()), nG = 0;
    for (const auto& e : counting.evals())
    {
        nG += e.grad ? 1 : 0;
    }
    const auto status = state.status() == solver_status::converged ? "converged" : state.status() == solver_status::failed ? "failed" : "max_iters";
    vt::put(vt::J("Solve")
                .i("case", icase)
                .s("solver", solver->type_id())
                .s("status", status)
                .i("ncons", static_cast<int64_t>(function->constraints().size()))
                .b("dimOK", x.size() == n)
                .b("valueOK", vt::same_bits(state.fx(), function->vgrad(x)))
                .b("storedOK", storedOK)
                .b("finite", std::isfinite(state.fx()) && vt::all_finite(x))
                .b("feasOK", feasOK)
                .i("fcalls", state.fcalls())
                .i("gcalls", state.gcalls())
                .i("nF", nF)
                .i("nG", nG)
                .i("n", n)
                .i("maxEvals", max_evals)
                .i("maxOuters", max_outers));
}
} // namespace

int main(int argc, char* argv[])
{
    if (argc < 5)
    {
        std::fprintf(stderr, "usage: penalty_driver <out.ndjson> <seed> <lattice-cases> <solver-cases>\n");
        return 2;
    }
    vt::Trace::get().open(argv[1]);
    vt::Rng    rng(static_cast<uint64_t>(std::atoll(argv[2])));
    const auto nl = std::atoll(argv[3]), ns = std::atoll(argv[4]);
    for (int64_t i = 0; i < nl; ++i)
    {
        lattice_case(rng, i);
    }
    for (int64_t i = 0; i < ns; ++i)
    {
        solver_case(rng, nl + i);
    }
    vt::put(vt::J("Solve").i("case", -1).s("solver", "end").s("status", "max_iters").i("ncons", 0).b("dimOK", true).b("valueOK", true).b("storedOK", true).b(
        "finite", true).b("feasOK", true).i("fcalls", 0).i("gcalls", 0).i("nF", 0).i("nG", 0).i("n", 1).i("maxEvals", 10).i("maxOuters", 10));
    return 0;
}
