// C11 (fit part) conformance driver: fits gboost_model_t and linear_t on small random datasets and re-computes, through
// the public API only, everything the returned ml::result_t reports; one event per (trial, fold) slot and per fit.
//   fit_driver <out.ndjson> <seed> <gboost-cases> <linear-cases>
#include "problems.h"
#include <nano/dataset/iterator.h>
#include <nano/gboost/model.h>
#include <nano/gboost/result.h>
#include <nano/generator/elemwise_identity.h>
#include <nano/linear.h>
#include <nano/linear/result.h>
#include <nano/linear/util.h>
#include <nano/machine/stats.h>
#include <atomic>
#include <chrono>
#include <thread>
#include <unistd.h>

using namespace nano;

namespace
{
using vt::problem_t;
using vt::make_problem;

// a call of the library that does not come back (e.g. every worker of a pool waiting for work queued behind itself) must end as a
// reported failure, not as a check that never finishes: while armed, a side thread records an Abort event and ends the process
// once the deadline (VERIF_WATCHDOG_S seconds, default 240; the calls watched take well below a second) has passed
class watchdog_t
{
public:
    static watchdog_t& get()
    {
        static watchdog_t w;
        return w;
    }

    void arm(const std::string& what)
    {
        const std::scoped_lock lock(m_mutex);
        m_what     = what;
        m_deadline = std::chrono::steady_clock::now() + std::chrono::seconds(m_seconds);
        m_armed    = true;
    }

    void disarm()
    {
        const std::scoped_lock lock(m_mutex);
        m_armed = false;
    }

private:
    watchdog_t()
    {
        if (const auto* env = std::getenv("VERIF_WATCHDOG_S"); env != nullptr && std::atoi(env) > 0)
        {
            m_seconds = std::atoi(env);
        }
        std::thread(
            [this]
            {
                for (;;)
                {
                    std::this_thread::sleep_for(std::chrono::milliseconds(100));
                    const std::scoped_lock lock(m_mutex);
                    if (m_armed && std::chrono::steady_clock::now() > m_deadline)
                    {
                        vt::put(vt::J("Abort").s("why", "no return within " + std::to_string(m_seconds) + " s (hang): " + m_what));
                        _exit(3);
                    }
                }
            })
            .detach();
    }

    std::mutex                            m_mutex;
    std::string                           m_what;
    std::chrono::steady_clock::time_point m_deadline;
    bool                                  m_armed{false};
    int                                   m_seconds{240};
};

struct watched_t
{
    explicit watched_t(const std::string& what) { watchdog_t::get().arm(what); }

    watched_t(const watched_t&)            = delete;
    watched_t& operator=(const watched_t&) = delete;

    ~watched_t() { watchdog_t::get().disarm(); }
};

// (errors, losses) of the given outputs on the given samples, from the loss's public interface
tensor2d_t evaluate(const dataset_t& dataset, const indices_t& samples, const loss_t& loss, const tensor4d_t& outputs)
{
    tensor2d_t values(2, samples.size());
    auto       iterator = targets_iterator_t{dataset, samples};
    iterator.batch(7);
    iterator.scaling(scaling_type::none);
    iterator.loop(
        [&](tensor_range_t range, size_t, tensor4d_cmap_t targets)
        {
            loss.error(targets, outputs.slice(range), values.tensor(0).slice(range));
            loss.value(targets, outputs.slice(range), values.tensor(1).slice(range));
        });
    return values;
}

bool close(double a, double b, double tol = 1e-11)
{
    return a == b || (std::isnan(a) && std::isnan(b)) || std::fabs(a - b) <= tol * (1.0 + std::fabs(a) + std::fabs(b));
}

bool same_stats(const ml::stats_t& s, const tensor1d_t& values)
{
    tensor1d_t r(12);
    auto       copy = values;
    ml::store_stats(copy.tensor(), r.tensor());
    const double got[12] = {s.m_mean, s.m_stdev, s.m_count, s.m_per01, s.m_per05, s.m_per10,
                            s.m_per20, s.m_per50, s.m_per80, s.m_per90, s.m_per95, s.m_per99};
    // mean and standard deviation against the driver's own two-pass recomputation in long double (the percentiles come from the library's
    // percentile function, which C20 decides). For nearly constant values the last bits of the values decide about the deviation: the
    // stored one was computed from values that may differ in their last bits from the recomputed ones, hence the absolute term.
    long double sum = 0, meansq = 0;
    for (tensor_size_t i = 0; i < values.size(); ++i)
    {
        sum += values(i);
        meansq += static_cast<long double>(values(i)) * values(i) / static_cast<long double>(std::max<tensor_size_t>(values.size(), 1));
    }
    const auto mean = values.size() > 0 ? sum / static_cast<long double>(values.size()) : 0.0L;
    long double ss = 0;
    for (tensor_size_t i = 0; i < values.size(); ++i)
    {
        ss += (values(i) - mean) * (values(i) - mean);
    }
    const auto n        = static_cast<long double>(values.size());
    const auto refstdev = values.size() > 1 ? std::sqrt(ss / n / (n - 1)) : 0.0L; // (the library's definition: sqrt(variance / (N - 1)))
    const auto scale    = std::sqrt(meansq);
    // (absolute floor as in close(): the recomputed losses differ from the fit's own in their last bits - e.g. hinge losses 1 - t o of
    // 1e-7 carry the rounding of outputs of magnitude 1)
    // (values beyond 1e150 - exponential losses - have squares that overflow in double: the deviation is then not comparable)
    const auto stdev_close = scale > 1e150L || !std::isfinite(static_cast<double>(scale)) || (std::isfinite(got[1]) && std::fabs(static_cast<long double>(got[1]) - refstdev) <= 1e-9L * refstdev + 1e-11L * (1.0L + scale));
    const auto mean_close  = close(got[0], static_cast<double>(mean)) || scale > 1e290L || !std::isfinite(static_cast<double>(scale)); // (the sum itself overflows)
    if (!mean_close || !(stdev_close || !std::isfinite(static_cast<double>(refstdev))))
    {
        if (std::getenv("VERIF_DEBUG") != nullptr)
        {
            std::fprintf(stderr, "stats: stored mean %.17g stdev %.17g, recomputed mean %.17Lg stdev %.17Lg\n", got[0], got[1], mean, refstdev);
        }
        return false;
    }
    for (int i = 0; i < 12; ++i)
    {
        if (i != 1 && !close(got[i], r(i)))
        {
            if (std::getenv("VERIF_DEBUG") != nullptr)
            {
                std::fprintf(stderr, "stats slot %d: stored %.17g recomputed %.17g\n", i, got[i], r(i));
            }
            return false;
        }
    }
    return true;
}

double mean(const tensor1d_t& v)
{
    double s = 0;
    for (tensor_size_t i = 0; i < v.size(); ++i)
    {
        s += v(i);
    }
    return v.size() > 0 ? s / static_cast<double>(v.size()) : 0.0;
}

std::vector<int64_t> ranks(const std::vector<double>& xs)
{
    auto sorted = xs;
    std::sort(sorted.begin(), sorted.end());
    sorted.erase(std::unique(sorted.begin(), sorted.end()), sorted.end());
    std::vector<int64_t> out;
    for (const auto x : xs)
    {
        out.push_back(std::lower_bound(sorted.begin(), sorted.end(), x) - sorted.begin());
    }
    return out;
}

tensor4d_t predict_parts(const dataset_t& dataset, const indices_t& samples, const tensor1d_t& bias, const rwlearners_t& wlearners)
{
    tensor4d_t outputs(cat_dims(samples.size(), dataset.target_dims()));
    outputs.reshape(samples.size(), -1).matrix().rowwise() = bias.vector().transpose();
    for (const auto& wlearner : wlearners)
    {
        wlearner->predict(dataset, samples, outputs.tensor());
    }
    return outputs;
}

bool same_tensor(const tensor4d_t& a, const tensor4d_t& b, double tol)
{
    if (a.dims() != b.dims())
    {
        return false;
    }
    for (tensor_size_t i = 0; i < a.size(); ++i)
    {
        if (!close(a(i), b(i), tol))
        {
            return false;
        }
    }
    return true;
}

ml::params_t make_fit_params(vt::Rng& rng, int64_t& folds, std::string& desc)
{
    const auto splitter_id = rng.coin() ? "k-fold" : "random";
    auto       splitter    = splitter_t::all().get(splitter_id);
    folds                  = rng.range(2, 5);
    splitter->parameter("splitter::folds") = folds;
    splitter->parameter("splitter::seed")  = rng.range(0, 1024);
    const auto tuner_id = rng.coin() ? "local-search" : "surrogate";
    auto       tuner    = tuner_t::all().get(tuner_id);
    auto       solver   = solver_t::all().get("lbfgs");
    solver->parameter("solver::max_evals") = 300;
    solver->parameter("solver::epsilon")   = 1e-7;
    desc += std::string(" splitter=") + splitter_id + " folds=" + std::to_string(folds) + " tuner=" + tuner_id;
    return ml::params_t{}.splitter(*splitter).tuner(*tuner).solver(*solver);
}

// the samples a model is fitted on: all of the dataset, or a strict subset of it (a prefix, or scattered samples)
indices_t fit_samples(vt::Rng& rng, const tensor_size_t n)
{
    if (rng.coin())
    {
        return arange(0, n);
    }
    if (rng.coin())
    {
        return arange(0, std::max<tensor_size_t>(12, (2 * n) / 3));
    }
    std::vector<tensor_size_t> chosen;
    for (tensor_size_t s = 0; s < n; ++s)
    {
        if (rng.coin(3, 4))
        {
            chosen.push_back(s);
        }
    }
    if (chosen.size() < 12U)
    {
        return arange(0, n);
    }
    indices_t samples(static_cast<tensor_size_t>(chosen.size()));
    for (size_t i = 0; i < chosen.size(); ++i)
    {
        samples(static_cast<tensor_size_t>(i)) = chosen[i];
    }
    return samples;
}

template <class tmodel, class textra>
void report(const std::string& model_name, tmodel& model, const problem_t& p, const indices_t& samples, const loss_t& loss,
            const ml::params_t& fit_params, const ml::result_t& result, int64_t max_rounds)
{
    const auto& dataset = *p.dataset;
    const auto  splits  = fit_params.splitter().split(samples);

    vt::put(vt::J("Fit").s("model", model_name).i("folds", result.folds()).i("trials", result.trials()).i("maxRounds", max_rounds));

    std::vector<double> means;
    for (tensor_size_t trial = 0; trial < result.trials(); ++trial)
    {
        double sum = 0;
        for (tensor_size_t fold = 0; fold < result.folds(); ++fold)
        {
            const auto& [train, valid] = splits[static_cast<size_t>(fold)];
            const auto* extra = std::any_cast<textra>(&result.extra(trial, fold));
            vt::J      j("Slot");
            j.i("trial", trial).i("fold", fold);
            if (extra == nullptr)
            {
                j.b("trErrOK", false).b("trLossOK", false).b("vdErrOK", false).b("vdLossOK", false).b("splitOK", false).i("rows", 0).i("nl", 0).b("rowOK", false);
                vt::put(j);
                continue;
            }
            tensor4d_t tr_out, vd_out;
            int64_t    rows = 1, nl = 0;
            bool       rowOK = true;
            if constexpr (std::is_same_v<textra, gboost::result_t>)
            {
                tr_out = predict_parts(dataset, train, extra->m_bias, extra->m_wlearners);
                vd_out = predict_parts(dataset, valid, extra->m_bias, extra->m_wlearners);
                rows   = extra->m_statistics.template size<0>();
                nl     = static_cast<int64_t>(extra->m_wlearners.size());
            }
            else
            {
                tr_out = tensor4d_t(cat_dims(train.size(), dataset.target_dims()));
                vd_out = tensor4d_t(cat_dims(valid.size(), dataset.target_dims()));
                auto it1 = flatten_iterator_t{dataset, train};
                it1.scaling(scaling_type::none);
                it1.loop([&](tensor_range_t range, size_t, tensor2d_cmap_t inputs)
                         { linear::predict(inputs, extra->m_weights, extra->m_bias, tr_out.slice(range)); });
                auto it2 = flatten_iterator_t{dataset, valid};
                it2.scaling(scaling_type::none);
                it2.loop([&](tensor_range_t range, size_t, tensor2d_cmap_t inputs)
                         { linear::predict(inputs, extra->m_weights, extra->m_bias, vd_out.slice(range)); });
            }
            const auto tr_values = evaluate(dataset, train, loss, tr_out);
            const auto vd_values = evaluate(dataset, valid, loss, vd_out);
            if constexpr (std::is_same_v<textra, gboost::result_t>)
            {
                const auto last = rows - 1;
                rowOK = rows >= 1 && close(extra->m_statistics(last, 0), mean(tr_values.tensor(0)), 1e-10) &&
                        close(extra->m_statistics(last, 1), mean(tr_values.tensor(1)), 1e-10) &&
                        close(extra->m_statistics(last, 2), mean(vd_values.tensor(0)), 1e-10) &&
                        close(extra->m_statistics(last, 3), mean(vd_values.tensor(1)), 1e-10);
            }
            j.b("trErrOK", same_stats(result.stats(trial, fold, ml::split_type::train, ml::value_type::errors), tr_values.tensor(0)));
            j.b("trLossOK", same_stats(result.stats(trial, fold, ml::split_type::train, ml::value_type::losses), tr_values.tensor(1)));
            j.b("vdErrOK", same_stats(result.stats(trial, fold, ml::split_type::valid, ml::value_type::errors), vd_values.tensor(0)));
            j.b("vdLossOK", same_stats(result.stats(trial, fold, ml::split_type::valid, ml::value_type::losses), vd_values.tensor(1)));
            j.b("splitOK", train.size() + valid.size() == samples.size());
            j.i("rows", rows).i("nl", nl).b("rowOK", rowOK);
            vt::put(j);
            sum += mean(vd_values.tensor(0));
        }
        means.push_back(sum / static_cast<double>(result.folds()));
    }

    // the final model
    const auto optimum = result.optimum_trial();
    const auto outputs = model.predict(dataset, samples);
    const auto values  = evaluate(dataset, samples, loss, outputs);
    bool       avgOK = true, predSumOK = true;
    if constexpr (std::is_same_v<textra, gboost::result_t>)
    {
        // average of the per-fold models of the optimum trial
        tensor4d_t avg(cat_dims(samples.size(), dataset.target_dims()));
        avg.zero();
        for (tensor_size_t fold = 0; fold < result.folds(); ++fold)
        {
            const auto* extra = std::any_cast<textra>(&result.extra(optimum, fold));
            const auto  out   = predict_parts(dataset, samples, extra->m_bias, extra->m_wlearners);
            avg.vector() += out.vector();
        }
        avg.vector() /= static_cast<scalar_t>(result.folds());
        avgOK     = same_tensor(avg, outputs, 1e-9);
        predSumOK = same_tensor(predict_parts(dataset, samples, model.bias(), model.wlearners()), outputs, 1e-12);
    }
    else
    {
        tensor4d_t out(cat_dims(samples.size(), dataset.target_dims()));
        auto       it = flatten_iterator_t{dataset, samples};
        it.scaling(scaling_type::none);
        it.loop([&](tensor_range_t range, size_t, tensor2d_cmap_t inputs) { linear::predict(inputs, model.weights(), model.bias(), out.slice(range)); });
        predSumOK = same_tensor(out, outputs, 1e-12);
    }
    // learner_t::evaluate: the (errors, losses) of the fitted model as the library itself computes them for a caller, on the fitting
    // samples and on a longer list (450 entries taken from them in another order, with repetitions: more batches of the library's
    // iterator than the dataset's pool has threads, each predicted with the model's own batch size); the stored statistics are
    // compared with the driver's values above, and these with the library's here
    const auto same_values = [](const tensor2d_t& lib, const tensor2d_t& own)
    {
        bool ok = lib.dims() == own.dims();
        for (tensor_size_t i = 0; ok && i < lib.size(); ++i)
        {
            ok = close(lib(i), own(i), 1e-9);
        }
        return ok;
    };
    bool evalOK = false;
    {
        const watched_t watched(model_name + ": learner_t::evaluate on " + std::to_string(samples.size()) + " and on 450 samples, dataset with " +
                                std::to_string(dataset.concurrency()) + " threads");
        evalOK = same_values(model.evaluate(dataset, samples, loss), values);
        indices_t other(450);
        for (tensor_size_t i = 0; i < other.size(); ++i)
        {
            other(i) = samples((i * 7 + 3) % samples.size());
        }
        evalOK = evalOK && same_values(model.evaluate(dataset, other, loss), evaluate(dataset, other, loss, model.predict(dataset, other)));
    }
    vt::put(vt::J("Final")
                .i("optimum", optimum)
                .a("means", ranks(means))
                .b("avgOK", avgOK)
                .b("predSumOK", predSumOK)
                .b("statsErrOK", same_stats(result.stats(ml::value_type::errors), values.tensor(0)))
                .b("statsLossOK", same_stats(result.stats(ml::value_type::losses), values.tensor(1)))
                .b("evalOK", evalOK));
}

const std::vector<std::string>& classification_losses()
{
    static const std::vector<std::string> ids{"s-classnll", "s-logistic", "s-hinge", "s-exponential", "s-squared-hinge", "m-logistic", "m-hinge", "s-savage"};
    return ids;
}

// random hyper-parameters and weak-learner pool of a boosting model; returns max_rounds
int64_t configure_gboost(vt::Rng& rng, gboost_model_t& model, std::string& desc)
{
    const auto max_rounds = rng.range(10, 25);
    model.parameter("gboost::max_rounds") = max_rounds;
    model.parameter("gboost::patience")   = rng.range(1, 5);
    model.parameter("gboost::epsilon")    = rng.pick(std::vector<double>{1e-6, 1e-3, 1e-2});
    model.parameter("gboost::batch")      = rng.range(10, 40);
    model.parameter("gboost::seed")       = rng.range(0, 1024);
    const auto shrinkage = rng.pick(std::vector<std::string>{"off", "off", "global", "local"});
    const auto subsample = rng.pick(std::vector<std::string>{"off", "off", "subsample", "bootstrap", "wei_loss_bootstrap", "wei_grad_bootstrap"});
    const auto wscale    = rng.pick(std::vector<std::string>{"gboost", "tboost"});
    model.parameter("gboost::shrinkage") = shrinkage;
    model.parameter("gboost::subsample") = subsample;
    model.parameter("gboost::wscale")    = wscale;
    model.parameter("gboost::subsample_ratio") = rng.uniform(0.5, 1.0);

    const auto   all = std::vector<std::string>{"affine", "dense-table", "stump", "hinge", "dstep-table", "kbest-table", "ksplit-table", "dtree"};
    rwlearners_t prototypes;
    desc += " shrinkage=" + shrinkage + " subsample=" + subsample + " wscale=" + wscale + " protos=";
    for (const auto& id : all)
    {
        if (rng.coin(2, 5) || (prototypes.empty() && id == "dtree"))
        {
            prototypes.emplace_back(wlearner_t::all().get(id));
            desc += id + ",";
        }
    }
    model.prototypes(prototypes);
    return max_rounds;
}

void gboost_case(vt::Rng& rng, int64_t icase)
{
    auto       p    = make_problem(rng, true, rng.coin());
    const auto loss = loss_t::all().get(p.classification ? rng.pick(std::vector<std::string>{"s-classnll", "s-logistic", "s-hinge", "s-exponential"})
                                                         : rng.pick(std::vector<std::string>{"mse", "mae", "cauchy"}));
    auto model = gboost_model_t{};
    {
        std::string desc       = "loss=" + loss->type_id();
        const auto  max_rounds = configure_gboost(rng, model, desc);
        int64_t     folds      = 2;
        const auto  fit_params = make_fit_params(rng, folds, desc);

        vt::put(vt::J("Reset").i("case", icase).s("desc", desc).i("samples", p.dataset->samples()));
        const auto samples = fit_samples(rng, p.dataset->samples());
        const auto result  = [&]()
        {
            const watched_t watched("gboost fit: " + desc);
            return model.fit(*p.dataset, samples, *loss, fit_params);
        }();
        report<gboost_model_t, gboost::result_t>("gboost", model, p, samples, *loss, fit_params, result, max_rounds);
    }
    // the SAME (now fitted) object fitted again, with other hyper-parameters, weak learners, splits, samples and possibly another
    // loss: what it reports and predicts afterwards is about the second fit alone
    {
        const auto loss2 = loss_t::all().get(p.classification ? rng.pick(classification_losses()) : rng.pick(std::vector<std::string>{"mse", "mae", "cauchy"}));
        std::string desc       = "REFIT loss=" + loss2->type_id();
        const auto  max_rounds = configure_gboost(rng, model, desc);
        int64_t     folds      = 2;
        const auto  fit_params = make_fit_params(rng, folds, desc);

        vt::put(vt::J("Reset").i("case", icase).s("desc", desc).i("samples", p.dataset->samples()));
        const auto samples = fit_samples(rng, p.dataset->samples());
        const auto result  = [&]()
        {
            const watched_t watched("gboost fit: " + desc);
            return model.fit(*p.dataset, samples, *loss2, fit_params);
        }();
        report<gboost_model_t, gboost::result_t>("gboost", model, p, samples, *loss2, fit_params, result, max_rounds);
    }
}

void linear_case(vt::Rng& rng, int64_t icase)
{
    // regression problems and (one in three) two-class problems with the classification losses
    auto       p     = make_problem(rng, true, rng.coin());
    const auto id    = rng.pick(std::vector<std::string>{"ordinary", "ridge", "lasso", "elastic_net"});
    auto       model = linear_t::all().get(id);
    if (model == nullptr)
    {
        model = linear_t::all().get(linear_t::all().ids()[static_cast<size_t>(rng.range(0, 3))]);
    }
    // fitted, then the same object fitted again with another loss, scaling, batch, splits and samples
    for (int pass = 0; pass < 2; ++pass)
    {
        const auto loss = loss_t::all().get(p.classification ? rng.pick(classification_losses()) : rng.pick(std::vector<std::string>{"mse", "mae", "cauchy"}));
        model->parameter("linear::batch")   = rng.range(10, 40);
        model->parameter("linear::scaling") = rng.pick(std::vector<std::string>{"none", "mean", "minmax", "standard"});
        std::string desc  = std::string(pass == 0 ? "" : "REFIT ") + "linear=" + model->type_id() + " loss=" + loss->type_id();
        int64_t     folds = 2;
        const auto  fit_params = make_fit_params(rng, folds, desc);
        vt::put(vt::J("Reset").i("case", icase).s("desc", desc).i("samples", p.dataset->samples()));
        const auto samples = fit_samples(rng, p.dataset->samples());
        const auto result  = [&]()
        {
            const watched_t watched("linear fit: " + desc);
            return model->fit(*p.dataset, samples, *loss, fit_params);
        }();
        report<linear_t, linear::result_t>("linear", *model, p, samples, *loss, fit_params, result, 0);
    }
}
} // namespace

int main(int argc, char* argv[])
{
    if (argc < 5)
    {
        std::fprintf(stderr, "usage: fit_driver <out.ndjson> <seed> <gboost-cases> <linear-cases>\n");
        return 2;
    }
    vt::Trace::get().open(argv[1]);
    vt::Rng rng(static_cast<uint64_t>(std::atoll(argv[2])));
    const auto ng = std::atoll(argv[3]), nl = std::atoll(argv[4]);
    for (int64_t i = 0; i < ng; ++i)
    {
        try
        {
            gboost_case(rng, i);
        }
        catch (const std::exception& e)
        {
            vt::put(vt::J("Abort").s("why", e.what()));
        }
    }
    for (int64_t i = 0; i < nl; ++i)
    {
        try
        {
            linear_case(rng, ng + i);
        }
        catch (const std::exception& e)
        {
            vt::put(vt::J("Abort").s("why", e.what()));
        }
    }
    return 0;
}
