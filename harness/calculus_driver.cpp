// C06 conformance driver (scoped): values, gradients and convexity flags of functions, constraints, surrogates and losses.
//   calculus_driver <out.ndjson> <seed> <cases>
// Exact part: polynomial objectives / constraints / surrogate functions at lattice points (five-point stencil identity,
// first-order convexity inequality) and the piecewise-linear / quadratic losses on integer data - TLC re-computes these.
// Oracle part ("Generic" records, losses with transcendental kernels): central differences / tolerance inequalities computed
// here and asserted by the trace specification (environment predicates).
#include "counting.h"
#include "tabledata.h"
#include "trace.h"
#include <sstream>
#include <nano/dataset.h>
#include <nano/dataset/iterator.h>
#include <nano/generator/elemwise_identity.h>
#include <nano/gboost/function.h>
#include <nano/linear/function.h>
#include <nano/function/util.h>
#include <nano/loss.h>
#include <nano/loss/pinball.h>
#include <nano/tuner/surrogate.h>

using namespace nano;

namespace
{
struct poly_t
{
    const char* id;
    int         step;     // lattice step of the coordinates (zakharov has half-integer weights)
    int         min_dims; //
    int         max_dims; //
    int         radius;   // |x_i| <= radius * step
    bool        smooth;   // polynomial everywhere (stencil applies); otherwise piecewise polynomial (convexity only)
};

const poly_t polys[] = {
    {"sphere", 1, 1, 6, 4, true},          {"trid", 1, 2, 5, 4, true},          {"qing", 1, 1, 4, 3, true},
    {"powell", 1, 4, 4, 2, true},          {"rosenbrock", 1, 2, 4, 2, true},    {"chung-reynolds", 1, 1, 4, 3, true},
    {"axis-ellipsoid", 1, 1, 5, 4, true},  {"rotated-ellipsoid", 1, 1, 5, 3, true}, {"dixon-price", 1, 2, 4, 2, true},
    {"styblinski-tang", 1, 1, 5, 3, true}, {"schumer-steiglitz", 1, 1, 5, 3, true}, {"zakharov", 2, 1, 3, 1, true},
    {"maxq", 1, 1, 5, 4, false},           {"chained_lq", 1, 2, 5, 3, false},
};

vector_t lattice_point(vt::Rng& rng, tensor_size_t n, int radius, int step)
{
    vector_t x(n);
    for (tensor_size_t i = 0; i < n; ++i)
    {
        x(i) = static_cast<scalar_t>(rng.range(-radius, radius) * step);
    }
    return x;
}

using eval_fun_t = std::function<scalar_t(const vector_t&, vector_t*)>;

bool lat2(const scalar_t v, int64_t& out)
{
    return vt::to_lattice(v, 2.0, out);
}

// the exact stencil record along a lattice direction
void stencil(vt::Rng& rng, const std::string& name, const eval_fun_t& eval, tensor_size_t n, int radius, int step, int64_t kase)
{
    const auto x = lattice_point(rng, n, radius, step);
    vector_t   d(n);
    do
    {
        for (tensor_size_t i = 0; i < n; ++i)
        {
            d(i) = static_cast<scalar_t>(rng.range(-1, 1));
        }
        if (rng.coin(1, 3)) // a coordinate direction
        {
            d.full(0.0);
            d(rng.range(0, n - 1)) = 1.0;
        }
    } while (d.lpNorm<1>() == 0.0);

    const auto h = static_cast<scalar_t>(step);
    vector_t   g(n);
    const auto fx     = eval(x, &g);
    const auto fx_val = eval(x, nullptr);

    int64_t fp1 = 0, fp2 = 0, fm1 = 0, fm2 = 0, g2 = 0;
    vector_t y  = x + h * d;
    auto     ok = lat2(eval(y, nullptr), fp1);
    y           = x + 2 * h * d;
    ok          = lat2(eval(y, nullptr), fp2) && ok;
    y           = x - h * d;
    ok          = lat2(eval(y, nullptr), fm1) && ok;
    y           = x - 2 * h * d;
    ok          = lat2(eval(y, nullptr), fm2) && ok;
    ok          = lat2(g.dot(d), g2) && ok;
    std::vector<int64_t> xs, ds;
    for (tensor_size_t i = 0; i < n; ++i)
    {
        xs.push_back(static_cast<int64_t>(x(i)));
        ds.push_back(static_cast<int64_t>(d(i)));
    }
    if (!ok)
    {
        vt::put(vt::J("Inexact").s("fn", name).a("x", xs).a("d", ds).i("case", kase));
        return;
    }
    vt::put(vt::J("Stencil").s("fn", name).i("dims", n).a("x", xs).a("d", ds).i("h", step).i("fp1", fp1).i("fp2", fp2).i("fm1", fm1).i("fm2", fm2)
                .i("g2", g2).b("valueOnlySame", vt::same_bits(fx, fx_val)).i("case", kase));
}

// the exact convexity record on a lattice pair
void convex_record(vt::Rng& rng, const std::string& name, const eval_fun_t& eval, bool declared, scalar_t mu, tensor_size_t n, int radius, int step,
               int64_t kase)
{
    const auto x = lattice_point(rng, n, radius, step);
    const auto z = lattice_point(rng, n, radius, step);
    vector_t   g(n);
    const auto fx = eval(x, &g);
    const auto fz = eval(z, nullptr);
    int64_t    fx2 = 0, fz2 = 0, gdot2 = 0;
    const auto dz = z - x;
    if (!lat2(fx, fx2) || !lat2(fz, fz2) || !lat2(g.dot(dz), gdot2))
    {
        vt::put(vt::J("Inexact").s("fn", name).i("case", kase));
        return;
    }
    // floor(mu ||z - x||^2), slightly shrunk: a sound weakening when mu comes out of an eigen-decomposition
    const auto munorm = mu * dz.squaredNorm();
    const auto mun2   = static_cast<int64_t>(std::floor(munorm - 1e-9 * std::max(1.0, std::fabs(munorm))));
    std::vector<int64_t> xs, zs;
    for (tensor_size_t i = 0; i < n; ++i)
    {
        xs.push_back(static_cast<int64_t>(x(i)));
        zs.push_back(static_cast<int64_t>(z(i)));
    }
    vt::put(vt::J("Convex").s("fn", name).i("dims", n).b("declared", declared).a("x", xs).a("z", zs).i("fx2", fx2).i("fz2", fz2).i("gdot2", gdot2)
                .i("munorm2", std::max<int64_t>(mun2, 0)).i("case", kase));
}

eval_fun_t of_function(const function_t& f)
{
    return [&f](const vector_t& x, vector_t* g) { return g != nullptr ? f.vgrad(x, *g) : f.vgrad(x); };
}

eval_fun_t of_constraint(const constraint_t& c)
{
    return [&c](const vector_t& x, vector_t* g) { return g != nullptr ? ::nano::vgrad(c, x, *g) : ::nano::vgrad(c, x); };
}

constraint_t make_constraint(vt::Rng& rng, int kind, tensor_size_t n, std::string& name, rfunction_t& keep)
{
    const auto ivec = [&](int lo, int hi)
    {
        vector_t v(n);
        for (tensor_size_t i = 0; i < n; ++i)
        {
            v(i) = static_cast<scalar_t>(rng.range(lo, hi));
        }
        return v;
    };
    const auto imat = [&](bool psd)
    {
        matrix_t P(n, n);
        if (psd)
        {
            matrix_t B(n, n);
            for (tensor_size_t i = 0; i < n * n; ++i)
            {
                B(i) = static_cast<scalar_t>(rng.range(-2, 2));
            }
            P = B.transpose() * B;
            if (rng.coin())
            {
                P.matrix() += matrix_t::identity(n, n).matrix() * static_cast<scalar_t>(rng.range(1, 3));
            }
        }
        else
        {
            for (tensor_size_t i = 0; i < n; ++i)
            {
                for (tensor_size_t j = i; j < n; ++j)
                {
                    P(i, j) = P(j, i) = static_cast<scalar_t>(rng.range(-3, 3));
                }
            }
        }
        return P;
    };
    const auto dim = rng.range(0, n - 1);
    const auto val = static_cast<scalar_t>(rng.range(-3, 3));
    switch (kind)
    {
    case 0: name = "constant"; return constraint::constant_t{val, dim};
    case 1: name = "minimum"; return constraint::minimum_t{{val, dim}};
    case 2: name = "maximum"; return constraint::maximum_t{{val, dim}};
    case 3: name = "ball-eq"; return constraint::euclidean_ball_equality_t{{ivec(-2, 2), static_cast<scalar_t>(rng.range(1, 3))}};
    case 4: name = "ball-ineq"; return constraint::euclidean_ball_inequality_t{{ivec(-2, 2), static_cast<scalar_t>(rng.range(1, 3))}};
    case 5: name = "linear-eq"; return constraint::linear_equality_t{{ivec(-3, 3), val}};
    case 6: name = "linear-ineq"; return constraint::linear_inequality_t{{ivec(-3, 3), val}};
    case 7: name = "quadratic-eq"; return constraint::quadratic_equality_t{{imat(rng.coin()), ivec(-3, 3), val}};
    case 8: name = "quadratic-ineq"; return constraint::quadratic_inequality_t{{imat(rng.coin()), ivec(-3, 3), val}};
    default:
    {
        const auto& p = polys[rng.range(0, 13)];
        const auto  m = std::clamp<tensor_size_t>(n, p.min_dims, p.max_dims);
        keep          = function_t::all().get(p.id)->make(m, 10);
        name          = std::string(kind == 9 ? "functional-eq:" : "functional-ineq:") + p.id;
        if (kind == 9)
        {
            return constraint::functional_equality_t{*keep};
        }
        return constraint::functional_inequality_t{*keep};
    }
    }
}

// ---- float oracles for arbitrary registered functions (environment predicates)
struct oracle_t
{
    bool   gradOK{true}, convexOK{true}, strongOK{true}, valueSame{true}, differentiable{false};
    double graderr{0}, convexgap{0};
};

oracle_t generic_oracle(vt::Rng& rng, const function_t& f, bool check_grad)
{
    oracle_t   o;
    const auto n      = f.size();
    const auto radius = std::pow(10.0, rng.uniform(-3.0, 1.0));
    vector_t   x(n), z(n), d(n), g(n), y(n);
    for (tensor_size_t i = 0; i < n; ++i)
    {
        x(i) = rng.uniform(-radius, radius);
        z(i) = rng.uniform(-radius, radius);
        d(i) = rng.uniform(-1.0, 1.0);
    }
    d.vector() /= std::max(d.lpNorm<2>(), 1e-12);
    const auto fx = f.vgrad(x, g);
    const auto fv = f.vgrad(x);
    const auto fz = f.vgrad(z);
    o.valueSame   = vt::same_bits(fx, fv);
    if (!std::isfinite(fx) || !std::isfinite(fz) || !g.all_finite())
    {
        return o; // overflow regions are outside the property (values must be finite to compare)
    }
    if (f.convex())
    {
        // first-order inequality: plain convexity, and with the declared strong-convexity coefficient
        const auto dz   = z - x;
        const auto rhs0 = fx + g.dot(dz);
        const auto rhs  = rhs0 + 0.5 * f.strong_convexity() * dz.squaredNorm();
        const auto tol  = 1e-9 * (1.0 + std::fabs(fx) + std::fabs(fz) + std::fabs(g.dot(dz)) + f.strong_convexity() * dz.squaredNorm());
        o.convexgap     = (rhs - fz) / (tol * 1e9);
        o.convexOK      = fz >= rhs0 - tol;
        o.strongOK      = fz >= rhs - tol;
    }
    if (!check_grad)
    {
        // non-smooth prototypes: wherever the function is differentiable along d (the one-sided difference quotients agree) the
        // returned subgradient must be the derivative there; near a kink nothing is demanded
        const auto e  = 1e-6 * std::max(1.0, x.lpNorm<Eigen::Infinity>());
        y             = x + e * d;
        const auto fp = f.vgrad(y);
        y             = x - e * d;
        const auto fm = f.vgrad(y);
        const auto dr = (fp - fx) / e, dl = (fx - fm) / e;
        const auto S  = 1.0 + std::fabs(dl) + std::fabs(dr) + std::fabs(fx) * 1e-6 / e;
        if (std::isfinite(fp) && std::isfinite(fm) && std::fabs(dr - dl) <= 1e-4 * S)
        {
            o.graderr = std::fabs(g.dot(d) - 0.5 * (dl + dr)) / S;
            o.gradOK  = o.graderr <= 1e-3;
            o.differentiable = true;
        }
    }
    if (check_grad)
    {
        auto best = std::numeric_limits<double>::max();
        for (const auto eps : {1e-3, 1e-4, 1e-5, 1e-6, 1e-7})
        {
            const auto e = eps * std::max(1.0, x.lpNorm<Eigen::Infinity>());
            y            = x + e * d;
            const auto p = f.vgrad(y);
            y            = x - e * d;
            const auto m = f.vgrad(y);
            const auto a = (p - m) / (2 * e);
            best         = std::min(best, std::fabs(a - g.dot(d)) / (1.0 + std::fabs(g.dot(d)) + std::fabs(fx)));
        }
        o.graderr = best;
        o.gradOK  = best < 1e-6;
    }
    return o;
}

// ---- constraints with random REAL coefficients in any dimension: the constraint seen as a function (value / gradient through
// nano::vgrad(constraint, ...), flags through nano::convex / smooth / strong_convexity) under the float oracles above
class constraint_function_t final : public function_t
{
public:
    constraint_function_t(constraint_t c, tensor_size_t n)
        : function_t("verif-constraint", n)
        , m_constraint(std::move(c))
    {
        convex(::nano::convex(m_constraint) ? convexity::yes : convexity::no);
        smooth(::nano::smooth(m_constraint) ? smoothness::yes : smoothness::no);
        strong_convexity(::nano::strong_convexity(m_constraint));
    }

    rfunction_t clone() const override { return std::make_unique<constraint_function_t>(*this); }

    scalar_t do_vgrad(vector_cmap_t x, vector_map_t gx) const override { return ::nano::vgrad(m_constraint, x, gx); }

private:
    constraint_t m_constraint;
};

constraint_t make_real_constraint(vt::Rng& rng, int kind, tensor_size_t& n, std::string& name, const strings_t& fun_ids)
{
    const auto scale = std::pow(10.0, rng.uniform(-2.0, 1.0));
    const auto rvec  = [&]()
    {
        vector_t v(n);
        for (tensor_size_t i = 0; i < n; ++i)
        {
            v(i) = rng.uniform(-scale, scale);
        }
        return v;
    };
    const auto rmat = [&]()
    {
        // symmetric P (the check's assumption): positive semi-definite of any rank, positive definite, or indefinite
        matrix_t   P(n, n);
        const auto shape = rng.range(0, 2);
        if (shape < 2)
        {
            const auto rows = shape == 0 ? rng.range(1, n) : n;
            matrix_t   B(rows, n);
            for (tensor_size_t i = 0; i < B.size(); ++i)
            {
                B(i) = rng.uniform(-scale, scale);
            }
            P = B.transpose() * B;
            if (shape == 1)
            {
                P.matrix() += matrix_t::identity(n, n).matrix() * rng.uniform(0.01, 2.0);
            }
        }
        for (tensor_size_t i = 0; i < n; ++i)
        {
            for (tensor_size_t j = i; j < n; ++j)
            {
                P(i, j) = P(j, i) = shape == 2 ? rng.uniform(-scale, scale) : 0.5 * (P(i, j) + P(j, i));
            }
        }
        return P;
    };
    const auto dim = rng.range(0, n - 1);
    const auto val = rng.uniform(-scale, scale);
    switch (kind)
    {
    case 0: name = "constant"; return constraint::constant_t{val, dim};
    case 1: name = "minimum"; return constraint::minimum_t{{val, dim}};
    case 2: name = "maximum"; return constraint::maximum_t{{val, dim}};
    case 3: name = "ball-eq"; return constraint::euclidean_ball_equality_t{{rvec(), rng.uniform(0.01, 3.0)}};
    case 4: name = "ball-ineq"; return constraint::euclidean_ball_inequality_t{{rvec(), rng.uniform(0.01, 3.0)}};
    case 5: name = "linear-eq"; return constraint::linear_equality_t{{rvec(), val}};
    case 6: name = "linear-ineq"; return constraint::linear_inequality_t{{rvec(), val}};
    case 7: name = "quadratic-eq"; return constraint::quadratic_equality_t{{rmat(), rvec(), val}};
    case 8: name = "quadratic-ineq"; return constraint::quadratic_inequality_t{{rmat(), rvec(), val}};
    default:
    {
        // any registered prototype (random summands: random data inside the machine-learning flavoured ones)
        rfunction_t f;
        std::string id;
        for (int tries = 0; tries < 20 && !f; ++tries)
        {
            id = fun_ids[static_cast<size_t>(rng.range(0, static_cast<int64_t>(fun_ids.size()) - 1))];
            try
            {
                f = function_t::all().get(id)->make(n, rng.range(5, 40));
            }
            catch (const std::exception&)
            {
                f.reset();
            }
        }
        if (!f)
        {
            id = "sphere";
            f  = function_t::all().get(id)->make(n, 10);
        }
        n    = f->size();
        name = std::string(kind == 9 ? "functional-eq:" : "functional-ineq:") + id;
        if (kind == 9)
        {
            return constraint::functional_equality_t{std::move(f)};
        }
        return constraint::functional_inequality_t{std::move(f)};
    }
    }
}

// ---- losses
struct loss_info_t
{
    std::string base, ekind;
};

loss_info_t loss_info(const std::string& id)
{
    if (id == "pinball")
    {
        return {"pinball", "value"};
    }
    if (id.rfind("s-", 0) == 0)
    {
        return {id.substr(2), "sclass"};
    }
    if (id.rfind("m-", 0) == 0)
    {
        return {id.substr(2), "mclass"};
    }
    return {id, "absdiff"};
}

void loss_case(vt::Rng& rng, const std::string& id, int64_t kase)
{
    auto       loss = loss_t::all().get(id);
    const auto info = loss_info(id);
    int64_t    a4   = 2;
    if (id == "pinball")
    {
        a4 = rng.range(0, 4);
        loss->parameter("loss::pinball::alpha") = static_cast<scalar_t>(a4) / 4.0;
    }
    const auto exact = info.base == "mse" || info.base == "mae" || info.base == "hinge" || info.base == "squared-hinge" || info.base == "pinball";

    const tensor_size_t samples = rng.range(1, 5);
    const tensor_size_t k       = rng.coin(1, 4) ? 1 : rng.range(1, exact ? 6 : 13);
    tensor4d_t          targets(samples, k, 1, 1), outputs(samples, k, 1, 1), outputz(samples, k, 1, 1);
    const auto          orange = exact ? 4 : 30;
    for (tensor_size_t s = 0; s < samples; ++s)
    {
        const auto pattern = rng.range(0, 3);
        const auto hot     = rng.range(0, k - 1);
        const auto real    = exact ? rng.coin(1, 3) : rng.coin(); // real-valued predictions in [-30, 30] (the exact rules need the lattice)
        for (tensor_size_t i = 0; i < k; ++i)
        {
            if (info.ekind == "absdiff" || info.ekind == "value")
            {
                targets(s, i, 0, 0) = static_cast<scalar_t>(rng.range(-5, 5));
            }
            else if (info.ekind == "sclass")
            {
                // single-label: exactly one positive label (one output: binary classification, either sign)
                targets(s, i, 0, 0) = (k == 1) ? (pattern < 2 ? 1.0 : -1.0) : (i == hot ? 1.0 : -1.0);
            }
            else
            {
                targets(s, i, 0, 0) = rng.coin() ? 1.0 : -1.0;
            }
            outputs(s, i, 0, 0) = static_cast<scalar_t>(rng.range(-orange, orange));
            outputz(s, i, 0, 0) = static_cast<scalar_t>(rng.range(-orange, orange));
            if (real)
            {
                outputs(s, i, 0, 0) = rng.uniform(-30.0, 30.0);
                outputz(s, i, 0, 0) = rng.uniform(-30.0, 30.0);
            }
        }
        if (rng.coin(1, 3) && k > 1) // ties in the maximum output: the first maximum decides
        {
            const auto m = outputs.array(s).maxCoeff();
            outputs(s, rng.range(0, k - 1), 0, 0) = m;
            outputs(s, rng.range(0, k - 1), 0, 0) = m;
        }
    }
    tensor1d_t values, valuez, errors;
    tensor4d_t vgrads;
    loss->value(targets, outputs, values);
    loss->value(targets, outputz, valuez);
    loss->error(targets, outputs, errors);
    loss->vgrad(targets, outputs, vgrads);

    for (tensor_size_t s = 0; s < samples; ++s)
    {
        // the sample alone, and the sample within a batch of different neighbours: same value, error, gradient (bit for bit)
        tensor4d_t t1(1, k, 1, 1), o1(1, k, 1, 1);
        t1.vector() = targets.vector(s);
        o1.vector() = outputs.vector(s);
        tensor1d_t v1, e1;
        tensor4d_t g1;
        loss->value(t1, o1, v1);
        loss->error(t1, o1, e1);
        loss->vgrad(t1, o1, g1);
        // (bit for bit for the polynomial / piecewise-linear kernels; the vectorised exp/log/atan kernels may differ in the last bits
        //  with the alignment of the sample inside the batch, which is rounding and not a dependency on the other samples)
        const auto close = [&](const scalar_t a, const scalar_t b)
        { return vt::same_bits(a, b) || (!exact && std::fabs(a - b) <= 1e-12 * std::max({1.0, std::fabs(a), std::fabs(b)})); };
        auto local = close(v1(0), values(s)) && vt::same_bits(e1(0), errors(s));
        for (tensor_size_t i = 0; i < k; ++i)
        {
            local = local && close(g1(0, i, 0, 0), vgrads(s, i, 0, 0));
        }
        const auto nonneg = values(s) >= 0.0 && errors(s) >= 0.0;

        std::vector<int64_t> ts, os, zs, g4;
        auto                 lattice = true;
        int64_t              val4 = -1, valz4 = -1, err = -1;
        for (tensor_size_t i = 0; i < k; ++i)
        {
            int64_t a = 0, b = 0, c = 0, g = 0;
            lattice = vt::to_lattice(targets(s, i, 0, 0), 1.0, a) && vt::to_lattice(outputs(s, i, 0, 0), 1.0, b) &&
                      vt::to_lattice(outputz(s, i, 0, 0), 1.0, c) && lattice;
            if (exact && lattice && !vt::to_lattice(vgrads(s, i, 0, 0), 4.0, g))
            {
                vt::put(vt::J("Inexact").s("fn", id).i("case", kase));
                return;
            }
            ts.push_back(a);
            os.push_back(b);
            zs.push_back(c);
            g4.push_back(g);
        }
        if (exact && lattice && (!vt::to_lattice(values(s), 4.0, val4) || !vt::to_lattice(valuez(s), 4.0, valz4)))
        {
            vt::put(vt::J("Inexact").s("fn", id).i("case", kase));
            return;
        }
        if (lattice && !vt::to_lattice(errors(s), info.ekind == "value" ? 4.0 : 1.0, err))
        {
            vt::put(vt::J("Inexact").s("fn", id).s("what", "error").i("case", kase));
            return;
        }
        // oracles for the transcendental kernels
        auto gradOK = true, convexOK = true;
        if (std::isfinite(values(s)) && std::isfinite(valuez(s)) && vector_t{vgrads.vector(s)}.all_finite())
        {
            const vector_t g  = vgrads.vector(s);
            const vector_t dz = outputz.vector(s) - outputs.vector(s);
            if (loss->convex())
            {
                const auto rhs = values(s) + g.dot(dz);
                const auto tol = 1e-9 * (1.0 + std::fabs(values(s)) + std::fabs(valuez(s)) + std::fabs(g.dot(dz)));
                convexOK       = valuez(s) >= rhs - tol;
            }
            if (loss->smooth())
            {
                vector_t d(k);
                for (tensor_size_t i = 0; i < k; ++i)
                {
                    d(i) = rng.uniform(-1.0, 1.0);
                }
                auto best = std::numeric_limits<double>::max();
                for (const auto eps : {1e-3, 1e-4, 1e-5, 1e-6, 1e-7})
                {
                    tensor4d_t op = o1, om = o1;
                    op.vector() += eps * d.vector();
                    om.vector() -= eps * d.vector();
                    tensor1d_t vp, vm;
                    loss->value(t1, op, vp);
                    loss->value(t1, om, vm);
                    const auto a = (vp(0) - vm(0)) / (2 * eps);
                    best         = std::min(best, std::fabs(a - g.dot(d)) / (1.0 + std::fabs(g.dot(d)) + std::fabs(values(s))));
                }
                gradOK = best < 1e-6;
            }
        }
        // the error rule recomputed on the actual (real-valued) targets and predictions
        auto errOK = true;
        {
            constexpr auto epsm = std::numeric_limits<scalar_t>::epsilon();
            double         want = 0.0;
            if (info.ekind == "absdiff")
            {
                for (tensor_size_t i = 0; i < k; ++i)
                {
                    want += std::fabs(targets(s, i, 0, 0) - outputs(s, i, 0, 0));
                }
                errOK = std::fabs(errors(s) - want) <= 1e-12 * (1.0 + want);
            }
            else if (info.ekind == "mclass" || (info.ekind == "sclass" && k == 1))
            {
                for (tensor_size_t i = 0; i < k; ++i)
                {
                    want += (targets(s, i, 0, 0) * outputs(s, i, 0, 0) < epsm) ? 1.0 : 0.0;
                }
                errOK = errors(s) == want;
            }
            else if (info.ekind == "sclass")
            {
                tensor_size_t imax = 0;
                for (tensor_size_t i = 1; i < k; ++i)
                {
                    imax = outputs(s, i, 0, 0) > outputs(s, imax, 0, 0) ? i : imax; // first maximum
                }
                errOK = errors(s) == (targets(s, imax, 0, 0) > 0.0 ? 0.0 : 1.0);
            }
            else
            {
                errOK = vt::same_bits(errors(s), values(s));
            }
        }
        vt::J j("Loss");
        j.s("loss", id).s("base", (exact && !lattice) ? info.base + "-real" : info.base).s("ekind", lattice ? info.ekind : "none").i("a4", a4).b("convex", loss->convex()).b("smooth", loss->smooth());
        j.a("t", ts).a("o", lattice ? os : std::vector<int64_t>{}).a("z", lattice ? zs : std::vector<int64_t>{}).a("g4", g4);
        j.i("val4", val4).i("valz4", valz4).i("err", err).b("nonneg", nonneg).b("local", local).b("gradOK", gradOK).b("convexOK", convexOK).b("errOK", errOK);
        j.b("valueSame", true).i("case", kase);
        vt::put(j);
    }
}

// ---- machine-learning objectives over a random dataset (1..4 target values, scalar and categorical inputs with missing values): the
// linear objective with any loss and regularisation, the gradient-boosting bias objective - the generic oracles (environment predicates)
void ml_case(vt::Rng& rng, int64_t kase)
{
    const auto n = rng.range(8, 40), tsize = rng.range(1, 4);
    std::vector<vt::column_t> columns;
    for (int64_t c = 0, nc = rng.range(1, 4); c < nc; ++c)
    {
        auto col = vt::make_scalar_column("x" + std::to_string(c), feature_type::float64, n);
        for (int64_t i = 0; i < n; ++i)
        {
            col.flat[static_cast<size_t>(i)]    = rng.uniform(-2.0, 2.0);
            col.missing[static_cast<size_t>(i)] = static_cast<char>(rng.coin(1, 8));
        }
        columns.push_back(col);
    }
    if (rng.coin())
    {
        auto col = vt::make_sclass_column("c", 3, n);
        for (int64_t i = 0; i < n; ++i)
        {
            col.flat[static_cast<size_t>(i)] = static_cast<double>(rng.range(0, 2));
        }
        columns.push_back(col);
    }
    auto y = tsize == 1 ? vt::make_scalar_column("y", feature_type::float64, n) : vt::make_struct_column("y", feature_type::float64, make_dims(tsize, 1, 1), n);
    for (auto& v : y.flat)
    {
        v = rng.coin() ? 1.0 : -1.0; // +-1 targets are meaningful for regression and classification losses alike
        v *= rng.coin(1, 3) ? rng.uniform(0.5, 2.0) : 1.0;
    }
    columns.push_back(y);
    vt::table_datasource_t source(n, columns, columns.size() - 1U);
    source.load();
    dataset_t dataset(source, static_cast<size_t>(rng.range(1, 4)));
    dataset.add<sclass_identity_generator_t>();
    dataset.add<scalar_identity_generator_t>();
    dataset.add<struct_identity_generator_t>();
    const auto samples = arange(0, n);
    const auto ids     = loss_t::all().ids();
    const auto lossid  = ids[static_cast<size_t>(rng.range(0, static_cast<int64_t>(ids.size()) - 1))];
    const auto loss    = loss_t::all().get(lossid);

    auto it = flatten_iterator_t{dataset, samples};
    it.batch(rng.pick(std::vector<tensor_size_t>{3, 16, 1000}));
    it.scaling(rng.pick(std::vector<scaling_type>{scaling_type::none, scaling_type::standard}));
    const auto l1 = rng.coin() ? 0.0 : rng.uniform(0.01, 3.0), l2 = rng.coin() ? 0.0 : rng.uniform(0.01, 3.0);
    const auto linear = linear::function_t{it, *loss, l1, l2};
    const auto o      = generic_oracle(rng, linear, linear.smooth());
    vt::put(vt::J("Generic").s("fn", "linear-objective:" + lossid).i("dims", linear.size()).b("convex", linear.convex()).b("smooth", linear.smooth()).b("gradOK", o.gradOK)
                .b("differentiable", o.differentiable).b("convexOK", o.convexOK).b("strongOK", o.strongOK).b("l2", l2 > 0.0).b("valueOnlySame", true).i("graderr_e12", static_cast<int64_t>(std::min(o.graderr * 1e12, 2e9)))
                .i("case", kase));

    auto tit = targets_iterator_t{dataset, samples};
    tit.batch(rng.pick(std::vector<tensor_size_t>{3, 16, 1000}));
    const auto bias = gboost::bias_function_t{tit, *loss};
    const auto ob   = generic_oracle(rng, bias, bias.smooth());
    vt::put(vt::J("Generic").s("fn", "gboost-bias:" + lossid).i("dims", bias.size()).b("convex", bias.convex()).b("smooth", bias.smooth()).b("gradOK", ob.gradOK)
                .b("differentiable", ob.differentiable).b("convexOK", ob.convexOK).b("strongOK", ob.strongOK).b("valueOnlySame", true).i("graderr_e12", static_cast<int64_t>(std::min(ob.graderr * 1e12, 2e9)))
                .i("case", kase));

    // the two other gradient boosting objectives: the scale objective over random clusters (some samples unassigned) and
    // strong / weak learner outputs, and the per-sample gradient objective
    const auto groups = rng.range(1, 4);
    cluster_t  cluster(n, groups);
    tensor4d_t soutputs(cat_dims(n, dataset.target_dims())), woutputs(cat_dims(n, dataset.target_dims()));
    for (tensor_size_t i = 0; i < soutputs.size(); ++i)
    {
        soutputs(i) = rng.uniform(-1.0, 1.0);
        woutputs(i) = rng.uniform(-1.0, 1.0);
    }
    for (tensor_size_t i = 0; i < n; ++i)
    {
        cluster.assign(i, rng.coin(1, 5) ? -1 : rng.range(0, groups - 1));
    }
    // (the per-thread partial sums of these objectives are combined in scheduling order: value-only and value+gradient calls agree
    // up to that re-association, not bit for bit)
    const auto same_value = [&](const function_t& f)
    {
        vector_t x(f.size()), g(f.size());
        for (tensor_size_t i = 0; i < x.size(); ++i)
        {
            x(i) = rng.uniform(-1.0, 1.0);
        }
        const auto fg = f.vgrad(x, g), fv = f.vgrad(x);
        return (!std::isfinite(fg) && !std::isfinite(fv)) || std::fabs(fg - fv) <= 1e-12 * (1.0 + std::fabs(fg));
    };
    const auto scale = gboost::scale_function_t{tit, *loss, cluster, soutputs, woutputs};
    const auto os    = generic_oracle(rng, scale, scale.smooth());
    vt::put(vt::J("Generic").s("fn", "gboost-scale:" + lossid).i("dims", scale.size()).b("convex", scale.convex()).b("smooth", scale.smooth()).b("gradOK", os.gradOK)
                .b("differentiable", os.differentiable).b("convexOK", os.convexOK).b("strongOK", os.strongOK).b("valueOnlySame", same_value(scale)).i("graderr_e12", static_cast<int64_t>(std::min(os.graderr * 1e12, 2e9)))
                .i("case", kase));
    const auto grads = gboost::grads_function_t{tit, *loss};
    const auto og    = generic_oracle(rng, grads, grads.smooth());
    vt::put(vt::J("Generic").s("fn", "gboost-grads:" + lossid).i("dims", grads.size()).b("convex", grads.convex()).b("smooth", grads.smooth()).b("gradOK", og.gradOK)
                .b("differentiable", og.differentiable).b("convexOK", og.convexOK).b("strongOK", og.strongOK).b("valueOnlySame", same_value(grads)).i("graderr_e12", static_cast<int64_t>(std::min(og.graderr * 1e12, 2e9)))
                .i("case", kase));

    // ---- the same objectives over other sample lists (strict subsets, permutations, lists with repeated samples: folds, bootstrap
    // samples), all four scaling modes, cached or not
    const auto mode = rng.range(0, 2);
    indices_t  list;
    if (mode == 0) // strict subset, in any order
    {
        auto perm = arange(0, n);
        for (tensor_size_t i = n - 1; i > 0; --i)
        {
            std::swap(perm(i), perm(rng.range(0, i)));
        }
        list = perm.slice(0, rng.range(std::min<int64_t>(2, n - 1), n - 1));
        if (rng.coin())
        {
            std::sort(list.begin(), list.end());
        }
    }
    else if (mode == 1) // permutation of all samples
    {
        list = arange(0, n);
        for (tensor_size_t i = n - 1; i > 0; --i)
        {
            std::swap(list(i), list(rng.range(0, i)));
        }
    }
    else // repeated samples
    {
        list.resize(rng.range(2, 2 * n));
        for (auto& s : list)
        {
            s = rng.range(0, n - 1);
        }
    }
    const auto mname   = std::string(mode == 0 ? "subset" : (mode == 1 ? "permuted" : "repeated"));
    const auto scaling = rng.pick(std::vector<scaling_type>{scaling_type::none, scaling_type::mean, scaling_type::minmax, scaling_type::standard});
    const auto emit    = [&](const std::string& fn, const function_t& f, const oracle_t& r, const bool value_same, const bool with_l2)
    {
        vt::put(vt::J("Generic").s("fn", fn + ":" + lossid).i("dims", f.size()).b("convex", f.convex()).b("smooth", f.smooth()).b("gradOK", r.gradOK)
                    .b("differentiable", r.differentiable).b("convexOK", r.convexOK).b("strongOK", r.strongOK).b("l2", with_l2).b("valueOnlySame", value_same)
                    .i("graderr_e12", static_cast<int64_t>(std::min(r.graderr * 1e12, 2e9))).s("samples", mname).i("scaling", static_cast<int64_t>(scaling)).i("case", kase));
    };
    {
        auto it2 = flatten_iterator_t{dataset, list};
        it2.batch(rng.pick(std::vector<tensor_size_t>{3, 16, 1000}));
        it2.scaling(scaling);
        if (rng.coin())
        {
            it2.cache_flatten(std::numeric_limits<tensor_size_t>::max());
        }
        if (rng.coin())
        {
            it2.cache_targets(std::numeric_limits<tensor_size_t>::max());
        }
        const auto linear2 = linear::function_t{it2, *loss, l1, l2};
        emit("linear-objective", linear2, generic_oracle(rng, linear2, linear2.smooth()), true, l2 > 0.0);
    }
    auto tit2 = targets_iterator_t{dataset, list};
    tit2.batch(rng.pick(std::vector<tensor_size_t>{3, 16, 1000}));
    tit2.scaling(rng.coin() ? scaling_type::none : scaling); // (the gradient boosting models themselves use `none`)
    if (rng.coin())
    {
        tit2.cache_targets(std::numeric_limits<tensor_size_t>::max());
    }
    const auto bias2 = gboost::bias_function_t{tit2, *loss};
    emit("gboost-bias", bias2, generic_oracle(rng, bias2, bias2.smooth()), true, false);
    const auto scale2 = gboost::scale_function_t{tit2, *loss, cluster, soutputs, woutputs};
    emit("gboost-scale", scale2, generic_oracle(rng, scale2, scale2.smooth()), same_value(scale2), false);
    const auto grads2 = gboost::grads_function_t{tit2, *loss};
    emit("gboost-grads", grads2, generic_oracle(rng, grads2, grads2.smooth()), same_value(grads2), false);

    // ---- grads_function_t::gradients(outputs): per sample the loss's own (sub)gradient at (that sample's target as the iterator
    // delivers it, that sample's output) - the same library kernel called on the sample alone (rounding of the vectorised kernels aside)
    {
        const auto m = list.size();
        tensor4d_t outs(cat_dims(m, dataset.target_dims())), targets(cat_dims(m, dataset.target_dims()));
        for (tensor_size_t i = 0; i < outs.size(); ++i)
        {
            outs(i) = rng.uniform(-3.0, 3.0);
        }
        tit2.loop([&](tensor_range_t range, size_t, tensor4d_cmap_t t) { targets.slice(range) = t; });
        const tensor4d_t got = grads2.gradients(outs);
        auto             ok  = got.dims() == outs.dims();
        double           worst = 0.0;
        for (tensor_size_t i = 0; ok && i < m; ++i)
        {
            tensor4d_t t1(cat_dims(1, dataset.target_dims())), o1(cat_dims(1, dataset.target_dims())), g1;
            t1.vector() = targets.vector(i);
            o1.vector() = outs.vector(i);
            loss->vgrad(t1, o1, g1);
            for (tensor_size_t c = 0; c < g1.size(); ++c)
            {
                const auto a = g1(c), b = got.vector(i)(c);
                if (vt::same_bits(a, b) || (!std::isfinite(a) && !std::isfinite(b)))
                {
                    continue;
                }
                const auto err = std::fabs(a - b) / std::max({1.0, std::fabs(a), std::fabs(b)});
                worst          = std::max(worst, std::isfinite(err) ? err : 1.0);
            }
        }
        ok = ok && worst <= 1e-12;
        vt::put(vt::J("Generic").s("fn", "gboost-gradients:" + lossid).i("dims", outs.size()).b("convex", false).b("smooth", true).b("gradOK", ok).b("differentiable", true)
                    .b("convexOK", true).b("strongOK", true).b("valueOnlySame", true).i("graderr_e12", static_cast<int64_t>(std::min(worst * 1e12, 2e9))).s("samples", mname)
                    .i("scaling", static_cast<int64_t>(tit2.scaling())).i("case", kase));
    }
}
} // namespace

int main(int argc, char** argv)
{
    if (argc < 4)
    {
        std::fprintf(stderr, "usage: calculus_driver <out> <seed> <cases>\n");
        return 2;
    }
    vt::Trace::get().open(argv[1]);
    vt::Rng    rng(static_cast<uint64_t>(std::atoll(argv[2])));
    const auto cases = std::atoll(argv[3]);

    const auto loss_ids = loss_t::all().ids();
    const auto fun_ids  = function_t::all().ids();
    vt::put(vt::J("Info").i("losses", static_cast<int64_t>(loss_ids.size())).i("functions", static_cast<int64_t>(fun_ids.size())));

    for (int64_t kase = 0; kase < cases; ++kase)
    {
        // (1) polynomial objectives on the lattice
        for (const auto& p : polys)
        {
            const tensor_size_t n = rng.range(p.min_dims, p.max_dims);
            const auto          f = function_t::all().get(p.id)->make(n, 10);
            if (p.smooth)
            {
                stencil(rng, p.id, of_function(*f), n, p.radius, p.step, kase);
            }
            convex_record(rng, p.id, of_function(*f), f->convex(), f->strong_convexity(), n, p.radius, p.step, kase);
        }
        // (2) constraints with integer coefficients
        for (int kind = 0; kind < 11; ++kind)
        {
            const tensor_size_t n = rng.range(1, 4);
            std::string         name;
            rfunction_t         keep;
            const auto          c = make_constraint(rng, kind, n, name, keep);
            const auto          m = keep ? keep->size() : n;
            const auto functional = kind >= 9;
            const auto step       = (functional && name.find("zakharov") != std::string::npos) ? 2 : 1;
            const auto radius     = functional ? (step == 2 ? 1 : 2) : 3;
            if (!functional || keep->smooth())
            {
                stencil(rng, "constraint:" + name, of_constraint(c), m, radius, step, kase);
            }
            convex_record(rng, "constraint:" + name, of_constraint(c), ::nano::convex(c), ::nano::strong_convexity(c), m, radius, step, kase);
        }
        // (2b) the same eleven kinds with random REAL coefficients, dims 1..16: float oracles (central differences along a random
        // direction, the first-order inequality with the declared strong-convexity coefficient when convexity is declared)
        for (int kind = 0; kind < 11; ++kind)
        {
            tensor_size_t n = rng.coin(1, 4) ? rng.pick(std::vector<tensor_size_t>{1, 2, 16}) : rng.range(1, 16);
            std::string   name;
            const auto    c = make_real_constraint(rng, kind, n, name, fun_ids);
            const auto    f = constraint_function_t{c, n};
            const auto    o = generic_oracle(rng, f, f.smooth());
            vt::put(vt::J("Generic").s("fn", "constraint-real:" + name).i("dims", n).b("convex", f.convex()).b("smooth", f.smooth()).b("gradOK", o.gradOK)
                        .b("differentiable", o.differentiable).b("convexOK", o.convexOK).b("strongOK", o.strongOK).b("valueOnlySame", o.valueSame)
                        .i("graderr_e12", static_cast<int64_t>(std::min(o.graderr * 1e12, 2e9))).i("case", kase));
        }
        // (3) the tuner's quadratic surrogate and its fitting objective (mse on integer data)
        {
            const tensor_size_t n = rng.range(1, 3);
            vector_t            model((n + 1) * (n + 2) / 2);
            for (tensor_size_t i = 0; i < model.size(); ++i)
            {
                model(i) = static_cast<scalar_t>(rng.range(-3, 3));
            }
            const auto q = quadratic_surrogate_t{model};
            stencil(rng, "surrogate", of_function(q), n, 3, 1, kase);
            convex_record(rng, "surrogate", of_function(q), q.convex(), q.strong_convexity(), n, 3, 1, kase);

            const tensor_size_t samples = rng.range(1, 6);
            tensor2d_t          P(samples, n);
            tensor1d_t          y(samples);
            for (tensor_size_t i = 0; i < P.size(); ++i)
            {
                P(i) = static_cast<scalar_t>(rng.range(-2, 2));
            }
            for (tensor_size_t i = 0; i < samples; ++i)
            {
                y(i) = static_cast<scalar_t>(rng.range(-4, 4));
            }
            const auto mse = loss_t::all().get("mse");
            const auto fit = quadratic_surrogate_fit_t{*mse, P, y};
            stencil(rng, "surrogate-fit", of_function(fit), fit.size(), 2, 1, kase);
            convex_record(rng, "surrogate-fit", of_function(fit), fit.convex(), fit.strong_convexity(), fit.size(), 2, 1, kase);
        }
        // (4) every loss
        for (const auto& id : loss_ids)
        {
            loss_case(rng, id, kase);
        }
        // (4b) machine-learning objectives
        ml_case(rng, kase);
        // (5) float oracles over the registered function prototypes (a third of them per case), any dimension in 1..32
        for (const auto& id : fun_ids)
        {
            if (!rng.coin(1, 3))
            {
                continue;
            }
            const auto  dims = rng.coin(1, 4) ? rng.pick(std::vector<tensor_size_t>{1, 2, 32}) : rng.range(1, 32);
            rfunction_t f;
            try
            {
                f = function_t::all().get(id)->make(dims, rng.range(5, 40));
            }
            catch (const std::exception&)
            {
                continue;
            }
            if (!f)
            {
                continue;
            }
            const auto o = generic_oracle(rng, *f, f->smooth());
            vt::put(vt::J("Generic").s("fn", id).i("dims", f->size()).b("convex", f->convex()).b("smooth", f->smooth()).b("gradOK", o.gradOK).b("differentiable", o.differentiable)
                        .b("convexOK", o.convexOK).b("strongOK", o.strongOK).b("valueOnlySame", o.valueSame).i("graderr_e12", static_cast<int64_t>(std::min(o.graderr * 1e12, 2e9)))
                        .i("case", kase));
        }
    }
    // (6) structured points of the registered convex prototypes: small integer lattices (all points for 1..3 dimensions) and sign patterns
    // c (+-1, .., +-1) in higher dimensions, where the pieces of max-type functions tie EXACTLY; z = x moved along one or two axes. The vector
    // returned at a tie must still be a sub-gradient (the convexity clause quantifies over all x and z). One record per (prototype, dimension).
    for (const auto& id : fun_ids)
    {
        for (const tensor_size_t dims : {tensor_size_t{1}, tensor_size_t{2}, tensor_size_t{3}, tensor_size_t{4}, tensor_size_t{7}})
        {
            rfunction_t f;
            try
            {
                f = function_t::all().get(id)->make(dims, 10);
            }
            catch (const std::exception&)
            {
                continue;
            }
            if (!f || !f->convex() || f->size() != dims)
            {
                continue;
            }
            std::vector<vector_t> points;
            if (dims <= 3)
            {
                int64_t total = 1;
                for (tensor_size_t i = 0; i < dims; ++i)
                {
                    total *= 7;
                }
                for (int64_t k = 0; k < total; ++k)
                {
                    vector_t x(dims);
                    auto     r = k;
                    for (tensor_size_t i = 0; i < dims; ++i, r /= 7)
                    {
                        x(i) = static_cast<scalar_t>(r % 7 - 3);
                    }
                    points.push_back(x);
                }
            }
            else
            {
                for (int k = 0; k < 200; ++k)
                {
                    vector_t   x(dims);
                    const auto c = rng.pick(std::vector<scalar_t>{0.5, 1.0, 2.0, 3.0});
                    for (tensor_size_t i = 0; i < dims; ++i)
                    {
                        x(i) = k % 2 == 0 ? c * (rng.coin() ? 1.0 : -1.0) : static_cast<scalar_t>(rng.range(-3, 3));
                    }
                    points.push_back(x);
                }
            }
            int64_t     checked = 0, failed = 0;
            std::string first;
            vector_t    g(dims), z(dims);
            for (const auto& x : points)
            {
                const auto fx = f->vgrad(x, g);
                if (!std::isfinite(fx) || !g.all_finite())
                {
                    continue;
                }
                for (tensor_size_t i = 0; i < dims; ++i)
                {
                    for (const auto step : {-1.0, -0.1, 0.1, 1.0})
                    {
                        for (const tensor_size_t j : {i, (i + 1) % dims})
                        {
                            z    = x;
                            z(i) += step;
                            if (j != i)
                            {
                                z(j) -= step;
                            }
                            const auto fz = f->vgrad(z);
                            if (!std::isfinite(fz))
                            {
                                continue;
                            }
                            const auto dz  = z - x;
                            const auto rhs = fx + g.dot(dz) + 0.5 * f->strong_convexity() * dz.squaredNorm();
                            const auto tol = 1e-9 * (1.0 + std::fabs(fx) + std::fabs(fz) + std::fabs(g.dot(dz)) + f->strong_convexity() * dz.squaredNorm());
                            ++checked;
                            if (!(fz >= rhs - tol))
                            {
                                if (failed++ == 0)
                                {
                                    std::ostringstream o;
                                    o.precision(17);
                                    o << "x=(" << x.transpose() << ") g=(" << g.transpose() << ") z=(" << z.transpose() << ") f(x)=" << fx << " f(z)=" << fz
                                      << " f(x)+g.(z-x)=" << rhs;
                                    first = o.str();
                                }
                            }
                        }
                    }
                }
            }
            vt::put(vt::J("Generic").s("fn", id + "@lattice").i("dims", dims).b("convex", true).b("smooth", f->smooth()).b("gradOK", true).b("differentiable", false)
                        .b("convexOK", failed == 0).b("strongOK", failed == 0).b("valueOnlySame", true).i("graderr_e12", 0).i("case", -2).i("pairs", checked)
                        .i("failed", failed).s("first", first));
        }
    }
    vt::put(vt::J("Done").i("case", -1));
    return 0;
}
