// C11 (early stopping) replay driver: steps a real gboost::early_stopping_t along behaviours of EarlyStopping.tla.
//   es_driver paths <plan.txt> <out.ndjson>  : edge-covering paths of TLC's state graph, state compared after every step
//   es_driver table <table.txt> <out.ndjson> <eps> <len> <nvals> : all validation-error histories of the given length (train
//        error above epsilon, plus a below-epsilon train error injected at every position) in lock-step with the
//        transition table exported from TLC's state graph
#include "trace.h"
#include <fstream>
#include <map>
#include <nano/gboost/early_stopping.h>
#include <sstream>

using namespace nano;

namespace
{
struct obs_t
{
    int64_t bestRound, bestValue, snapshot;
    bool    stopped;

    bool operator==(const obs_t& o) const
    {
        return bestRound == o.bestRound && bestValue == o.bestValue && snapshot == o.snapshot && stopped == o.stopped;
    }
};

struct monitor_t
{
    // three training and three validation samples, interleaved (a mean taken over the wrong index set would differ); the per-sample
    // errors are v - 1, v, v + 1 so that each mean is exactly the history value v
    explicit monitor_t(bool has_valid)
        : m_values(make_values(0, 0, -1))
        , m_es(m_values)
        , m_train(make_indices(0, 2, 5))
        , m_valid(has_valid ? make_indices(1, 3, 4) : indices_t{})
    {
    }

    static tensor2d_t make_values(int64_t tr, int64_t vd, int64_t tag)
    {
        tensor2d_t values(2, 6);
        values(0, 0) = static_cast<scalar_t>(tr - 1);
        values(0, 2) = static_cast<scalar_t>(tr);
        values(0, 5) = static_cast<scalar_t>(tr + 1);
        values(0, 1) = static_cast<scalar_t>(vd + 1);
        values(0, 3) = static_cast<scalar_t>(vd - 1);
        values(0, 4) = static_cast<scalar_t>(vd);
        for (tensor_size_t i = 0; i < 6; ++i)
        {
            values(1, i) = static_cast<scalar_t>(tag); // "loss" rows carry the round tag
        }
        return values;
    }

    obs_t step(int64_t tr, int64_t vd, int64_t eps, int64_t patience)
    {
        const auto values = make_values(tr, vd, m_round);
        rwlearners_t wlearners(static_cast<size_t>(m_round));
        const auto stopped = m_es.done(values, m_train, m_valid, wlearners, static_cast<scalar_t>(eps), static_cast<size_t>(patience));
        ++m_round;
        const auto value = m_es.value();
        return obs_t{static_cast<int64_t>(m_es.round()), value > 1e9 ? 1000000 : static_cast<int64_t>(std::llround(value)),
                     static_cast<int64_t>(std::llround(m_es.values()(1, 0))), stopped};
    }

    // the per-sample values held are those of the reported round
    bool snapshot_consistent(int64_t tr, int64_t vd) const
    {
        const auto want = make_values(tr, vd, 0);
        for (tensor_size_t i = 0; i < 6; ++i)
        {
            if (m_es.values()(0, i) != want(0, i))
            {
                return false;
            }
        }
        return true;
    }

    tensor2d_t                 m_values;
    gboost::early_stopping_t   m_es;
    indices_t                  m_train, m_valid;
    int64_t                    m_round{0};
};

std::string show(const obs_t& o)
{
    return std::to_string(o.bestRound) + "," + std::to_string(o.bestValue) + "," + std::to_string(o.snapshot) + "," + (o.stopped ? "T" : "F");
}

int paths(const char* plan, const char* out)
{
    vt::Trace::get().open(out);
    std::ifstream in(plan);
    std::string   tok;
    int64_t       npaths = 0, nsteps = 0, mismatches = 0;
    while (in >> tok)
    {
        int64_t patience, has_valid, eps, n;
        in >> patience >> has_valid >> eps >> n;
        monitor_t mon(has_valid != 0);
        std::map<int64_t, std::pair<int64_t, int64_t>> inputs;
        for (int64_t i = 0; i < n; ++i)
        {
            int64_t tr, vd, st;
            obs_t   want{};
            in >> tr >> vd >> want.bestRound >> want.bestValue >> want.snapshot >> st;
            want.stopped = st != 0;
            inputs[i]    = {tr, vd};
            const auto got = mon.step(tr, vd, eps, patience);
            const auto snap = inputs[got.snapshot];
            ++nsteps;
            if (!(got == want) || !mon.snapshot_consistent(snap.first, snap.second))
            {
                if (mismatches < 50)
                {
                    vt::put(vt::J("Mismatch").i("path", npaths).i("step", i).i("patience", patience).b("hasValid", has_valid != 0).i("tr", tr).i(
                        "vd", vd).s("spec", show(want)).s("impl", show(got)));
                }
                ++mismatches;
                // skip the rest of the path
                for (int64_t j = i + 1; j < n; ++j)
                {
                    int64_t d;
                    in >> d >> d >> d >> d >> d >> d;
                }
                break;
            }
        }
        ++npaths;
    }
    vt::put(vt::J("Summary").i("paths", npaths).i("steps", nsteps).i("mismatches", mismatches));
    return 0;
}

int table(const char* path, const char* out, int64_t eps, int64_t len, int64_t nvals)
{
    vt::Trace::get().open(out);
    // table: header "S <nstates>", lines "I <state> <patience> <hasValid>" (initial states),
    //        "N <state> <bestRound> <bestValue> <snapshot> <stopped>", "T <state> <tr> <vd> <next>"
    std::ifstream in(path);
    std::string   tok;
    std::vector<obs_t>                             obs;
    std::vector<std::array<int64_t, 3>>            inits;
    std::map<std::array<int64_t, 3>, int64_t>      next;
    while (in >> tok)
    {
        if (tok == "S")
        {
            int64_t n;
            in >> n;
            obs.resize(static_cast<size_t>(n));
        }
        else if (tok == "I")
        {
            std::array<int64_t, 3> a{};
            in >> a[0] >> a[1] >> a[2];
            inits.push_back(a);
        }
        else if (tok == "N")
        {
            int64_t s, st;
            in >> s;
            auto& o = obs[static_cast<size_t>(s)];
            in >> o.bestRound >> o.bestValue >> o.snapshot >> st;
            o.stopped = st != 0;
        }
        else if (tok == "T")
        {
            std::array<int64_t, 3> a{};
            int64_t                n;
            in >> a[0] >> a[1] >> a[2] >> n;
            next[a] = n;
        }
    }
    int64_t histories = 0, steps = 0, mismatches = 0;
    for (const auto& init : inits)
    {
        const auto patience = init[1];
        const auto has_valid = init[2] != 0;
        int64_t    total     = 1;
        for (int64_t i = 0; i < len; ++i)
        {
            total *= nvals;
        }
        // inject: -1 = no below-epsilon training error, otherwise the position at which the training error is 0
        for (int64_t inject = -1; inject < len; ++inject)
        {
            for (int64_t code = 0; code < (has_valid ? total : 1); ++code)
            {
                monitor_t mon(has_valid);
                int64_t   state = init[0];
                int64_t   c     = code;
                ++histories;
                for (int64_t i = 0; i < len; ++i)
                {
                    const auto vd = has_valid ? c % nvals : 0;
                    c /= nvals;
                    const auto tr = (i == inject) ? 0 : eps + 1;
                    const auto it = next.find({state, tr, vd});
                    if (it == next.end())
                    {
                        break; // the specification has stopped (or the bound on the history length is reached)
                    }
                    state = it->second;
                    const auto got = mon.step(tr, vd, eps, patience);
                    ++steps;
                    if (!(got == obs[static_cast<size_t>(state)]))
                    {
                        if (mismatches < 50)
                        {
                            vt::put(vt::J("Mismatch").i("history", code).i("inject", inject).i("step", i).i("patience", patience).b(
                                "hasValid", has_valid).s("spec", show(obs[static_cast<size_t>(state)])).s("impl", show(got)));
                        }
                        ++mismatches;
                        break;
                    }
                    if (got.stopped)
                    {
                        break;
                    }
                }
            }
        }
    }
    vt::put(vt::J("Summary").i("paths", histories).i("steps", steps).i("mismatches", mismatches));
    return 0;
}
} // namespace

int main(int argc, char* argv[])
{
    if (argc == 4 && std::string(argv[1]) == "paths")
    {
        return paths(argv[2], argv[3]);
    }
    if (argc == 7 && std::string(argv[1]) == "table")
    {
        return table(argv[2], argv[3], std::atoll(argv[4]), std::atoll(argv[5]), std::atoll(argv[6]));
    }
    std::fprintf(stderr, "usage: es_driver paths <plan> <out> | table <table> <out> <eps> <len> <nvals>\n");
    return 2;
}
