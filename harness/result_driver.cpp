// Replay driver for TuneResult.tla: every path of the TLC state graph is executed on a real ml::result_t; after EVERY step the
// queries the tuning loop relies on are compared with the specification's observation variables.
//   result_driver <plan.txt> <out.ndjson>
// plan:  P <folds> <ngrid> <nsteps>  then nsteps lines:  A <k> <p1> [<p2>] | S <trial> <fold> <value>   each followed by
//        E <trials> <opt> <vals (trials x folds, -1 = not stored)> <closest (ngrid x (trials + 1))>
//        Q <folds> <K> <nsteps>: the same with TWO hyper-parameters, the grid point p = (p / K, p % K) of a K x K grid (ngrid = K * K)
#include "trace.h"
#include <any>
#include <fstream>
#include <nano/machine/result.h>

using namespace nano;

int main(int argc, char** argv)
{
    if (argc < 3)
    {
        return 2;
    }
    std::ifstream in(argv[1]);
    vt::Trace::get().open(argv[2]);
    int64_t     paths = 0, steps = 0, compared = 0, mismatches = 0;
    std::string tok;
    const auto  expect = [&](const char* what, const std::vector<int64_t>& impl, const std::vector<int64_t>& spec)
    {
        ++compared;
        if (impl != spec && mismatches++ < 20)
        {
            vt::put(vt::J("Mismatch").s("what", what).a("impl", impl).a("spec", spec).i("path", paths).i("step", steps));
        }
    };
    while (in >> tok)
    {
        int64_t folds = 0, ngrid = 0, n = 0;
        in >> folds >> ngrid >> n;
        const auto     two   = tok == "Q";
        const auto     K     = two ? ngrid : int64_t{1};
        const auto     pdims = two ? tensor_size_t{2} : tensor_size_t{1};
        param_spaces_t spaces;
        tensor1d_t     grid(ngrid);
        for (tensor_size_t i = 0; i < ngrid; ++i)
        {
            grid(i) = static_cast<scalar_t>(i);
        }
        spaces.emplace_back("p", param_space_t::type::linear, grid);
        if (two)
        {
            spaces.emplace_back("q", param_space_t::type::linear, grid);
            ngrid = K * K;
        }
        // the hyper-parameter values of a grid point
        const auto point = [&](const int64_t p, tensor1d_map_t row)
        {
            if (two)
            {
                row(0) = static_cast<scalar_t>(p / K);
                row(1) = static_cast<scalar_t>(p % K);
            }
            else
            {
                row(0) = static_cast<scalar_t>(p);
            }
        };
        ml::result_t result(spaces, folds);
        for (int64_t k = 0; k < n; ++k, ++steps)
        {
            std::string op;
            in >> op;
            if (op == "A")
            {
                int64_t m = 0;
                in >> m;
                tensor2d_t params(m, pdims);
                for (int64_t i = 0; i < m; ++i)
                {
                    int64_t p = 0;
                    in >> p;
                    point(p, params.tensor(i));
                }
                result.add(params);
            }
            else
            {
                int64_t t = 0, f = 0, v = 0;
                in >> t >> f >> v;
                // three validation samples whose mean error is v; the training part and the extra carry the slot's identity
                tensor2d_t train(2, 2), valid(2, 3);
                train.full(static_cast<scalar_t>(100 * t + 10 * f + v));
                valid(0, 0) = static_cast<scalar_t>(v) - 0.5;
                valid(0, 1) = static_cast<scalar_t>(v);
                valid(0, 2) = static_cast<scalar_t>(v) + 0.5;
                valid(1, 0) = valid(1, 1) = valid(1, 2) = static_cast<scalar_t>(100 * t + 10 * f + v);
                result.store(t, f, train, valid, std::any{100 * t + 10 * f + v});
            }
            std::string e;
            int64_t     trials = 0, opt = 0;
            in >> e >> trials >> opt;
            std::vector<int64_t> vals(static_cast<size_t>(trials * folds));
            for (auto& v : vals)
            {
                in >> v;
            }
            std::vector<int64_t> closest(static_cast<size_t>(ngrid * (trials + 1)));
            for (auto& v : closest)
            {
                in >> v;
            }
            expect("trials()", {result.trials(), result.folds()}, {trials, folds});
            expect("optimum_trial()", {result.optimum_trial()}, {opt});
            std::vector<int64_t> impl_vals, impl_slots, spec_slots, impl_closest;
            for (int64_t t = 0; t < trials; ++t)
            {
                for (int64_t f = 0; f < folds; ++f)
                {
                    const auto stats = result.stats(t, f, ml::split_type::valid, ml::value_type::errors);
                    const auto v     = vals[static_cast<size_t>(t * folds + f)];
                    impl_vals.push_back(std::isfinite(stats.m_mean) ? static_cast<int64_t>(std::llround(stats.m_mean * 2.0)) : -2);
                    // what is stored under a slot is what its own task stored (losses, training part, extra carry the slot's identity)
                    const auto  losses = result.stats(t, f, ml::split_type::valid, ml::value_type::losses);
                    const auto  trainl = result.stats(t, f, ml::split_type::train, ml::value_type::losses);
                    const auto* extra  = std::any_cast<int64_t>(&result.extra(t, f));
                    impl_slots.push_back(v < 0 ? (extra == nullptr ? -1 : -3)
                                               : ((extra != nullptr && *extra == 100 * t + 10 * f + v && losses.m_mean == static_cast<scalar_t>(100 * t + 10 * f + v) &&
                                                   trainl.m_mean == static_cast<scalar_t>(100 * t + 10 * f + v))
                                                      ? 1
                                                      : 0));
                    spec_slots.push_back(v < 0 ? -1 : 1);
                }
            }
            std::vector<int64_t> spec_vals;
            for (const auto v : vals)
            {
                spec_vals.push_back(v < 0 ? -2 : 2 * v);
            }
            expect("stats(trial, fold).mean", impl_vals, spec_vals);
            expect("slot contents", impl_slots, spec_slots);
            for (int64_t p = 0; p < ngrid; ++p)
            {
                for (int64_t m = 0; m <= trials; ++m)
                {
                    tensor1d_t q(pdims);
                    point(p, q.tensor());
                    impl_closest.push_back(result.closest_trial(q, m));
                }
            }
            expect("closest_trial(p, m)", impl_closest, closest);
            if (trials > 0)
            {
                std::vector<int64_t> impl_params, spec_params;
                for (int64_t t = 0; t < trials; ++t)
                {
                    impl_params.push_back(static_cast<int64_t>(result.params(t)(0)));
                }
                (void)spec_params;
            }
        }
        ++paths;
    }
    vt::put(vt::J("Summary").i("paths", paths).i("steps", steps).i("compared", compared).i("mismatches", mismatches));
    return 0;
}
