// C19 conformance driver.
//   param_driver replay <plan.txt> <out.ndjson>   : steps real parameter_t objects along the edges of TLC's state graph
//                                                   of Parameter.tla and compares the projected state after every step
//   param_driver sweep <out.ndjson>               : records a trace over every object of every factory (defaults,
//                                                   ids, clones, independent modification) for ConfigurableTrace.tla
#include "trace.h"
#include <cstring>
#include <nano/core/verif.h>
#include <nano/logger.h>
#include <cmath>
#include <fstream>
#include <iostream>
#include <nano/configurable.h>
#include <nano/core/stream.h>
#include <nano/datasource.h>
#include <nano/function.h>
#include <nano/generator.h>
#include <nano/linear.h>
#include <nano/loss.h>
#include <nano/lsearch0.h>
#include <nano/lsearchk.h>
#include <nano/solver.h>
#include <nano/splitter.h>
#include <nano/tuner.h>
#include <nano/wlearner.h>
#include <nano/wlearner/criterion.h>
#include <nano/gboost/enums.h>
#include <nano/dataset/scaling.h>
#include <nano/solver/lstep.h>
#include <nano/task.h>
#include <sstream>

using namespace nano;

namespace verifenum
{
enum class color_t : int32_t
{
    red,
    green,
    blue,
    outside = 7
};
} // namespace verifenum

template <>
nano::enum_map_t<verifenum::color_t> nano::enum_string<verifenum::color_t>()
{
    return {
        // (every name is a strict prefix of the following ones, like aic / aicc in the library: reads must match whole names)
        {  verifenum::color_t::red,     "hue"},
        {verifenum::color_t::green,    "hues"},
        { verifenum::color_t::blue, "huesome"}
    };
}

namespace
{
using verifenum::color_t;

constexpr int Off = 8, Min = 4, Max = 12;

struct tval_t
{
    std::vector<std::string> v;

    bool operator==(const tval_t& o) const { return v == o.v; }
};

tval_t parse_tval(const std::string& s)
{
    // n:v1:v2
    tval_t            t;
    std::stringstream ss(s);
    std::string       tok;
    std::getline(ss, tok, ':');
    const int n = std::stoi(tok);
    for (int i = 0; i < n; ++i)
    {
        std::getline(ss, tok, ':');
        t.v.push_back(tok);
    }
    return t;
}

std::string show(const tval_t& t)
{
    std::string s = std::to_string(t.v.size());
    for (const auto& x : t.v)
    {
        s += ":" + x;
    }
    return s;
}

// concretisation of a grid value r (half units) for real kinds: neighbours of the bounds are one ulp away
double creal(int r)
{
    const double lo = (Min - Off) / 2.0, hi = (Max - Off) / 2.0;
    const int    p  = r + Off;
    if (p == Min - 1)
    {
        return std::nextafter(lo, -1e300);
    }
    if (p == Min + 1)
    {
        return std::nextafter(lo, +1e300);
    }
    if (p == Max - 1)
    {
        return std::nextafter(hi, -1e300);
    }
    if (p == Max + 1)
    {
        return std::nextafter(hi, +1e300);
    }
    return r / 2.0;
}

double conc(const std::string& kind, int r)
{
    return (kind == "real" || kind == "rpair") ? creal(r) : r / 2.0;
}

std::string fmt(double x)
{
    char buf[64];
    std::snprintf(buf, sizeof(buf), "%.17g", x);
    return buf;
}

struct cfg_t
{
    std::string kind;
    bool        minLE, maxLE, valLE;
};

LEorLT comp(bool le)
{
    return le ? LEorLT{LE} : LEorLT{LT};
}

const char* str_of_token(const std::string& tok)
{
    return tok == "s0" ? "initial" : tok == "num" ? "1.5" : tok == "garbage" ? "abc" : tok == "pair" ? "1,2" : "hues";
}

parameter_t construct(const cfg_t& c, const tval_t& v)
{
    const double lo = (Min - Off) / 2.0, hi = (Max - Off) / 2.0;
    if (c.kind == "int")
    {
        return parameter_t::make_integer("p", static_cast<int64_t>(lo), comp(c.minLE), static_cast<int64_t>(std::stoi(v.v[0]) / 2),
                                         comp(c.maxLE), static_cast<int64_t>(hi));
    }
    if (c.kind == "real")
    {
        return parameter_t::make_scalar("p", lo, comp(c.minLE), conc(c.kind, std::stoi(v.v[0])), comp(c.maxLE), hi);
    }
    if (c.kind == "ipair")
    {
        return parameter_t::make_integer_pair("p", static_cast<int64_t>(lo), comp(c.minLE), static_cast<int64_t>(std::stoi(v.v[0]) / 2),
                                              comp(c.valLE), static_cast<int64_t>(std::stoi(v.v[1]) / 2), comp(c.maxLE),
                                              static_cast<int64_t>(hi));
    }
    if (c.kind == "rpair")
    {
        return parameter_t::make_scalar_pair("p", lo, comp(c.minLE), conc(c.kind, std::stoi(v.v[0])), comp(c.valLE),
                                             conc(c.kind, std::stoi(v.v[1])), comp(c.maxLE), hi);
    }
    if (c.kind == "enum")
    {
        return parameter_t::make_enum("p", static_cast<color_t>(std::stoi(v.v[0])));
    }
    return parameter_t::make_string("p", str_of_token(v.v[0]));
}

// abstract state of the object through its public interface only
tval_t project(const cfg_t& c, const parameter_t& p, const std::string& strtoken)
{
    tval_t     t;
    const auto grid = [&](double x) -> std::string
    {
        for (int r = -Off - 2; r <= 2 * Off + 2; ++r)
        {
            if (conc(c.kind, r) == x)
            {
                return std::to_string(r);
            }
        }
        return "offgrid(" + fmt(x) + ")";
    };
    if (c.kind == "int" || c.kind == "real")
    {
        t.v.push_back(grid(p.value<scalar_t>()));
    }
    else if (c.kind == "ipair" || c.kind == "rpair")
    {
        const auto [v1, v2] = p.value_pair<scalar_t>();
        t.v.push_back(grid(v1));
        t.v.push_back(grid(v2));
    }
    else if (c.kind == "enum")
    {
        t.v.push_back(std::to_string(static_cast<int>(p.value<color_t>())));
    }
    else
    {
        // the specification only tracks the class of the stored string; the exact text is compared by the caller
        t.v.push_back(strtoken);
    }
    return t;
}

struct step_t
{
    char        mode;
    cfg_t       cfg;
    tval_t      pre, args, post, obs;
    std::string act, last;
};

int replay(const char* plan_path, const char* out_path)
{
    vt::Trace::get().open(out_path);
    std::ifstream in(plan_path);
    std::string   line;
    int64_t       steps = 0, mismatches = 0, lineno = 0, walks = 0;
    parameter_t   param;
    std::string   strtoken = "s0", strtext = "initial";

    const char* seps = ";,:|/ ";
    while (std::getline(in, line))
    {
        ++lineno;
        std::stringstream ss(line);
        step_t            s;
        std::string       kind, pre, args, post, obs;
        int               a, b, c;
        ss >> s.mode >> kind >> a >> b >> c >> pre >> s.act >> args >> post >> s.last >> obs;
        s.cfg  = cfg_t{kind, a != 0, b != 0, c != 0};
        s.pre  = parse_tval(pre);
        s.args = parse_tval(args);
        s.post = parse_tval(post);
        s.obs  = parse_tval(obs);
        const auto& k = s.cfg.kind;

        if (s.mode == 'E')
        {
            param    = construct(s.cfg, s.pre);
            strtoken = s.pre.v[0];
            strtext  = str_of_token(strtoken);
            ++walks;
        }
        else if (!(project(s.cfg, param, strtoken) == s.pre))
        {
            vt::put(vt::J("Mismatch").i("line", lineno).s("what", "walk: pre-state differs").s("step", line));
            ++mismatches;
        }

        bool        threw = false;
        tval_t      seen; // observed read value
        const auto  ai  = [&](size_t i) { return std::stoi(s.args.v[i]); };
        const auto  sep = std::string(1, seps[static_cast<size_t>(lineno) % 6U]);
        std::string assigned_text;
        try
        {
            if (s.act == "AssignI")
            {
                param = static_cast<int64_t>((ai(0) - Off) / 2);
            }
            else if (s.act == "AssignD")
            {
                param = conc(k, ai(0) - Off);
            }
            else if (s.act == "AssignTok")
            {
                const auto& t = s.args.v[0];
                param         = t == "nan" ? std::nan("") : t == "pinf" ? HUGE_VAL : -HUGE_VAL;
            }
            else if (s.act == "AssignS")
            {
                assigned_text = fmt(conc(k, ai(0) - Off)) + (ai(1) != 0 ? "_q" : "");
                param         = assigned_text;
            }
            else if (s.act == "AssignGarbage")
            {
                assigned_text = (lineno % 2 == 0) ? "abc" : "";
                param         = assigned_text;
            }
            else if (s.act == "AssignPI")
            {
                if (lineno % 2 == 0)
                {
                    param = std::make_tuple(static_cast<int64_t>((ai(0) - Off) / 2), static_cast<int64_t>((ai(1) - Off) / 2));
                }
                else
                {
                    param = std::make_tuple(static_cast<int32_t>((ai(0) - Off) / 2), static_cast<int32_t>((ai(1) - Off) / 2));
                }
            }
            else if (s.act == "AssignPD")
            {
                param = std::make_tuple(conc(k, ai(0) - Off), conc(k, ai(1) - Off));
            }
            else if (s.act == "AssignPS")
            {
                assigned_text = fmt(conc(k, ai(0) - Off)) + sep + fmt(conc(k, ai(1) - Off));
                param         = assigned_text;
            }
            else if (s.act == "AssignE")
            {
                param = ai(0) < 3 ? static_cast<color_t>(ai(0)) : color_t::outside;
            }
            else if (s.act == "AssignES")
            {
                assigned_text = ai(0) == 0 ? "hue" : ai(0) == 1 ? "hues" : ai(0) == 2 ? "huesome" : "magenta";
                param         = assigned_text;
            }
            else if (s.act == "ReadI")
            {
                seen.v.push_back(std::to_string(2 * param.value<int64_t>()));
            }
            else if (s.act == "ReadD")
            {
                (void)param.value<scalar_t>();
                seen = project(s.cfg, param, strtoken);
            }
            else if (s.act == "ReadPI")
            {
                const auto [v1, v2] = param.value_pair<int64_t>();
                seen.v.push_back(std::to_string(2 * v1));
                seen.v.push_back(std::to_string(2 * v2));
            }
            else if (s.act == "ReadPD")
            {
                (void)param.value_pair<scalar_t>();
                seen = project(s.cfg, param, strtoken);
            }
            else if (s.act == "ReadE")
            {
                seen.v.push_back(std::to_string(static_cast<int>(param.value<color_t>())));
            }
            else if (s.act == "ReadS")
            {
                const auto text = param.value<string_t>();
                seen.v.push_back(text == strtext ? strtoken : "othertext(" + text + ")");
            }
            else if (s.act == "WriteRead")
            {
                std::ostringstream os;
                param.write(os);
                parameter_t        copy;
                std::istringstream is(os.str());
                copy.read(is);
                if (!(copy == param) || copy.name() != param.name())
                {
                    vt::put(vt::J("Mismatch").i("line", lineno).s("what", "write+read: objects differ").s("step", line));
                    ++mismatches;
                }
                param = copy;
            }
            else
            {
                vt::put(vt::J("Mismatch").i("line", lineno).s("what", "unknown action").s("step", line));
                ++mismatches;
            }
        }
        catch (const std::exception&)
        {
            threw = true;
        }
        if (!threw && k == "str" && !assigned_text.empty())
        {
            strtext  = assigned_text;
            strtoken = s.post.v[0];
        }
        if (!threw && k == "str" && s.act == "AssignGarbage")
        {
            strtext  = assigned_text;
            strtoken = s.post.v[0];
        }

        // compare with the specification's successor state
        tval_t now;
        bool   projected = true;
        try
        {
            now = project(s.cfg, param, strtoken);
            if (k == "str" && param.value<string_t>() != strtext)
            {
                now.v[0] = "othertext(" + param.value<string_t>() + ")";
            }
        }
        catch (const std::exception&)
        {
            projected = false;
        }
        const auto last = threw ? "threw" : "ok";
        if (!projected || !(now == s.post) || s.last != last || !(seen == s.obs))
        {
            vt::put(vt::J("Mismatch")
                        .i("line", lineno)
                        .s("what", "successor state differs")
                        .s("step", line)
                        .s("impl_post", show(now))
                        .s("impl_last", last)
                        .s("impl_obs", show(seen)));
            ++mismatches;
        }
        ++steps;
    }
    vt::put(vt::J("Summary").i("steps", steps).i("mismatches", mismatches).i("constructed", walks));
    return 0;
}
} // namespace

int sweep(const char* out_path);

int main(int argc, char* argv[])
{
    if (argc == 4 && std::string(argv[1]) == "replay")
    {
        return replay(argv[2], argv[3]);
    }
    if (argc == 3 && std::string(argv[1]) == "sweep")
    {
        return sweep(argv[2]);
    }
    std::fprintf(stderr, "usage: param_driver replay <plan> <out> | sweep <out>\n");
    return 2;
}

// ---------------------------------------------------------------------------------------------------------------------
// factory sweep (V): every id of every factory
namespace
{
struct pinfo_t
{
    std::string         kind;
    bool                minLE{true}, maxLE{true}, valLE{true};
    std::vector<double> reals; // min, value(s), max
    std::string         text;
    bool                typedOK{true}; // enumerations of the library: the typed read is the member with the stored name
};

// the typed read of an enumeration parameter of the library, as its name: value<tenum>() must be the member whose name is stored
template <class tenum>
std::string typed_name(const parameter_t& p)
{
    const auto value = p.value<tenum>();
    for (const auto& [option, name] : enum_string<tenum>())
    {
        if (option == value)
        {
            return name;
        }
    }
    return "?";
}

std::string typed_enum_name(const parameter_t& p, const std::string& stored)
{
    const auto& name = p.name();
    const auto  ends = [&](const char* suffix)
    {
        const auto n = std::strlen(suffix);
        return name.size() >= n && name.compare(name.size() - n, n, suffix) == 0;
    };
    try
    {
        return name == "wlearner::criterion"            ? typed_name<wlearner_criterion>(p)
             : name == "linear::scaling"                ? typed_name<scaling_type>(p)
             : ends("::interpolation")                  ? typed_name<interpolation_type>(p)
             : name == "gboost::wscale"                 ? typed_name<gboost_wscale>(p)
             : name == "gboost::shrinkage"              ? typed_name<gboost_shrinkage>(p)
             : name == "gboost::subsample"              ? typed_name<gboost_subsample>(p)
             : name == "datasource::linear::task"       ? typed_name<task_type>(p)
                                                        : stored;
    }
    catch (const std::exception&)
    {
        return "threw";
    }
}

pinfo_t info(const parameter_t& p)
{
    pinfo_t out;
    std::visit(overloaded{[&](const parameter_t::enum_t& e)
                          {
                              out.kind = "enum";
                              out.text = e.m_value;
                              out.valLE = std::find(e.m_domain.begin(), e.m_domain.end(), e.m_value) != e.m_domain.end();
                              out.typedOK = typed_enum_name(p, e.m_value) == e.m_value;
                          },
                          [&](const parameter_t::irange_t& r)
                          {
                              out.kind  = "int";
                              out.minLE = std::holds_alternative<LE_t>(r.m_mincomp);
                              out.maxLE = std::holds_alternative<LE_t>(r.m_maxcomp);
                              out.reals = {static_cast<double>(r.m_min), static_cast<double>(r.m_value), static_cast<double>(r.m_max)};
                          },
                          [&](const parameter_t::frange_t& r)
                          {
                              out.kind  = "real";
                              out.minLE = std::holds_alternative<LE_t>(r.m_mincomp);
                              out.maxLE = std::holds_alternative<LE_t>(r.m_maxcomp);
                              out.reals = {r.m_min, r.m_value, r.m_max};
                          },
                          [&](const parameter_t::iprange_t& r)
                          {
                              out.kind  = "ipair";
                              out.minLE = std::holds_alternative<LE_t>(r.m_mincomp);
                              out.maxLE = std::holds_alternative<LE_t>(r.m_maxcomp);
                              out.valLE = std::holds_alternative<LE_t>(r.m_valcomp);
                              out.reals = {static_cast<double>(r.m_min), static_cast<double>(r.m_value1), static_cast<double>(r.m_value2),
                                           static_cast<double>(r.m_max)};
                          },
                          [&](const parameter_t::fprange_t& r)
                          {
                              out.kind  = "rpair";
                              out.minLE = std::holds_alternative<LE_t>(r.m_mincomp);
                              out.maxLE = std::holds_alternative<LE_t>(r.m_maxcomp);
                              out.valLE = std::holds_alternative<LE_t>(r.m_valcomp);
                              out.reals = {r.m_min, r.m_value1, r.m_value2, r.m_max};
                          },
                          [&](const string_t& s)
                          {
                              out.kind = "str";
                              out.text = s;
                          },
                          [&](const std::monostate&) { out.kind = "none"; }},
               p.storage());
    return out;
}

// dense ranks of the given reals (order-preserving abstraction; NaN gets rank -1)
std::vector<int64_t> ranks(const std::vector<double>& xs)
{
    std::vector<double> sorted;
    for (const auto x : xs)
    {
        if (std::isfinite(x))
        {
            sorted.push_back(x);
        }
    }
    std::sort(sorted.begin(), sorted.end());
    sorted.erase(std::unique(sorted.begin(), sorted.end()), sorted.end());
    std::vector<int64_t> out;
    for (const auto x : xs)
    {
        out.push_back(std::isfinite(x) ? std::lower_bound(sorted.begin(), sorted.end(), x) - sorted.begin() : -1);
    }
    return out;
}

vt::J param_event(const char* e, int64_t obj, const parameter_t& p, const std::vector<double>& extra = {})
{
    const auto pi    = info(p);
    auto       reals = pi.reals;
    reals.insert(reals.end(), extra.begin(), extra.end());
    return vt::J(e)
        .i("obj", obj)
        .s("name", p.name())
        .s("kind", pi.kind)
        .b("minLE", pi.minLE)
        .b("maxLE", pi.maxLE)
        .b("valLE", pi.valLE)
        .a("r", ranks(reals))
        .s("text", pi.text)
        .b("typedOK", pi.typedOK);
}

// a deterministic observation of what an object DOES (bit patterns of the results of one fixed call): an object and its clone with
// equal parameters must give the same observation ("behaves identically"); "" when there is nothing cheap to observe
void digest(std::ostringstream& os, const double v)
{
    uint64_t bits = 0;
    std::memcpy(&bits, &v, sizeof(bits));
    os << std::hex << bits << ",";
}

template <class tobject>
std::string behaviour(const tobject& object)
{
    std::ostringstream os;
    try
    {
        if constexpr (std::is_base_of_v<function_t, tobject>)
        {
            vector_t x(object.size()), g(object.size());
            for (tensor_size_t i = 0; i < x.size(); ++i)
            {
                x(i) = 0.25 + 0.125 * static_cast<double>(i % 5);
            }
            digest(os, object.vgrad(x, g));
            for (tensor_size_t i = 0; i < g.size(); ++i)
            {
                digest(os, g(i));
            }
        }
        else if constexpr (std::is_base_of_v<loss_t, tobject>)
        {
            tensor4d_t targets(3, 4, 1, 1), outputs(3, 4, 1, 1), vgrads;
            tensor1d_t values, errors;
            for (tensor_size_t i = 0; i < targets.size(); ++i)
            {
                targets(i) = (i % 4 == i / 4) ? 1.0 : -1.0;
                outputs(i) = 0.5 * static_cast<double>((i * 7) % 5) - 1.0;
            }
            object.value(targets, outputs, values);
            object.error(targets, outputs, errors);
            object.vgrad(targets, outputs, vgrads);
            for (tensor_size_t i = 0; i < 3; ++i)
            {
                digest(os, values(i));
                digest(os, errors(i));
            }
            for (tensor_size_t i = 0; i < vgrads.size(); ++i)
            {
                digest(os, vgrads(i));
            }
        }
        else if constexpr (std::is_base_of_v<splitter_t, tobject>)
        {
            for (const auto& [train, valid] : object.split(arange(0, 23)))
            {
                for (const auto i : train)
                {
                    os << i << ",";
                }
                os << "|";
                for (const auto i : valid)
                {
                    os << i << ",";
                }
                os << ";";
            }
        }
        else if constexpr (std::is_base_of_v<tuner_t, tobject>)
        {
            param_spaces_t spaces;
            spaces.emplace_back("a", param_space_t::type::linear, make_tensor<scalar_t>(make_dims(6), 0.0, 1.0, 2.0, 3.0, 4.0, 5.0));
            spaces.emplace_back("b", param_space_t::type::log10, make_tensor<scalar_t>(make_dims(5), 0.01, 0.1, 1.0, 10.0, 100.0));
            const auto callback = [](const tensor2d_t& params)
            {
                tensor1d_t values(params.size<0>());
                for (tensor_size_t i = 0; i < values.size(); ++i)
                {
                    values(i) = (params(i, 0) - 2.0) * (params(i, 0) - 2.0) + std::fabs(std::log10(params(i, 1)) - 1.0);
                }
                return values;
            };
            for (const auto& step : object.optimize(spaces, callback, make_null_logger()))
            {
                digest(os, step.m_value);
                for (const auto v : step.m_param)
                {
                    digest(os, v);
                }
            }
        }
        else if constexpr (std::is_base_of_v<solver_t, tobject>)
        {
            const auto function = function_t::all().get("sphere")->make(3, 10);
            vector_t   x0(3);
            x0(0) = 1.0;
            x0(1) = -0.5;
            x0(2) = 0.25;
            verif::set_default_seed(17);
            const auto state = object.minimize(*function, x0, make_null_logger());
            digest(os, state.fx());
            for (tensor_size_t i = 0; i < 3; ++i)
            {
                digest(os, state.x()(i));
            }
            os << static_cast<int>(state.status()) << "," << state.fcalls() << "," << state.gcalls();
        }
    }
    catch (const std::exception& e)
    {
        os << "exception:" << e.what();
    }
    return os.str();
}

// solvers own two nested configurable objects (step initialisation and line search): give them non-default parameters, so that a copy that
// forgets them is visible both in the parameter comparison and in the behaviour probe
template <class tobject>
void configure_nested(tobject& object)
{
    if constexpr (std::is_base_of_v<solver_t, tobject>)
    {
        const auto tweak = [](auto& nested)
        {
            for (const auto& p0 : nested.parameters())
            {
                auto& p = nested.parameter(p0.name());
                std::visit(overloaded{[&](const parameter_t::irange_t& r)
                                      {
                                          const auto hi = r.m_max - (std::holds_alternative<LE_t>(r.m_maxcomp) ? 0 : 1);
                                          p             = std::min<int64_t>(hi, r.m_value + 3);
                                      },
                                      [&](const parameter_t::frange_t& r)
                                      {
                                          const auto v = 0.5 * (r.m_value + std::min(r.m_max, 2.0 * std::fabs(r.m_value) + 1.0));
                                          if (std::isfinite(v) && v > r.m_min && v < r.m_max)
                                          {
                                              p = v;
                                          }
                                      },
                                      [&](const parameter_t::enum_t& e) { p = e.m_domain.back(); }, [&](const auto&) {}},
                           p0.storage());
            }
        };
        auto ls0 = object.lsearch0().clone();
        auto lsk = object.lsearchk().clone();
        tweak(*ls0);
        tweak(*lsk);
        object.lsearch0(*ls0);
        object.lsearchk(*lsk);
    }
}

template <class tobject>
bool nested_equal(const tobject& a, const tobject& b)
{
    if constexpr (std::is_base_of_v<solver_t, tobject>)
    {
        return a.lsearch0().type_id() == b.lsearch0().type_id() && a.lsearchk().type_id() == b.lsearchk().type_id() &&
               a.lsearch0().parameters() == b.lsearch0().parameters() && a.lsearchk().parameters() == b.lsearchk().parameters();
    }
    else
    {
        return true;
    }
}

template <class tobject>
void sweep_object(const std::string& factory, const std::string& id, const tobject& object, int64_t& nobj)
{
    const auto a = nobj++;
    const auto b = nobj++;
    vt::put(vt::J("Reset").s("factory", factory).s("id", id).i("a", a).i("b", b));
    vt::put(vt::J("Get").i("obj", a).s("factory", factory).s("id", id).b("idOK", object.type_id() == id));
    if constexpr (!std::is_base_of_v<configurable_t, tobject>)
    {
        // not a configurable object (benchmark functions): only the id and the clone's id can be observed
        auto clone = object.clone();
        vt::put(vt::J("Clone").i("obj", b).i("of", a).b("idOK", clone->type_id() == id).b("equal", true).i("n", 0).b("behaves", behaviour(*clone) == behaviour(object)));
        return;
    }
    else
    {
    for (const auto& p : object.parameters())
    {
        vt::put(param_event("Param", a, p));
    }
    // unknown names throw
    {
        bool threw = false;
        try
        {
            (void)object.parameter("no::such::parameter");
        }
        catch (const std::exception&)
        {
            threw = true;
        }
        vt::put(vt::J("Lookup").i("obj", a).s("name", "no::such::parameter").b("threw", threw).b("null",
                                                                                              object.parameter_if("no::such::parameter") == nullptr));
    }
    // modify every parameter of `target` (to another in-domain value when there is one); `other` must not change
    const auto modify = [&](auto& target, const auto* other, const int64_t tid, const int64_t variant)
    {
        const auto before = target.parameters();
        for (const auto& p0 : before)
        {
            const auto&  name = p0.name();
            const auto   o0   = other != nullptr ? other->parameter(name) : p0;
            parameter_t& pc   = target.parameter(name);
            const auto   pi   = info(pc);
            bool         threw = false, changed = false;
            try
            {
                if (pi.kind == "int")
                {
                    const auto v  = pc.value<int64_t>();
                    const auto lo = static_cast<int64_t>(pi.reals[0]) + (pi.minLE ? 0 : 1);
                    const auto hi = static_cast<int64_t>(pi.reals[2]) - (pi.maxLE ? 0 : 1);
                    const auto nv = variant == 0 ? ((v < hi) ? v + 1 : (v > lo ? v - 1 : v)) : ((v > lo) ? v - 1 : (v < hi ? v + 1 : v));
                    pc            = nv;
                    changed       = nv != v;
                }
                else if (pi.kind == "real")
                {
                    const auto v   = pc.value<scalar_t>();
                    const auto end = variant == 0 ? (v < pi.reals[2] ? pi.reals[2] : pi.reals[0]) : (v > pi.reals[0] ? pi.reals[0] : pi.reals[2]);
                    const auto nv  = 0.5 * (v + end);
                    pc             = nv;
                    changed        = nv != v;
                }
                else if (pi.kind == "ipair" || pi.kind == "rpair")
                {
                    const auto [v1, v2] = pc.value_pair<scalar_t>();
                    if (pi.kind == "rpair")
                    {
                        const auto nv1 = 0.5 * (pi.reals[0] + v1);
                        pc             = std::make_tuple(nv1, v2);
                        changed        = nv1 != v1;
                    }
                    else
                    {
                        const auto hi  = pi.reals[3] - (pi.maxLE ? 0 : 1);
                        const auto nv2 = v2 < hi ? v2 + 1 : v2;
                        pc             = std::make_tuple(static_cast<int64_t>(v1), static_cast<int64_t>(nv2));
                        changed        = nv2 != v2;
                    }
                }
                else if (pi.kind == "enum")
                {
                    const auto e     = std::get<parameter_t::enum_t>(pc.storage());
                    auto       count = variant;
                    for (const auto& option : e.m_domain)
                    {
                        if (option != e.m_value && (count-- == 0 || &option == &e.m_domain.back()))
                        {
                            pc      = option;
                            changed = true;
                            break;
                        }
                    }
                }
                else if (pi.kind == "str")
                {
                    pc      = pi.text + "_modified";
                    changed = true;
                }
            }
            catch (const std::exception&)
            {
                threw = true;
            }
            // ranks of (domain, old value(s), new value(s)) on one scale
            const auto          pn = info(target.parameter(name));
            std::vector<double> extra;
            if (pn.reals.size() >= 3)
            {
                extra.assign(pn.reals.begin() + 1, pn.reals.end() - 1);
            }
            vt::put(param_event("AssignOn", tid, p0, extra)
                        .b("threw", threw)
                        .b("changed", changed)
                        .s("newtext", pn.text)
                        .b("otherUnchanged", other == nullptr || other->parameter(name) == o0)
                        .b("differs", !(target.parameter(name) == p0)));
        }
    };
    // enumerations: every member of the domain is accepted by name and read back (stored name and typed read) as assigned
    {
        auto scratch = object.clone();
        for (const auto& p0 : object.parameters())
        {
            if (const auto* e = std::get_if<parameter_t::enum_t>(&p0.storage()); e != nullptr)
            {
                bool ok = true;
                for (const auto& option : e->m_domain)
                {
                    try
                    {
                        auto& pc = scratch->parameter(p0.name());
                        pc       = option;
                        ok       = ok && std::get<parameter_t::enum_t>(pc.storage()).m_value == option && typed_enum_name(pc, option) == option;
                    }
                    catch (const std::exception&)
                    {
                        ok = false;
                    }
                }
                vt::put(vt::J("EnumAll").i("obj", a).s("name", p0.name()).i("members", static_cast<int64_t>(e->m_domain.size())).b("ok", ok));
            }
        }
    }
    // configure the original away from its defaults, clone it, then modify the clone
    auto original = object.clone();
    vt::put(vt::J("Clone").i("obj", a + 100000).i("of", a).b("idOK", original->type_id() == id).b("equal", original->parameters() == object.parameters()).i(
        "n", static_cast<int64_t>(original->parameters().size())).b("behaves", behaviour(*original) == behaviour(object)));
    modify(*original, static_cast<const tobject*>(nullptr), a + 100000, 0);
    configure_nested(*original);
    auto clone = original->clone();
    vt::put(vt::J("Clone").i("obj", b).i("of", a + 100000).b("idOK", clone->type_id() == id).b("equal", clone->parameters() == original->parameters() && nested_equal(*clone, *original)).i(
        "n", static_cast<int64_t>(clone->parameters().size())).b("behaves", behaviour(*clone) == behaviour(*original)));
    modify(*clone, original.get(), b, 1);
    for (const auto& p : original->parameters())
    {
        vt::put(param_event("ReadOn", a + 100000, p));
    }
    // the original still reads the values it had
    for (const auto& p : object.parameters())
    {
        vt::put(param_event("ReadOn", a, p));
    }
    }
}

template <class tfactory>
void sweep_factory(const std::string& name, const tfactory& factory, int64_t& nobj)
{
    for (const auto& id : factory.ids())
    {
        const auto object = factory.get(id);
        if (object == nullptr)
        {
            vt::put(vt::J("Get").i("obj", -1).s("factory", name).s("id", id).b("idOK", false));
            continue;
        }
        sweep_object(name, id, *object, nobj);
    }
    // unknown ids yield no object
    vt::put(vt::J("Reset").s("factory", name).s("id", "?").i("a", -1).i("b", -1));
    vt::put(vt::J("GetUnknown").s("factory", name).b("null", factory.get("no-such-id") == nullptr));
}
} // namespace

int sweep(const char* out_path)
{
    vt::Trace::get().open(out_path);
    int64_t nobj = 0;
    sweep_factory("solver", solver_t::all(), nobj);
    sweep_factory("lsearch0", lsearch0_t::all(), nobj);
    sweep_factory("lsearchk", lsearchk_t::all(), nobj);
    sweep_factory("loss", loss_t::all(), nobj);
    sweep_factory("splitter", splitter_t::all(), nobj);
    sweep_factory("tuner", tuner_t::all(), nobj);
    sweep_factory("generator", generator_t::all(), nobj);
    sweep_factory("wlearner", wlearner_t::all(), nobj);
    sweep_factory("linear", linear_t::all(), nobj);
    sweep_factory("datasource", datasource_t::all(), nobj);
    sweep_factory("function", function_t::all(), nobj);
    return 0;
}
