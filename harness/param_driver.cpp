// C19 conformance driver.
//   param_driver replay <plan.txt> <out.ndjson>   : steps real parameter_t objects along the edges of TLC's state graph
//                                                   of Parameter.tla and compares the projected state after every step
//   param_driver sweep <out.ndjson>               : records a trace over every object of every factory (defaults,
//                                                   ids, clones with a behaviour probe per kind of object, independent
//                                                   modification, factory queries) and over driver-owned cases (parameter
//                                                   construction over other domains, pair strings, a configurable object of
//                                                   the driver's own: duplicate registration, config(...)) for ConfigurableTrace.tla
#include "tabledata.h"
#include "trace.h"
#include <cstring>
#include <filesystem>
#include <nano/dataset.h>
#include <nano/generator/elemwise_identity.h>
#include <nano/machine/params.h>
#include <nano/solver/state.h>
#include <nano/core/verif.h>
#include <nano/logger.h>
#include <cmath>
#include <fstream>
#include <iostream>
#include <nano/configurable.h>
#include <nano/core/stream.h>
#include <nano/datasource.h>
#include <nano/function.h>
#include <nano/generator.h>
#include <nano/linear.h>
#include <nano/loss.h>
#include <nano/lsearch0.h>
#include <nano/lsearchk.h>
#include <nano/solver.h>
#include <nano/splitter.h>
#include <nano/tuner.h>
#include <nano/wlearner.h>
#include <nano/wlearner/criterion.h>
#include <nano/gboost/enums.h>
#include <nano/dataset/scaling.h>
#include <nano/solver/lstep.h>
#include <nano/task.h>
#include <regex>
#include <sstream>

using namespace nano;

namespace verifenum
{
enum class color_t : int32_t
{
    red,
    green,
    blue,
    outside = 7
};
} // namespace verifenum

template <>
nano::enum_map_t<verifenum::color_t> nano::enum_string<verifenum::color_t>()
{
    return {
        // (every name is a strict prefix of the following ones, like aic / aicc in the library: reads must match whole names)
        {  verifenum::color_t::red,     "hue"},
        {verifenum::color_t::green,    "hues"},
        { verifenum::color_t::blue, "huesome"}
    };
}

namespace
{
using verifenum::color_t;

constexpr int Off = 8, Min = 4, Max = 12;

struct tval_t
{
    std::vector<std::string> v;

    bool operator==(const tval_t& o) const { return v == o.v; }
};

tval_t parse_tval(const std::string& s)
{
    // n:v1:v2
    tval_t            t;
    std::stringstream ss(s);
    std::string       tok;
    std::getline(ss, tok, ':');
    const int n = std::stoi(tok);
    for (int i = 0; i < n; ++i)
    {
        std::getline(ss, tok, ':');
        t.v.push_back(tok);
    }
    return t;
}

std::string show(const tval_t& t)
{
    std::string s = std::to_string(t.v.size());
    for (const auto& x : t.v)
    {
        s += ":" + x;
    }
    return s;
}

// concretisation of a grid value r (half units) for real kinds: neighbours of the bounds are one ulp away
double creal(int r)
{
    const double lo = (Min - Off) / 2.0, hi = (Max - Off) / 2.0;
    const int    p  = r + Off;
    if (p == Min - 1)
    {
        return std::nextafter(lo, -1e300);
    }
    if (p == Min + 1)
    {
        return std::nextafter(lo, +1e300);
    }
    if (p == Max - 1)
    {
        return std::nextafter(hi, -1e300);
    }
    if (p == Max + 1)
    {
        return std::nextafter(hi, +1e300);
    }
    return r / 2.0;
}

double conc(const std::string& kind, int r)
{
    return (kind == "real" || kind == "rpair") ? creal(r) : r / 2.0;
}

std::string fmt(double x)
{
    char buf[64];
    std::snprintf(buf, sizeof(buf), "%.17g", x);
    return buf;
}

struct cfg_t
{
    std::string kind;
    bool        minLE, maxLE, valLE;
};

LEorLT comp(bool le)
{
    return le ? LEorLT{LE} : LEorLT{LT};
}

const char* str_of_token(const std::string& tok)
{
    return tok == "s0" ? "initial" : tok == "num" ? "1.5" : tok == "garbage" ? "abc" : tok == "pair" ? "1,2" : "hues";
}

parameter_t construct(const cfg_t& c, const tval_t& v)
{
    const double lo = (Min - Off) / 2.0, hi = (Max - Off) / 2.0;
    if (c.kind == "int")
    {
        return parameter_t::make_integer("p", static_cast<int64_t>(lo), comp(c.minLE), static_cast<int64_t>(std::stoi(v.v[0]) / 2),
                                         comp(c.maxLE), static_cast<int64_t>(hi));
    }
    if (c.kind == "real")
    {
        return parameter_t::make_scalar("p", lo, comp(c.minLE), conc(c.kind, std::stoi(v.v[0])), comp(c.maxLE), hi);
    }
    if (c.kind == "ipair")
    {
        return parameter_t::make_integer_pair("p", static_cast<int64_t>(lo), comp(c.minLE), static_cast<int64_t>(std::stoi(v.v[0]) / 2),
                                              comp(c.valLE), static_cast<int64_t>(std::stoi(v.v[1]) / 2), comp(c.maxLE),
                                              static_cast<int64_t>(hi));
    }
    if (c.kind == "rpair")
    {
        return parameter_t::make_scalar_pair("p", lo, comp(c.minLE), conc(c.kind, std::stoi(v.v[0])), comp(c.valLE),
                                             conc(c.kind, std::stoi(v.v[1])), comp(c.maxLE), hi);
    }
    if (c.kind == "enum")
    {
        return parameter_t::make_enum("p", static_cast<color_t>(std::stoi(v.v[0])));
    }
    return parameter_t::make_string("p", str_of_token(v.v[0]));
}

// abstract state of the object through its public interface only
tval_t project(const cfg_t& c, const parameter_t& p, const std::string& strtoken)
{
    tval_t     t;
    const auto grid = [&](double x) -> std::string
    {
        for (int r = -Off - 2; r <= 2 * Off + 2; ++r)
        {
            if (conc(c.kind, r) == x)
            {
                return std::to_string(r);
            }
        }
        return "offgrid(" + fmt(x) + ")";
    };
    if (c.kind == "int" || c.kind == "real")
    {
        t.v.push_back(grid(p.value<scalar_t>()));
    }
    else if (c.kind == "ipair" || c.kind == "rpair")
    {
        const auto [v1, v2] = p.value_pair<scalar_t>();
        t.v.push_back(grid(v1));
        t.v.push_back(grid(v2));
    }
    else if (c.kind == "enum")
    {
        t.v.push_back(std::to_string(static_cast<int>(p.value<color_t>())));
    }
    else
    {
        // the specification only tracks the class of the stored string; the exact text is compared by the caller
        t.v.push_back(strtoken);
    }
    return t;
}

struct step_t
{
    char        mode;
    cfg_t       cfg;
    tval_t      pre, args, post, obs;
    std::string act, last;
};

int replay(const char* plan_path, const char* out_path)
{
    vt::Trace::get().open(out_path);
    std::ifstream in(plan_path);
    std::string   line;
    int64_t       steps = 0, mismatches = 0, lineno = 0, walks = 0;
    parameter_t   param;
    std::string   strtoken = "s0", strtext = "initial";

    const char* seps = ";,:|/ ";
    while (std::getline(in, line))
    {
        ++lineno;
        std::stringstream ss(line);
        step_t            s;
        std::string       kind, pre, args, post, obs;
        int               a, b, c;
        ss >> s.mode >> kind >> a >> b >> c >> pre >> s.act >> args >> post >> s.last >> obs;
        s.cfg  = cfg_t{kind, a != 0, b != 0, c != 0};
        s.pre  = parse_tval(pre);
        s.args = parse_tval(args);
        s.post = parse_tval(post);
        s.obs  = parse_tval(obs);
        const auto& k = s.cfg.kind;

        if (s.mode == 'E')
        {
            param    = construct(s.cfg, s.pre);
            strtoken = s.pre.v[0];
            strtext  = str_of_token(strtoken);
            ++walks;
        }
        else if (!(project(s.cfg, param, strtoken) == s.pre))
        {
            vt::put(vt::J("Mismatch").i("line", lineno).s("what", "walk: pre-state differs").s("step", line));
            ++mismatches;
        }

        bool        threw = false;
        tval_t      seen; // observed read value
        const auto  ai  = [&](size_t i) { return std::stoi(s.args.v[i]); };
        const auto  sep = std::string(1, seps[static_cast<size_t>(lineno) % 6U]);
        std::string assigned_text;
        try
        {
            if (s.act == "AssignI")
            {
                param = static_cast<int64_t>((ai(0) - Off) / 2);
            }
            else if (s.act == "AssignD")
            {
                param = conc(k, ai(0) - Off);
            }
            else if (s.act == "AssignTok")
            {
                const auto& t = s.args.v[0];
                param         = t == "nan" ? std::nan("") : t == "pinf" ? HUGE_VAL : -HUGE_VAL;
            }
            else if (s.act == "AssignS")
            {
                assigned_text = fmt(conc(k, ai(0) - Off)) + (ai(1) != 0 ? "_q" : "");
                param         = assigned_text;
            }
            else if (s.act == "AssignGarbage")
            {
                assigned_text = (lineno % 2 == 0) ? "abc" : "";
                param         = assigned_text;
            }
            else if (s.act == "AssignPI")
            {
                if (lineno % 2 == 0)
                {
                    param = std::make_tuple(static_cast<int64_t>((ai(0) - Off) / 2), static_cast<int64_t>((ai(1) - Off) / 2));
                }
                else
                {
                    param = std::make_tuple(static_cast<int32_t>((ai(0) - Off) / 2), static_cast<int32_t>((ai(1) - Off) / 2));
                }
            }
            else if (s.act == "AssignPD")
            {
                param = std::make_tuple(conc(k, ai(0) - Off), conc(k, ai(1) - Off));
            }
            else if (s.act == "AssignPS")
            {
                assigned_text = fmt(conc(k, ai(0) - Off)) + sep + fmt(conc(k, ai(1) - Off));
                param         = assigned_text;
            }
            else if (s.act == "AssignE")
            {
                param = ai(0) < 3 ? static_cast<color_t>(ai(0)) : color_t::outside;
            }
            else if (s.act == "AssignES")
            {
                assigned_text = ai(0) == 0 ? "hue" : ai(0) == 1 ? "hues" : ai(0) == 2 ? "huesome" : "magenta";
                param         = assigned_text;
            }
            else if (s.act == "ReadI")
            {
                seen.v.push_back(std::to_string(2 * param.value<int64_t>()));
            }
            else if (s.act == "ReadD")
            {
                (void)param.value<scalar_t>();
                seen = project(s.cfg, param, strtoken);
            }
            else if (s.act == "ReadPI")
            {
                const auto [v1, v2] = param.value_pair<int64_t>();
                seen.v.push_back(std::to_string(2 * v1));
                seen.v.push_back(std::to_string(2 * v2));
            }
            else if (s.act == "ReadPD")
            {
                (void)param.value_pair<scalar_t>();
                seen = project(s.cfg, param, strtoken);
            }
            else if (s.act == "ReadE")
            {
                seen.v.push_back(std::to_string(static_cast<int>(param.value<color_t>())));
            }
            else if (s.act == "ReadS")
            {
                const auto text = param.value<string_t>();
                seen.v.push_back(text == strtext ? strtoken : "othertext(" + text + ")");
            }
            else if (s.act == "WriteRead")
            {
                std::ostringstream os;
                param.write(os);
                parameter_t        copy;
                std::istringstream is(os.str());
                copy.read(is);
                if (!(copy == param) || copy.name() != param.name())
                {
                    vt::put(vt::J("Mismatch").i("line", lineno).s("what", "write+read: objects differ").s("step", line));
                    ++mismatches;
                }
                param = copy;
            }
            else
            {
                vt::put(vt::J("Mismatch").i("line", lineno).s("what", "unknown action").s("step", line));
                ++mismatches;
            }
        }
        catch (const std::exception&)
        {
            threw = true;
        }
        if (!threw && k == "str" && !assigned_text.empty())
        {
            strtext  = assigned_text;
            strtoken = s.post.v[0];
        }
        if (!threw && k == "str" && s.act == "AssignGarbage")
        {
            strtext  = assigned_text;
            strtoken = s.post.v[0];
        }

        // compare with the specification's successor state
        tval_t now;
        bool   projected = true;
        try
        {
            now = project(s.cfg, param, strtoken);
            if (k == "str" && param.value<string_t>() != strtext)
            {
                now.v[0] = "othertext(" + param.value<string_t>() + ")";
            }
        }
        catch (const std::exception&)
        {
            projected = false;
        }
        const auto last = threw ? "threw" : "ok";
        if (!projected || !(now == s.post) || s.last != last || !(seen == s.obs))
        {
            vt::put(vt::J("Mismatch")
                        .i("line", lineno)
                        .s("what", "successor state differs")
                        .s("step", line)
                        .s("impl_post", show(now))
                        .s("impl_last", last)
                        .s("impl_obs", show(seen)));
            ++mismatches;
        }
        ++steps;
    }
    vt::put(vt::J("Summary").i("steps", steps).i("mismatches", mismatches).i("constructed", walks));
    return 0;
}
} // namespace

int sweep(const char* out_path);

int main(int argc, char* argv[])
{
    if (argc == 4 && std::string(argv[1]) == "replay")
    {
        return replay(argv[2], argv[3]);
    }
    if (argc == 3 && std::string(argv[1]) == "sweep")
    {
        return sweep(argv[2]);
    }
    std::fprintf(stderr, "usage: param_driver replay <plan> <out> | sweep <out>\n");
    return 2;
}

// ---------------------------------------------------------------------------------------------------------------------
// factory sweep (V): every id of every factory
namespace
{
struct pinfo_t
{
    std::string         kind;
    bool                minLE{true}, maxLE{true}, valLE{true};
    std::vector<double> reals; // min, value(s), max
    std::string         text;
    bool                typedOK{true}; // enumerations of the library: the typed read is the member with the stored name
};

// the typed read of an enumeration parameter of the library, as its name: value<tenum>() must be the member whose name is stored
template <class tenum>
std::string typed_name(const parameter_t& p)
{
    const auto value = p.value<tenum>();
    for (const auto& [option, name] : enum_string<tenum>())
    {
        if (option == value)
        {
            return name;
        }
    }
    return "?";
}

std::string typed_enum_name(const parameter_t& p, const std::string& stored)
{
    const auto& name = p.name();
    const auto  ends = [&](const char* suffix)
    {
        const auto n = std::strlen(suffix);
        return name.size() >= n && name.compare(name.size() - n, n, suffix) == 0;
    };
    try
    {
        return name == "wlearner::criterion"            ? typed_name<wlearner_criterion>(p)
             : name == "linear::scaling"                ? typed_name<scaling_type>(p)
             : ends("::interpolation")                  ? typed_name<interpolation_type>(p)
             : name == "gboost::wscale"                 ? typed_name<gboost_wscale>(p)
             : name == "gboost::shrinkage"              ? typed_name<gboost_shrinkage>(p)
             : name == "gboost::subsample"              ? typed_name<gboost_subsample>(p)
             : name == "datasource::linear::task"       ? typed_name<task_type>(p)
                                                        : stored;
    }
    catch (const std::exception&)
    {
        return "threw";
    }
}

pinfo_t info(const parameter_t& p)
{
    pinfo_t out;
    std::visit(overloaded{[&](const parameter_t::enum_t& e)
                          {
                              out.kind = "enum";
                              out.text = e.m_value;
                              out.valLE = std::find(e.m_domain.begin(), e.m_domain.end(), e.m_value) != e.m_domain.end();
                              out.typedOK = typed_enum_name(p, e.m_value) == e.m_value;
                          },
                          [&](const parameter_t::irange_t& r)
                          {
                              out.kind  = "int";
                              out.minLE = std::holds_alternative<LE_t>(r.m_mincomp);
                              out.maxLE = std::holds_alternative<LE_t>(r.m_maxcomp);
                              out.reals = {static_cast<double>(r.m_min), static_cast<double>(r.m_value), static_cast<double>(r.m_max)};
                          },
                          [&](const parameter_t::frange_t& r)
                          {
                              out.kind  = "real";
                              out.minLE = std::holds_alternative<LE_t>(r.m_mincomp);
                              out.maxLE = std::holds_alternative<LE_t>(r.m_maxcomp);
                              out.reals = {r.m_min, r.m_value, r.m_max};
                          },
                          [&](const parameter_t::iprange_t& r)
                          {
                              out.kind  = "ipair";
                              out.minLE = std::holds_alternative<LE_t>(r.m_mincomp);
                              out.maxLE = std::holds_alternative<LE_t>(r.m_maxcomp);
                              out.valLE = std::holds_alternative<LE_t>(r.m_valcomp);
                              out.reals = {static_cast<double>(r.m_min), static_cast<double>(r.m_value1), static_cast<double>(r.m_value2),
                                           static_cast<double>(r.m_max)};
                          },
                          [&](const parameter_t::fprange_t& r)
                          {
                              out.kind  = "rpair";
                              out.minLE = std::holds_alternative<LE_t>(r.m_mincomp);
                              out.maxLE = std::holds_alternative<LE_t>(r.m_maxcomp);
                              out.valLE = std::holds_alternative<LE_t>(r.m_valcomp);
                              out.reals = {r.m_min, r.m_value1, r.m_value2, r.m_max};
                          },
                          [&](const string_t& s)
                          {
                              out.kind = "str";
                              out.text = s;
                          },
                          [&](const std::monostate&) { out.kind = "none"; }},
               p.storage());
    return out;
}

// dense ranks of the given reals (order-preserving abstraction; NaN gets rank -1)
std::vector<int64_t> ranks(const std::vector<double>& xs)
{
    std::vector<double> sorted;
    for (const auto x : xs)
    {
        if (std::isfinite(x))
        {
            sorted.push_back(x);
        }
    }
    std::sort(sorted.begin(), sorted.end());
    sorted.erase(std::unique(sorted.begin(), sorted.end()), sorted.end());
    std::vector<int64_t> out;
    for (const auto x : xs)
    {
        out.push_back(std::isfinite(x) ? std::lower_bound(sorted.begin(), sorted.end(), x) - sorted.begin() : -1);
    }
    return out;
}

vt::J param_event(const char* e, int64_t obj, const parameter_t& p, const std::vector<double>& extra = {})
{
    const auto pi    = info(p);
    auto       reals = pi.reals;
    reals.insert(reals.end(), extra.begin(), extra.end());
    return vt::J(e)
        .i("obj", obj)
        .s("name", p.name())
        .s("kind", pi.kind)
        .b("minLE", pi.minLE)
        .b("maxLE", pi.maxLE)
        .b("valLE", pi.valLE)
        .a("r", ranks(reals))
        .s("text", pi.text)
        .b("typedOK", pi.typedOK);
}

// ---- fixtures of the behaviour probes: tiny fixed data (every value is a fixed formula of the sample index)
std::string g_probe_dir; // directory with small files for the file-based data sources (iris/iris.data, wine/wine.data)

// flavour: 0 = every kind of feature (some values missing), 1 = scalar features only, 2 = as 0 plus an image-like feature
const vt::table_datasource_t& probe_source(const int flavour)
{
    const auto make = [](const bool only_scalars, const bool image)
    {
        const int64_t             n = 18;
        std::vector<vt::column_t> columns;
        auto x0 = vt::make_scalar_column("x0", feature_type::float64, n);
        auto x1 = vt::make_scalar_column("x1", feature_type::int16, n);
        auto x2 = vt::make_scalar_column("x2", feature_type::float64, n);
        auto c0 = vt::make_sclass_column("c0", 3, n);
        auto m0 = vt::make_mclass_column("m0", 3, n);
        auto s0 = vt::make_struct_column("s0", feature_type::float64, make_dims(2, 1, 2), n);
        auto s1 = vt::make_struct_column("s1", feature_type::float64, make_dims(1, 4, 4), n);
        auto y  = vt::make_scalar_column("y", feature_type::float64, n);
        for (size_t q = 0; q < s1.flat.size(); ++q)
        {
            s1.flat[q] = 0.25 * static_cast<double>((q * q + 3 * q) % 17) - 2.0;
        }
        for (int64_t i = 0; i < n; ++i)
        {
            const auto u = static_cast<size_t>(i);
            x0.flat[u]   = static_cast<double>((i * 7) % 11) - 5.0 + 0.25 * static_cast<double>(i);
            x1.flat[u]   = static_cast<double>((i * 5) % 9 - 4);
            x2.flat[u]   = 0.5 * static_cast<double>((i * i + 3) % 7) - 1.5;
            c0.flat[u]   = static_cast<double>((i * i + 1) % 3);
            for (int64_t k = 0; k < 3; ++k)
            {
                m0.flat[u * 3U + static_cast<size_t>(k)] = static_cast<double>((i >> k) & 1);
            }
            for (int64_t k = 0; k < 4; ++k)
            {
                s0.flat[u * 4U + static_cast<size_t>(k)] = 0.5 * static_cast<double>((i * 3 + k * 5) % 7) - 1.0;
            }
            y.flat[u] = 0.75 * x0.flat[u] - 0.5 * x1.flat[u] + (c0.flat[u] == 1.0 ? 1.0 : 0.0) + 0.125 * static_cast<double>((i * 13) % 5);
        }
        if (!only_scalars)
        {
            x1.missing[3] = 1;
            c0.missing[5] = 1;
        }
        columns.push_back(x0);
        columns.push_back(x1);
        columns.push_back(x2);
        if (!only_scalars)
        {
            columns.push_back(c0);
            columns.push_back(m0);
            columns.push_back(s0);
        }
        if (image)
        {
            columns.push_back(s1);
        }
        columns.push_back(y);
        auto source = std::make_unique<vt::table_datasource_t>(n, columns, columns.size() - 1U);
        source->load();
        return source;
    };
    static const auto mixed  = make(false, false);
    static const auto scalar = make(true, false);
    static const auto images = make(false, true);
    return flavour == 1 ? *scalar : flavour == 2 ? *images : *mixed;
}

const dataset_t& probe_dataset(const bool dense)
{
    const auto make = [](const bool only_scalars)
    {
        auto dataset = std::make_unique<dataset_t>(probe_source(only_scalars ? 1 : 0), size_t{1});
        dataset->add<sclass_identity_generator_t>();
        dataset->add<mclass_identity_generator_t>();
        dataset->add<scalar_identity_generator_t>();
        dataset->add<struct_identity_generator_t>();
        return dataset;
    };
    static const auto mixed  = make(false);
    static const auto scalar = make(true);
    return dense ? *scalar : *mixed;
}

void make_probe_files(const std::string& dir)
{
    namespace fs = std::filesystem;
    fs::create_directories(fs::path(dir) / "iris");
    fs::create_directories(fs::path(dir) / "wine");
    {
        std::ofstream os(fs::path(dir) / "iris" / "iris.data");
        const char*   labels[] = {"Iris-setosa", "Iris-versicolor", "Iris-virginica"};
        for (int i = 0; i < 150; ++i)
        {
            os << (4.0 + 0.1 * ((i * 7) % 31)) << "," << (2.0 + 0.1 * ((i * 3) % 23)) << "," << (1.0 + 0.1 * ((i * 11) % 57)) << "," << (0.1 * ((i * 5) % 25))
               << "," << labels[i / 50] << "\n";
        }
    }
    {
        std::ofstream os(fs::path(dir) / "wine" / "wine.data");
        for (int i = 0; i < 178; ++i)
        {
            os << (1 + i % 3);
            for (int k = 0; k < 13; ++k)
            {
                os << "," << (0.5 * ((i * (k + 3) + k) % 41));
            }
            os << "\n";
        }
    }
}

// a deterministic observation of what an object DOES (bit patterns of the results of one fixed call): an object and its clone with
// equal parameters must give the same observation ("behaves identically"); "" when there is nothing cheap to observe
void digest(std::ostringstream& os, const double v)
{
    uint64_t bits = 0;
    std::memcpy(&bits, &v, sizeof(bits));
    os << std::hex << bits << ",";
}

template <class tobject>
std::string behaviour(const tobject& object)
{
    std::ostringstream os;
    try
    {
        if constexpr (std::is_base_of_v<function_t, tobject>)
        {
            vector_t x(object.size()), g(object.size());
            for (tensor_size_t i = 0; i < x.size(); ++i)
            {
                x(i) = 0.25 + 0.125 * static_cast<double>(i % 5);
            }
            digest(os, object.vgrad(x, g));
            for (tensor_size_t i = 0; i < g.size(); ++i)
            {
                digest(os, g(i));
            }
        }
        else if constexpr (std::is_base_of_v<loss_t, tobject>)
        {
            tensor4d_t targets(3, 4, 1, 1), outputs(3, 4, 1, 1), vgrads;
            tensor1d_t values, errors;
            for (tensor_size_t i = 0; i < targets.size(); ++i)
            {
                targets(i) = (i % 4 == i / 4) ? 1.0 : -1.0;
                outputs(i) = 0.5 * static_cast<double>((i * 7) % 5) - 1.0;
            }
            object.value(targets, outputs, values);
            object.error(targets, outputs, errors);
            object.vgrad(targets, outputs, vgrads);
            for (tensor_size_t i = 0; i < 3; ++i)
            {
                digest(os, values(i));
                digest(os, errors(i));
            }
            for (tensor_size_t i = 0; i < vgrads.size(); ++i)
            {
                digest(os, vgrads(i));
            }
        }
        else if constexpr (std::is_base_of_v<splitter_t, tobject>)
        {
            for (const auto& [train, valid] : object.split(arange(0, 23)))
            {
                for (const auto i : train)
                {
                    os << i << ",";
                }
                os << "|";
                for (const auto i : valid)
                {
                    os << i << ",";
                }
                os << ";";
            }
        }
        else if constexpr (std::is_base_of_v<tuner_t, tobject>)
        {
            param_spaces_t spaces;
            spaces.emplace_back("a", param_space_t::type::linear, make_tensor<scalar_t>(make_dims(6), 0.0, 1.0, 2.0, 3.0, 4.0, 5.0));
            spaces.emplace_back("b", param_space_t::type::log10, make_tensor<scalar_t>(make_dims(5), 0.01, 0.1, 1.0, 10.0, 100.0));
            const auto callback = [](const tensor2d_t& params)
            {
                tensor1d_t values(params.size<0>());
                for (tensor_size_t i = 0; i < values.size(); ++i)
                {
                    values(i) = (params(i, 0) - 2.0) * (params(i, 0) - 2.0) + std::fabs(std::log10(params(i, 1)) - 1.0);
                }
                return values;
            };
            for (const auto& step : object.optimize(spaces, callback, make_null_logger()))
            {
                digest(os, step.m_value);
                for (const auto v : step.m_param)
                {
                    digest(os, v);
                }
            }
        }
        else if constexpr (std::is_base_of_v<solver_t, tobject>)
        {
            const auto function = function_t::all().get("sphere")->make(3, 10);
            vector_t   x0(3);
            x0(0) = 1.0;
            x0(1) = -0.5;
            x0(2) = 0.25;
            verif::set_default_seed(17);
            const auto state = object.minimize(*function, x0, make_null_logger());
            digest(os, state.fx());
            for (tensor_size_t i = 0; i < 3; ++i)
            {
                digest(os, state.x()(i));
            }
            os << static_cast<int>(state.status()) << "," << state.fcalls() << "," << state.gcalls();
        }
        else if constexpr (std::is_base_of_v<lsearch0_t, tobject>)
        {
            // the initial step at a first iterate, then at a second one given the step taken in between
            // (the object keeps what it saw at the previous call; the first call of a run does not look at it: the pair is reproducible)
            auto&      lsearch0 = const_cast<tobject&>(object); // NOLINT(cppcoreguidelines-pro-type-const-cast)
            const auto function = function_t::all().get("sphere")->make(3, 10);
            vector_t   x0(3);
            x0(0) = 1.0;
            x0(1) = -0.5;
            x0(2) = 0.25;
            const solver_state_t state0(*function, x0);
            const vector_t       descent0 = -state0.gx();
            digest(os, lsearch0.get(state0, descent0, -1.0));
            const vector_t       x1 = x0.vector() + 0.125 * descent0.vector();
            const solver_state_t state1(*function, x1);
            const vector_t       descent1 = -state1.gx();
            digest(os, lsearch0.get(state1, descent1, 0.125));
        }
        else if constexpr (std::is_base_of_v<lsearchk_t, tobject>)
        {
            // line searches along the steepest descent of a fixed quadratic: from a step that is too long and from one that is too short
            const auto function = function_t::all().get("sphere")->make(3, 10);
            for (const auto t0 : {1.0, 1e-3})
            {
                vector_t x0(3);
                x0(0) = 1.0;
                x0(1) = -0.5;
                x0(2) = 0.25;
                solver_state_t state(*function, x0);
                const vector_t descent = -state.gx();
                const auto [ok, t]     = object.get(state, descent, t0, make_null_logger());
                os << (ok ? "ok," : "failed,");
                digest(os, t);
                digest(os, state.fx());
            }
        }
        else if constexpr (std::is_base_of_v<wlearner_t, tobject>)
        {
            // fit on a tiny fixed dataset, then predict
            auto&       wlearner = const_cast<tobject&>(object); // NOLINT(cppcoreguidelines-pro-type-const-cast)
            const auto& dataset  = probe_dataset(false);
            const auto  samples  = arange(0, dataset.samples());
            tensor4d_t  gradients(cat_dims(samples.size(), dataset.target_dims()));
            for (tensor_size_t i = 0; i < gradients.size(); ++i)
            {
                gradients(i) = 0.5 * static_cast<double>((i * 7) % 5) - 1.0 + 0.0625 * static_cast<double>(i);
            }
            const auto score = wlearner.fit(dataset, samples, gradients);
            digest(os, score);
            if (score != wlearner_t::no_fit_score())
            {
                for (const auto f : wlearner.features())
                {
                    os << f << ",";
                }
                const auto outputs = wlearner.predict(dataset, samples);
                for (tensor_size_t i = 0; i < outputs.size(); ++i)
                {
                    digest(os, outputs(i));
                }
            }
        }
        else if constexpr (std::is_base_of_v<generator_t, tobject>)
        {
            // fit to a tiny fixed data source: the generated features and their values
            auto&       generator = const_cast<tobject&>(object); // NOLINT(cppcoreguidelines-pro-type-const-cast)
            const auto& source    = probe_source(2);
            generator.fit(source);
            const auto samples = arange(0, source.samples());
            os << generator.features() << ":";
            for (tensor_size_t f = 0; f < generator.features(); ++f)
            {
                const auto feature = generator.feature(f);
                os << feature.name() << "/" << static_cast<int>(feature.type()) << "/" << feature.classes() << "/";
                const auto dims = feature.dims();
                switch (feature.type())
                {
                case feature_type::sclass:
                {
                    sclass_mem_t values(samples.size());
                    generator.select(samples, f, values.tensor());
                    for (const auto v : values)
                    {
                        os << static_cast<int>(v) << ",";
                    }
                    break;
                }
                case feature_type::mclass:
                {
                    mclass_mem_t values(samples.size(), feature.classes());
                    generator.select(samples, f, values.tensor());
                    for (const auto v : values)
                    {
                        os << static_cast<int>(v) << ",";
                    }
                    break;
                }
                default:
                    if (::nano::size(dims) == 1)
                    {
                        scalar_mem_t values(samples.size());
                        generator.select(samples, f, values.tensor());
                        for (const auto v : values)
                        {
                            digest(os, v);
                        }
                    }
                    else
                    {
                        struct_mem_t values(cat_dims(samples.size(), dims));
                        generator.select(samples, f, values.tensor());
                        for (const auto v : values)
                        {
                            digest(os, v);
                        }
                    }
                    break;
                }
                os << ";";
            }
        }
        else if constexpr (std::is_base_of_v<linear_t, tobject>)
        {
            // fit on a tiny fixed dataset (scalar inputs): bias, weights, predictions
            auto&       model   = const_cast<tobject&>(object); // NOLINT(cppcoreguidelines-pro-type-const-cast)
            const auto& dataset = probe_dataset(true);
            const auto  samples = arange(0, dataset.samples());
            const auto  loss    = loss_t::all().get("mse");
            auto        solver  = solver_t::all().get("lbfgs");
            solver->parameter("solver::max_evals") = 100;
            auto splitter                          = splitter_t::all().get("k-fold");
            splitter->parameter("splitter::folds") = 2;
            verif::set_default_seed(17);
            const auto params = ml::params_t{}.solver(*solver).splitter(*splitter).tuner("local-search");
            (void)model.fit(dataset, samples, *loss, params);
            for (tensor_size_t i = 0; i < model.bias().size(); ++i)
            {
                digest(os, model.bias()(i));
            }
            for (tensor_size_t i = 0; i < model.weights().size(); ++i)
            {
                digest(os, model.weights()(i));
            }
            const auto outputs = model.predict(dataset, samples);
            for (tensor_size_t i = 0; i < outputs.size(); ++i)
            {
                digest(os, outputs(i));
            }
        }
        else if constexpr (std::is_base_of_v<datasource_t, tobject>)
        {
            // load from a directory with small files (present for some of the ids): the task, the features and the values stored
            auto&      source = const_cast<tobject&>(object); // NOLINT(cppcoreguidelines-pro-type-const-cast)
            const auto saved  = source.parameter("datasource::basedir").template value<string_t>();
            source.parameter("datasource::basedir") = g_probe_dir;
            try
            {
                source.load();
                os << static_cast<int>(source.type()) << "," << source.samples() << "," << source.features() << "," << source.test_samples().size() << ":";
                for (tensor_size_t f = 0; f < source.features(); ++f)
                {
                    source.visit_inputs(f,
                                        [&](const feature_t& feature, const auto& data, const auto& mask)
                                        {
                                            os << feature.name() << "/" << static_cast<int>(feature.type()) << "/";
                                            for (tensor_size_t i = 0; i < data.size(); ++i)
                                            {
                                                digest(os, static_cast<double>(data(i)));
                                            }
                                            for (tensor_size_t i = 0; i < mask.size(); ++i)
                                            {
                                                os << static_cast<int>(mask(i)) << ",";
                                            }
                                            os << ";";
                                        });
                }
            }
            catch (const std::exception& e)
            {
                os << "exception:" << e.what();
            }
            source.parameter("datasource::basedir") = saved;
        }
    }
    catch (const std::exception& e)
    {
        os << "exception:" << e.what();
    }
    return os.str();
}

// solvers own two nested configurable objects (step initialisation and line search): give them non-default parameters, so that a copy that
// forgets them is visible both in the parameter comparison and in the behaviour probe
template <class tobject>
std::pair<string_t, string_t> configure_nested(tobject& object)
{
    if constexpr (std::is_base_of_v<solver_t, tobject>)
    {
        const auto tweak = [](auto& nested)
        {
            for (const auto& p0 : nested.parameters())
            {
                auto& p = nested.parameter(p0.name());
                std::visit(overloaded{[&](const parameter_t::irange_t& r)
                                      {
                                          const auto hi = r.m_max - (std::holds_alternative<LE_t>(r.m_maxcomp) ? 0 : 1);
                                          p             = std::min<int64_t>(hi, r.m_value + 3);
                                      },
                                      [&](const parameter_t::frange_t& r)
                                      {
                                          const auto v = 0.5 * (r.m_value + std::min(r.m_max, 2.0 * std::fabs(r.m_value) + 1.0));
                                          if (std::isfinite(v) && v > r.m_min && v < r.m_max)
                                          {
                                              p = v;
                                          }
                                      },
                                      [&](const parameter_t::enum_t& e) { p = e.m_domain.back(); }, [&](const auto&) {}},
                           p0.storage());
            }
        };
        // ... of other types than the solver's default ones (selected by id), rotating over the registered line searches
        static size_t rotation = 0;
        const auto    other_id = [&](const strings_t& ids, const string_t& current)
        {
            for (size_t k = 0; k < ids.size(); ++k)
            {
                if (const auto& id = ids[(rotation + k) % ids.size()]; id != current)
                {
                    return id;
                }
            }
            return current;
        };
        const auto id0 = other_id(lsearch0_t::all().ids(), object.lsearch0().type_id());
        const auto idk = other_id(lsearchk_t::all().ids(), object.lsearchk().type_id());
        ++rotation;
        object.lsearch0(id0);
        object.lsearchk(idk);
        auto ls0 = object.lsearch0().clone();
        auto lsk = object.lsearchk().clone();
        tweak(*ls0);
        tweak(*lsk);
        object.lsearch0(*ls0);
        object.lsearchk(*lsk);
        return std::make_pair(id0, idk);
    }
    else
    {
        return std::make_pair(string_t{}, string_t{});
    }
}

template <class tobject>
bool nested_equal(const tobject& a, const tobject& b)
{
    if constexpr (std::is_base_of_v<solver_t, tobject>)
    {
        return a.lsearch0().type_id() == b.lsearch0().type_id() && a.lsearchk().type_id() == b.lsearchk().type_id() &&
               a.lsearch0().parameters() == b.lsearch0().parameters() && a.lsearchk().parameters() == b.lsearchk().parameters();
    }
    else
    {
        return true;
    }
}

template <class tobject>
bool nested_ids_are(const tobject& object, const std::pair<string_t, string_t>& ids)
{
    if constexpr (std::is_base_of_v<solver_t, tobject>)
    {
        return object.lsearch0().type_id() == ids.first && object.lsearchk().type_id() == ids.second;
    }
    else
    {
        return true;
    }
}

template <class tobject>
void sweep_object(const std::string& factory, const std::string& id, const tobject& object, int64_t& nobj)
{
    const auto a = nobj++;
    const auto b = nobj++;
    vt::put(vt::J("Reset").s("factory", factory).s("id", id).i("a", a).i("b", b));
    vt::put(vt::J("Get").i("obj", a).s("factory", factory).s("id", id).b("idOK", object.type_id() == id));
    if constexpr (!std::is_base_of_v<configurable_t, tobject>)
    {
        // not a configurable object (benchmark functions): only the id and the clone's id can be observed
        auto clone = object.clone();
        const auto probe = behaviour(object);
        if (std::getenv("VERIF_SHOW_PROBES") != nullptr)
        {
            std::cerr << "probe " << factory << "/" << id << ": " << probe.substr(0, 400) << "\n";
        }
        vt::put(vt::J("Clone").i("obj", b).i("of", a).b("idOK", clone->type_id() == id).b("equal", true).i("n", 0).b("behaves", behaviour(*clone) == probe).i(
            "probe", static_cast<int64_t>(probe.size())).b("probeThrew", probe.rfind("exception:", 0) == 0));
        return;
    }
    else
    {
    for (const auto& p : object.parameters())
    {
        vt::put(param_event("Param", a, p));
    }
    // unknown names throw
    {
        bool threw = false;
        try
        {
            (void)object.parameter("no::such::parameter");
        }
        catch (const std::exception&)
        {
            threw = true;
        }
        vt::put(vt::J("Lookup").i("obj", a).s("name", "no::such::parameter").b("threw", threw).b("null",
                                                                                              object.parameter_if("no::such::parameter") == nullptr));
    }
    // modify every parameter of `target` (to another in-domain value when there is one); `other` must not change
    const auto modify = [&](auto& target, const auto* other, const int64_t tid, const int64_t variant)
    {
        const auto before = target.parameters();
        for (const auto& p0 : before)
        {
            const auto&  name = p0.name();
            const auto   o0   = other != nullptr ? other->parameter(name) : p0;
            parameter_t& pc   = target.parameter(name);
            const auto   pi   = info(pc);
            bool         threw = false, changed = false;
            try
            {
                if (pi.kind == "int")
                {
                    const auto v  = pc.value<int64_t>();
                    const auto lo = static_cast<int64_t>(pi.reals[0]) + (pi.minLE ? 0 : 1);
                    const auto hi = static_cast<int64_t>(pi.reals[2]) - (pi.maxLE ? 0 : 1);
                    const auto nv = variant == 0 ? ((v < hi) ? v + 1 : (v > lo ? v - 1 : v)) : ((v > lo) ? v - 1 : (v < hi ? v + 1 : v));
                    pc            = nv;
                    changed       = nv != v;
                }
                else if (pi.kind == "real")
                {
                    const auto v   = pc.value<scalar_t>();
                    const auto end = variant == 0 ? (v < pi.reals[2] ? pi.reals[2] : pi.reals[0]) : (v > pi.reals[0] ? pi.reals[0] : pi.reals[2]);
                    const auto nv  = 0.5 * (v + end);
                    pc             = nv;
                    changed        = nv != v;
                }
                else if (pi.kind == "ipair" || pi.kind == "rpair")
                {
                    const auto [v1, v2] = pc.value_pair<scalar_t>();
                    if (pi.kind == "rpair")
                    {
                        const auto nv1 = 0.5 * (pi.reals[0] + v1);
                        pc             = std::make_tuple(nv1, v2);
                        changed        = nv1 != v1;
                    }
                    else
                    {
                        const auto hi  = pi.reals[3] - (pi.maxLE ? 0 : 1);
                        const auto nv2 = v2 < hi ? v2 + 1 : v2;
                        pc             = std::make_tuple(static_cast<int64_t>(v1), static_cast<int64_t>(nv2));
                        changed        = nv2 != v2;
                    }
                }
                else if (pi.kind == "enum")
                {
                    const auto e     = std::get<parameter_t::enum_t>(pc.storage());
                    auto       count = variant;
                    for (const auto& option : e.m_domain)
                    {
                        if (option != e.m_value && (count-- == 0 || &option == &e.m_domain.back()))
                        {
                            pc      = option;
                            changed = true;
                            break;
                        }
                    }
                }
                else if (pi.kind == "str")
                {
                    pc      = pi.text + "_modified";
                    changed = true;
                }
            }
            catch (const std::exception&)
            {
                threw = true;
            }
            // ranks of (domain, old value(s), new value(s)) on one scale
            const auto          pn = info(target.parameter(name));
            std::vector<double> extra;
            if (pn.reals.size() >= 3)
            {
                extra.assign(pn.reals.begin() + 1, pn.reals.end() - 1);
            }
            vt::put(param_event("AssignOn", tid, p0, extra)
                        .b("threw", threw)
                        .b("changed", changed)
                        .s("newtext", pn.text)
                        .b("otherUnchanged", other == nullptr || other->parameter(name) == o0)
                        .b("differs", !(target.parameter(name) == p0)));
        }
    };
    // enumerations: every member of the domain is accepted by name and read back (stored name and typed read) as assigned
    {
        auto scratch = object.clone();
        for (const auto& p0 : object.parameters())
        {
            if (const auto* e = std::get_if<parameter_t::enum_t>(&p0.storage()); e != nullptr)
            {
                bool ok = true;
                for (const auto& option : e->m_domain)
                {
                    try
                    {
                        auto& pc = scratch->parameter(p0.name());
                        pc       = option;
                        ok       = ok && std::get<parameter_t::enum_t>(pc.storage()).m_value == option && typed_enum_name(pc, option) == option;
                    }
                    catch (const std::exception&)
                    {
                        ok = false;
                    }
                }
                vt::put(vt::J("EnumAll").i("obj", a).s("name", p0.name()).i("members", static_cast<int64_t>(e->m_domain.size())).b("ok", ok));
            }
        }
    }
    // configure the original away from its defaults, clone it, then modify the clone
    auto original = object.clone();
    vt::put(vt::J("Clone").i("obj", a + 100000).i("of", a).b("idOK", original->type_id() == id).b("equal", original->parameters() == object.parameters()).i(
        "n", static_cast<int64_t>(original->parameters().size())).b("behaves", behaviour(*original) == behaviour(object)));
    modify(*original, static_cast<const tobject*>(nullptr), a + 100000, 0);
    const auto nested_ids = configure_nested(*original);
    auto clone = original->clone();
    vt::put(vt::J("Clone").i("obj", b).i("of", a + 100000).b("idOK", clone->type_id() == id).b("equal", clone->parameters() == original->parameters() && nested_equal(*clone, *original) && nested_ids_are(*clone, nested_ids) && nested_ids_are(*original, nested_ids)).i(
        "n", static_cast<int64_t>(clone->parameters().size())).b("behaves", behaviour(*clone) == behaviour(*original)).s("lsearch0", nested_ids.first).s("lsearchk", nested_ids.second).i(
        "probe", static_cast<int64_t>(behaviour(*original).size())).b("probeThrew", behaviour(*original).rfind("exception:", 0) == 0));
    if (std::getenv("VERIF_SHOW_PROBES") != nullptr)
    {
        std::cerr << "probe " << factory << "/" << id << ": " << behaviour(*original).substr(0, 400) << "\n";
    }
    modify(*clone, original.get(), b, 1);
    for (const auto& p : original->parameters())
    {
        vt::put(param_event("ReadOn", a + 100000, p));
    }
    // the original still reads the values it had
    for (const auto& p : object.parameters())
    {
        vt::put(param_event("ReadOn", a, p));
    }
    }
}

template <class tfactory>
void sweep_factory(const std::string& name, const tfactory& factory, int64_t& nobj)
{
    for (const auto& id : factory.ids())
    {
        const auto object = factory.get(id);
        if (object == nullptr)
        {
            vt::put(vt::J("Get").i("obj", -1).s("factory", name).s("id", id).b("idOK", false));
            continue;
        }
        sweep_object(name, id, *object, nobj);
    }
    // unknown ids yield no object
    vt::put(vt::J("Reset").s("factory", name).s("id", "?").i("a", -1).i("b", -1));
    vt::put(vt::J("GetUnknown").s("factory", name).b("null", factory.get("no-such-id") == nullptr));
    // has(id) <=> get(id) != nullptr, every registered id has a description, ids(regex) = the ids matching the regular expression
    // (expressions whose matches are decided here with plain string operations: a prefix, a suffix, one id, all, none)
    {
        const auto ids    = factory.ids();
        bool       hasOK  = !factory.has("no-such-id") && factory.get("no-such-id") == nullptr && ids.size() == factory.size();
        bool       descOK = true;
        for (const auto& id : ids)
        {
            hasOK  = hasOK && factory.has(id) && factory.get(id) != nullptr;
            descOK = descOK && !factory.description(id).empty();
        }
        const auto escape = [](const string_t& text)
        {
            string_t out;
            for (const auto c : text)
            {
                if (std::strchr("\\^$.|?*+()[]{}", c) != nullptr)
                {
                    out += '\\';
                }
                out += c;
            }
            return out;
        };
        const auto same = [&](const string_t& regex, const auto& matches)
        {
            strings_t expected;
            for (const auto& id : ids)
            {
                if (matches(id))
                {
                    expected.push_back(id);
                }
            }
            auto got = factory.ids(std::regex(regex));
            std::sort(got.begin(), got.end());
            std::sort(expected.begin(), expected.end());
            return got == expected;
        };
        bool regexOK = same(".+", [](const string_t&) { return true; }) && same("no-such-id-[0-9]+", [](const string_t&) { return false; });
        if (!ids.empty())
        {
            const auto prefix = ids.front().substr(0, 1), suffix = ids.back().substr(ids.back().size() - 1), one = ids[ids.size() / 2];
            regexOK = regexOK && same(escape(prefix) + ".*", [&](const string_t& id) { return id.compare(0, prefix.size(), prefix) == 0; });
            regexOK = regexOK && same(".*" + escape(suffix), [&](const string_t& id) { return id.size() >= suffix.size() && id.compare(id.size() - suffix.size(), suffix.size(), suffix) == 0; });
            regexOK = regexOK && same(escape(one), [&](const string_t& id) { return id == one; });
            // a match must cover the whole id: the id without its last character matches nothing unless it is itself registered
            const auto cut = one.substr(0, one.size() - 1);
            regexOK = regexOK && (cut.empty() || same(escape(cut), [&](const string_t& id) { return id == cut; }));
        }
        vt::put(vt::J("Factory").s("factory", name).i("ids", static_cast<int64_t>(ids.size())).b("hasOK", hasOK).b("descOK", descOK).b("regexOK", regexOK));
    }
}
// ---------------------------------------------------------------------------------------------------------------------
// driver-owned cases: parameter construction over other domains, pair strings with one / three tokens, a configurable object of the
// driver's own (register_parameter with duplicate names, the variadic config(...))
struct spec_t
{
    std::string         kind; // int, real, ipair, rpair
    bool                minLE{true}, maxLE{true}, valLE{true};
    double              min{0}, max{0};
    std::vector<double> vals;
};

bool all_finite(const std::vector<double>& xs)
{
    return std::all_of(xs.begin(), xs.end(), [](const double x) { return std::isfinite(x); });
}

// the description of a parameter given by numbers (not read from an object): r = ranks of <<min, value(s), max, extra...>>
vt::J spec_event(const char* e, const spec_t& sp, const std::vector<double>& extra = {})
{
    std::vector<double> reals{sp.min};
    reals.insert(reals.end(), sp.vals.begin(), sp.vals.end());
    reals.push_back(sp.max);
    reals.insert(reals.end(), extra.begin(), extra.end());
    return vt::J(e).s("kind", sp.kind).b("minLE", sp.minLE).b("maxLE", sp.maxLE).b("valLE", sp.valLE).a("r", ranks(reals)).s("text", "").b("finite", all_finite(reals));
}

parameter_t construct(const std::string& name, const spec_t& sp)
{
    const auto i = [](const double x) { return static_cast<int64_t>(x); };
    if (sp.kind == "int")
    {
        return parameter_t::make_integer(name, i(sp.min), comp(sp.minLE), i(sp.vals[0]), comp(sp.maxLE), i(sp.max));
    }
    if (sp.kind == "real")
    {
        return parameter_t::make_scalar(name, sp.min, comp(sp.minLE), sp.vals[0], comp(sp.maxLE), sp.max);
    }
    if (sp.kind == "ipair")
    {
        return parameter_t::make_integer_pair(name, i(sp.min), comp(sp.minLE), i(sp.vals[0]), comp(sp.valLE), i(sp.vals[1]), comp(sp.maxLE), i(sp.max));
    }
    return parameter_t::make_scalar_pair(name, sp.min, comp(sp.minLE), sp.vals[0], comp(sp.valLE), sp.vals[1], comp(sp.maxLE), sp.max);
}

std::vector<double> stored_values(const parameter_t& p)
{
    const auto pi = info(p);
    return pi.reals.size() >= 3 ? std::vector<double>(pi.reals.begin() + 1, pi.reals.end() - 1) : std::vector<double>{};
}

struct own_configurable_t final : public configurable_t
{
};

void own_cases()
{
    const auto nan = std::numeric_limits<double>::quiet_NaN();
    const auto inf = std::numeric_limits<double>::infinity();
    struct domain_t
    {
        double      lo, hi;
        const char* name;
    };
    const std::vector<domain_t> domains{
        {-2.0,  2.0,       "[-2,2]"},
        { 3.0,  3.0,   "min == max"},
        {-1e9,  1e9, "[-1e9,+1e9]"},
        { 0.0,  1e9,    "[0,+1e9]"},
        { 2.0, -2.0,   "min > max"}
    };
    // ---- constructors: the default is accepted iff it is finite and inside the domain (the make_* factories validate it)
    for (const auto& kind : {"int", "real", "ipair", "rpair"})
    {
        const auto real = std::string(kind)[0] == 'r';
        const auto pair = std::string(kind).size() == 5;
        for (const auto& dom : domains)
        {
            vt::put(vt::J("Reset").s("factory", "own:construct").s("id", std::string(kind) + " " + dom.name).i("a", -1).i("b", -1));
            const auto          mid = std::floor(0.5 * (dom.lo + dom.hi));
            std::vector<double> candidates{dom.lo - 1.0, dom.lo, dom.lo + 1.0, mid, dom.hi - 1.0, dom.hi, dom.hi + 1.0};
            if (real)
            {
                for (const auto x : {dom.lo, dom.hi})
                {
                    candidates.push_back(std::nextafter(x, -inf));
                    candidates.push_back(std::nextafter(x, +inf));
                }
                candidates.push_back(nan);
                candidates.push_back(inf);
                candidates.push_back(-inf);
            }
            for (int flags = 0; flags < (pair ? 8 : 4); ++flags)
            {
                spec_t sp;
                sp.kind  = kind;
                sp.min   = dom.lo;
                sp.max   = dom.hi;
                sp.minLE = (flags & 1) != 0;
                sp.maxLE = (flags & 2) != 0;
                sp.valLE = pair ? (flags & 4) != 0 : true;
                const auto one = [&](std::vector<double> vals)
                {
                    sp.vals          = std::move(vals);
                    bool constructed = true;
                    std::vector<double> stored;
                    try
                    {
                        stored = stored_values(construct("p", sp));
                    }
                    catch (const std::exception&)
                    {
                        constructed = false;
                    }
                    vt::put(spec_event("Construct", sp, stored).b("constructed", constructed).s("domain", dom.name));
                };
                for (size_t i1 = 0; i1 < candidates.size(); ++i1)
                {
                    if (!pair)
                    {
                        one({candidates[i1]});
                        continue;
                    }
                    for (size_t i2 = 0; i2 < candidates.size(); ++i2)
                    {
                        // pairs: all the combinations of the bounds and the middle, a third of the others (rotating with the comparators)
                        const auto core = [](const size_t i) { return i == 1 || i == 3 || i == 5; };
                        if ((core(i1) && core(i2)) || (i1 * candidates.size() + i2 + static_cast<size_t>(flags)) % 3 == 0)
                        {
                            one({candidates[i1], candidates[i2]});
                        }
                    }
                }
            }
        }
    }
    // ---- pair strings with one, two, three tokens
    for (const auto& kind : {"ipair", "rpair"})
    {
        vt::put(vt::J("Reset").s("factory", "own:pairstring").s("id", kind).i("a", -1).i("b", -1));
        const char* seps = ";,:|/ ";
        int         isep = 0;
        for (const auto& dom : {domains[0], domains[2]})
        {
            for (int flags = 0; flags < 8; ++flags)
            {
                spec_t sp;
                sp.kind  = kind;
                sp.min   = dom.lo;
                sp.max   = dom.hi;
                sp.minLE = (flags & 1) != 0;
                sp.maxLE = (flags & 2) != 0;
                sp.valLE = (flags & 4) != 0;
                sp.vals  = {std::floor(0.5 * (dom.lo + dom.hi)) - 1.0, std::floor(0.5 * (dom.lo + dom.hi)) + 1.0};
                const std::vector<std::vector<double>> token_lists{
                    {},
                    {0.0},
                    {dom.lo},
                    {dom.hi + 1.0},
                    {0.0, 1.0},
                    {1.0, 0.0},
                    {1.0, 1.0},
                    {dom.lo, dom.hi},
                    {-1.0, 0.0, 1.0},
                    {1.0, 0.0, -1.0},
                    {0.0, dom.hi + 1.0, 1.0},
                    {0.0, 1.0, dom.hi + 1.0},
                    {0.0, 1.0, 1.0, 1.0}
                };
                for (const auto& tokens : token_lists)
                {
                    auto        param = construct("p", sp);
                    std::string text;
                    for (size_t k = 0; k < tokens.size(); ++k)
                    {
                        text += (k > 0 ? std::string(1, seps[(isep++) % 6]) : std::string()) + (sp.kind == "ipair" ? std::to_string(static_cast<int64_t>(tokens[k])) : fmt(tokens[k]));
                    }
                    bool threw = false;
                    try
                    {
                        param = text;
                    }
                    catch (const std::exception&)
                    {
                        threw = true;
                    }
                    auto extra = stored_values(param);
                    extra.insert(extra.end(), tokens.begin(), tokens.end());
                    vt::put(spec_event("AssignStr", sp, extra).b("threw", threw).i("ntok", static_cast<int64_t>(tokens.size())).s("string", text));
                }
            }
        }
    }
    // ---- wide integers: 64-bit values that no double represents (beyond 2^53) assigned to integer and integer-pair parameters through the
    // integer overloads AND as decimal strings (the configuration-string / command-line path); a value enters TLC as three 21-bit words
    // of v + 2^62 (exact, lexicographically ordered)
    {
        vt::put(vt::J("Reset").s("factory", "own:wideint").s("id", "int64").i("a", -1).i("b", -1));
        const int64_t two53 = int64_t{1} << 53U;
        const int64_t two62 = int64_t{1} << 62U;
        const auto    words = [&](const int64_t v)
        {
            const auto u = static_cast<uint64_t>(v) + static_cast<uint64_t>(two62);
            return std::vector<int64_t>{static_cast<int64_t>(u >> 42U), static_cast<int64_t>((u >> 21U) & 0x1FFFFFU), static_cast<int64_t>(u & 0x1FFFFFU)};
        };
        const std::vector<int64_t> candidates{0, 7, -7, two53 - 1, two53, two53 + 1, two53 + 3, -(two53 + 1), -(two53 + 3), 1234567890123456789LL,
                                              -1234567890123456789LL, two62 - 1, two62 - 3, -(two62 - 1), 4611686018427387001LL, 9007199254740993LL * 3};
        struct wdom_t
        {
            int64_t lo, hi;
        };
        const std::vector<wdom_t> wdoms{{-(two62 - 1), two62 - 1}, {two53 + 1, two62 - 3}, {-(two53 + 3), two53 + 3}};
        for (const auto& dom : wdoms)
        {
            for (int flags = 0; flags < 4; ++flags)
            {
                const bool minLE = (flags & 1) != 0, maxLE = (flags & 2) != 0;
                const auto def   = dom.lo / 2 + dom.hi / 2;
                for (const auto v : candidates)
                {
                    for (const bool as_string : {false, true})
                    {
                        auto param = parameter_t::make_integer("w", dom.lo, comp(minLE), def, comp(maxLE), dom.hi);
                        bool threw = false;
                        try
                        {
                            if (as_string)
                            {
                                param = std::to_string(v);
                            }
                            else
                            {
                                param = v;
                            }
                        }
                        catch (const std::exception&)
                        {
                            threw = true;
                        }
                        const auto after = param.value<int64_t>();
                        vt::put(vt::J("WideInt").b("pair", false).b("string", as_string).b("minLE", minLE).b("maxLE", maxLE).b("valLE", true).a("lo", words(dom.lo))
                                    .a("hi", words(dom.hi)).aa("before", std::vector<std::vector<int64_t>>{words(def)})
                                    .aa("given", std::vector<std::vector<int64_t>>{words(v)}).aa("after", std::vector<std::vector<int64_t>>{words(after)})
                                    .b("threw", threw).s("text", std::to_string(v)));
                    }
                }
                // pairs: neighbours beyond 2^53 (equal once rounded to double), in both orders, with <= and <
                for (const bool valLE : {false, true})
                {
                    const std::vector<std::pair<int64_t, int64_t>> pairs{{two53, two53 + 1}, {two53 + 1, two53}, {two53 + 1, two53 + 1}, {two53 + 1, two53 + 3},
                                                                         {two62 - 3, two62 - 1}, {-(two53 + 3), -(two53 + 1)}, {dom.lo, dom.hi}, {1, 2}};
                    for (const auto& [v1, v2] : pairs)
                    {
                        for (const bool as_string : {false, true})
                        {
                            const auto d1    = dom.lo / 2 + dom.hi / 2;
                            const auto d2    = d1 + 1;
                            auto       param = parameter_t::make_integer_pair("w", dom.lo, comp(minLE), d1, comp(valLE), d2, comp(maxLE), dom.hi);
                            bool       threw = false;
                            try
                            {
                                if (as_string)
                                {
                                    param = std::to_string(v1) + "," + std::to_string(v2);
                                }
                                else
                                {
                                    param = std::make_tuple(v1, v2);
                                }
                            }
                            catch (const std::exception&)
                            {
                                threw = true;
                            }
                            const auto [a1, a2] = param.value_pair<int64_t>();
                            vt::put(vt::J("WideInt").b("pair", true).b("string", as_string).b("minLE", minLE).b("maxLE", maxLE).b("valLE", valLE).a("lo", words(dom.lo))
                                        .a("hi", words(dom.hi)).aa("before", std::vector<std::vector<int64_t>>{words(d1), words(d2)})
                                        .aa("given", std::vector<std::vector<int64_t>>{words(v1), words(v2)})
                                        .aa("after", std::vector<std::vector<int64_t>>{words(a1), words(a2)}).b("threw", threw)
                                        .s("text", std::to_string(v1) + "," + std::to_string(v2)));
                        }
                    }
                }
            }
        }
    }
    // ---- a configurable object of the driver's own: registration (duplicate names throw and leave the object as it was), config(...)
    {
        const int64_t obj = 900000;
        vt::put(vt::J("Reset").s("factory", "own:configurable").s("id", "register+config").i("a", obj).i("b", -1));
        vt::put(vt::J("Create").i("obj", obj));
        own_configurable_t object;
        const auto         read_all = [&]()
        {
            for (const auto& p : object.parameters())
            {
                vt::put(param_event("ReadOn", obj, p));
            }
        };
        const auto reg = [&](const std::string& name, const spec_t& sp)
        {
            const auto before = object.parameters();
            bool       threw  = false;
            try
            {
                object.register_parameter(construct(name, sp));
            }
            catch (const std::exception&)
            {
                threw = true;
            }
            vt::put(spec_event("Register", sp).i("obj", obj).s("name", name).b("threw", threw).i("n", static_cast<int64_t>(object.parameters().size())).b(
                "same", object.parameters() == before));
        };
        const auto S = [](const char* kind, const double lo, const bool minLE, const std::vector<double>& vals, const bool maxLE, const double hi, const bool valLE = true)
        {
            spec_t sp;
            sp.kind  = kind;
            sp.min   = lo;
            sp.max   = hi;
            sp.minLE = minLE;
            sp.maxLE = maxLE;
            sp.valLE = valLE;
            sp.vals  = vals;
            return sp;
        };
        reg("own::count", S("int", 0, true, {3}, true, 10));
        reg("own::count", S("int", 0, true, {4}, true, 10));           // duplicate name, same kind
        reg("own::count", S("real", -1.0, true, {0.5}, true, 1.0));    // duplicate name, another kind
        reg("own::rate", S("real", 0.0, false, {0.0}, true, 1.0));     // default outside (strict bound): nothing is registered
        reg("own::rate", S("real", 0.0, false, {0.25}, true, 1.0));    // ... the name is still free
        reg("own::range", S("ipair", 1, true, {2, 5}, true, 8, false));
        reg("own::range", S("ipair", 1, true, {2, 5}, true, 8, false)); // duplicate of an identical parameter
        reg("own::span", S("rpair", -1e9, true, {-1.0, 1.0}, false, 1e9));
        reg("own::rate", S("real", 0.0, true, {0.75}, true, 1.0));     // duplicate of a name registered in between
        reg("own::count2", S("int", 0, true, {3}, true, 10));          // same parameter under another name: accepted
        read_all();
        // unknown names throw
        {
            bool threw = false;
            try
            {
                (void)object.parameter("own::missing");
            }
            catch (const std::exception&)
            {
                threw = true;
            }
            vt::put(vt::J("Lookup").i("obj", obj).s("name", "own::missing").b("threw", threw).b("null", object.parameter_if("own::missing") == nullptr));
        }
        // config(name, value, ...): every pair is assigned, or the call throws; a rejected value leaves its parameter as it was
        struct item_t
        {
            std::string         name;
            std::vector<double> req;
        };
        const auto config_event = [&](const std::vector<item_t>& items, const std::vector<parameter_t>& before, const bool threw)
        {
            std::string json = "[";
            for (const auto& item : items)
            {
                const auto it = std::find_if(before.begin(), before.end(), [&](const parameter_t& p) { return p.name() == item.name; });
                json += json.size() > 1 ? "," : "";
                if (it == before.end())
                {
                    json += vt::J().s("name", item.name).s("kind", "none").b("minLE", true).b("maxLE", true).b("valLE", true).a("r", std::vector<int64_t>{}).s("text", "").str();
                    continue;
                }
                auto extra = item.req;
                const auto after = stored_values(object.parameter(item.name));
                extra.insert(extra.end(), after.begin(), after.end());
                const auto pi    = info(*it);
                auto       reals = pi.reals;
                reals.insert(reals.end(), extra.begin(), extra.end());
                json += vt::J().s("name", item.name).s("kind", pi.kind).b("minLE", pi.minLE).b("maxLE", pi.maxLE).b("valLE", pi.valLE).a("r", ranks(reals)).s("text", "").str();
            }
            json += "]";
            vt::put(vt::J("Config").i("obj", obj).b("threw", threw).raw("items", json));
        };
        const auto run_config = [&](const std::vector<item_t>& items, const auto& call)
        {
            const auto before = object.parameters();
            bool       threw  = false;
            try
            {
                call();
            }
            catch (const std::exception&)
            {
                threw = true;
            }
            config_event(items, before, threw);
        };
        run_config({{"own::count", {7}}}, [&] { object.config("own::count", 7); });
        run_config({{"own::count", {5}}, {"own::rate", {0.5}}}, [&] { object.config("own::count", int64_t{5}, "own::rate", 0.5); });
        run_config({{"own::count", {6}}, {"own::rate", {1.0}}, {"own::range", {1, 8}}, {"own::span", {-1e9, 0.0}}},
                   [&] { object.config("own::count", 6, "own::rate", 1.0, "own::range", std::make_tuple(int64_t{1}, int64_t{8}), "own::span", std::make_tuple(-1e9, 0.0)); });
        run_config({{"own::count", {2}}, {"own::rate", {0.0}}}, [&] { object.config("own::count", 2, "own::rate", 0.0); });              // the second value is rejected
        run_config({{"own::rate", {2.0}}, {"own::count", {9}}}, [&] { object.config("own::rate", 2.0, "own::count", 9); });              // the first value is rejected
        run_config({{"own::count", {1}}, {"own::missing", {1}}}, [&] { object.config("own::count", 1, "own::missing", 1); });            // unknown name
        run_config({{"own::range", {5, 5}}, {"own::count", {8}}}, [&] { object.config("own::range", std::make_tuple(5, 5), "own::count", 8); }); // v1 < v2 violated
        run_config({{"own::count", {10}}, {"own::count2", {0}}, {"own::rate", {0.125}}}, [&] { object.config("own::count", 10, "own::count2", 0, "own::rate", 0.125); });
        run_config({}, [&] { object.config(); });
        read_all();
    }
}
} // namespace

int sweep(const char* out_path)
{
    vt::Trace::get().open(out_path);
    g_probe_dir = (std::filesystem::path(out_path).parent_path() / "dsprobe").string();
    make_probe_files(g_probe_dir);
    int64_t nobj = 0;
    sweep_factory("solver", solver_t::all(), nobj);
    sweep_factory("lsearch0", lsearch0_t::all(), nobj);
    sweep_factory("lsearchk", lsearchk_t::all(), nobj);
    sweep_factory("loss", loss_t::all(), nobj);
    sweep_factory("splitter", splitter_t::all(), nobj);
    sweep_factory("tuner", tuner_t::all(), nobj);
    sweep_factory("generator", generator_t::all(), nobj);
    sweep_factory("wlearner", wlearner_t::all(), nobj);
    sweep_factory("linear", linear_t::all(), nobj);
    sweep_factory("datasource", datasource_t::all(), nobj);
    sweep_factory("function", function_t::all(), nobj);
    own_cases();
    return 0;
}
